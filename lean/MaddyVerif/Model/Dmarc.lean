/-
Model of `internal/dmarc` (evaluate.go: ExtractFromDomain, FetchRecord, dmarcRecords,
EvaluateAlignment, isAligned; verifier.go: Verifier.FetchRecord + Verifier.Apply) and of the DMARC
part of `internal/msgpipeline/check_runner.go: applyResults`, as they are after the C07 `fix:`
commits (case-insensitive organizational domain; DMARC-record filtering before the organizational
domain fallback; SPF temperror only for an aligned identity; counting of From fields).

What is a parameter (library code, not maddy's):
* `Prims`: strings.EqualFold, strings.ToLower, publicsuffix.PublicSuffix, publicsuffix.EffectiveTLDPlusOne;
* the header parsers net/mail.ParseAddressList + address.Split: a From field arrives as `FieldParse`;
* the TXT classification `strings.HasPrefix(txt, "v=DMARC1")` + go-msgauth `dmarc.Parse`: a TXT string
  arrives as `Txt` (junk / DMARC record with its parse result);
* the resolver: `Str → Lookup` (answer classes: TXT list, not found, temporary DNS error, any other error);
* `math/rand.Int31n(100)`: the oracle argument `rnd`.
A DKIM result carries its signing identity (`Identifier`, the i= tag / header.i) next to d=; the code
reads d= only (`C07_verdict_ignores_dkim_identity`).
Not modelled: the trace field `EvalResult.DKIMResult`/`SPFResult` (only used for logging), a
panicking resolver, resolvers that return both TXT strings and an error.
The asynchronous hand-off (`Verifier.FetchRecord` starts the lookup in a goroutine under the context
it is given, `Apply` waits on `fetchCh`) is the last section: `timedLookup`, `fetchRecordTimed`,
`verifierFetchTimed`, `pipelineBody` — the pipeline's stages, the stage at which each DNS answer
arrives, and the stage after which the lookup's context is cancelled (`bodyCancelAfter`: in
`msgpipelineDelivery.Body` / `checkBody` the context is the one of `Body`; the only cancellation is
`Verifier.Close` in `checkRunner.close`, after `applyResults`).
How the verdicts of the checks reach `applyResults` (`check_runner.go: runAndMergeResults`, called from
`checkStates`, `checkRcpt`, `checkBody`) is the section after that: `CheckRes`, `mergedResults`,
`mergedQuarantine`, `pipelineChecks`.
Strings are lists of code points.  Core Lean only.
-/
namespace MaddyVerif.Dmarc

abbrev Str := List Nat

/-- Library primitives consulted by the code. -/
structure Prims where
  eqFold : Str → Str → Bool         -- strings.EqualFold
  lower : Str → Str                 -- strings.ToLower
  publicSuffix : Str → Str          -- publicsuffix.PublicSuffix (first result)
  etld1 : Str → Option Str          -- publicsuffix.EffectiveTLDPlusOne; `none` = error

inductive Mode | relaxed | strict
deriving DecidableEq, Repr

inductive Policy | none | quarantine | reject
deriving DecidableEq, Repr

/-- go-msgauth `dmarc.Record`, the fields the code reads.  `sp = none` is `SubdomainPolicy == ""`,
`pct = none` is `Percent == nil`. -/
structure Record where
  adkim : Mode
  aspf : Mode
  p : Policy
  sp : Option Policy
  pct : Option Nat
deriving DecidableEq, Repr

/-- `authres.ResultValue` (a Go string); `empty` is `""`. -/
inductive Val | none | pass | fail | softfail | neutral | temperror | permerror | policy | empty
deriving DecidableEq, Repr

/-- One element of the `[]authres.Result` slice handed to `Apply`. -/
inductive AuthRes
  | dkim (v : Val) (d : Str) (ident : Str)  -- *authres.DKIMResult{Value, Domain, Identifier}: d=, i= ("" = absent)
  | spf (v : Val) (mailFrom helo : Str)     -- *authres.SPFResult{Value, From, Helo}
  | other                                   -- any other result type
deriving DecidableEq, Repr

/-! ### isAligned -/

/-- `isAligned(fromDomain, authDomain, mode)`. -/
def isAligned (P : Prims) (fromD authD : Str) (mode : Mode) : Bool :=
  match mode with
  | .strict => P.eqFold fromD authD
  | .relaxed =>
    let f := P.lower fromD
    let a := P.lower authD
    let tld := P.publicSuffix f
    if P.eqFold f tld then P.eqFold f a
    else match P.etld1 f with
      | none => false
      | some orgF => match P.etld1 a with
        | none => false
        | some orgA => P.eqFold orgF orgA

/-! ### ExtractFromDomain -/

/-- One `From` header field as seen through `mail.ParseAddressList` and `address.Split`:
`malformed` = ParseAddressList failed; `addrs l` = the parsed addresses, each with the domain
`address.Split` returned (`none` = Split failed). -/
inductive FieldParse
  | malformed
  | addrs (l : List (Option Str))
deriving DecidableEq, Repr

inductive ExtractErr | missingField | multipleFields | malformed | multipleAddrs | missingAddr | malformedAddr
deriving DecidableEq, Repr

/-- `ExtractFromDomain` over the list of `From` fields of the header (in header order). -/
def extractFromDomain : List FieldParse → Except ExtractErr Str
  | [] => .error .missingField
  | _ :: _ :: _ => .error .multipleFields
  | [.malformed] => .error .malformed
  | [.addrs l] =>
    if l.length > 1 then .error .multipleAddrs
    else match l with
      | [] => .error .missingAddr
      | a :: _ => match a with
        | none => .error .malformedAddr
        | some d => .ok d

/-! ### FetchRecord -/

/-- One TXT string: `junk` has no `v=DMARC1` prefix; `dmarc r` has it and `dmarc.Parse` gave `r`. -/
inductive Txt
  | junk
  | dmarc (parsed : Option Record)
deriving DecidableEq, Repr

/-- Answer classes of `Resolver.LookupTXT`: strings with nil error; `*net.DNSError` with
`IsNotFound`; `*net.DNSError` (not IsNotFound) with `Temporary()`; any other error. -/
inductive Lookup
  | ok (txts : List Txt)
  | notFound
  | temp
  | other
deriving DecidableEq, Repr

inductive FetchErr | dnsTemp | dnsOther | noOrgDomain | parse
deriving DecidableEq, Repr

/-- `dmarcRecords`: the TXT strings that are DMARC policies (here: their parse results). -/
def dmarcRecords : List Txt → List (Option Record)
  | [] => []
  | .junk :: r => dmarcRecords r
  | .dmarc p :: r => p :: dmarcRecords r

/-- The `LookupTXT` call plus the `err != nil` test after it. -/
def lookupTxts : Lookup → Except FetchErr (List Txt)
  | .ok t => .ok t
  | .notFound => .ok []
  | .temp => .error .dnsTemp
  | .other => .error .dnsOther

/-- The tail of FetchRecord: exactly one DMARC record, parsed. -/
def pickRecord (dom : Str) : List (Option Record) → Except FetchErr (Option (Str × Record))
  | [some r] => .ok (some (dom, r))
  | [none] => .error .parse
  | _ => .ok none

/-- The `if len(records) == 0 { … }` block of FetchRecord: the organizational domain is asked. -/
def fetchAtOrg (P : Prims) (dns : Str → Lookup) (fromD : Str) : Except FetchErr (Option (Str × Record)) :=
  match P.etld1 (P.lower fromD) with
  | none => .error .noOrgDomain
  | some org =>
    match lookupTxts (dns org) with
    | .error e => .error e
    | .ok txts2 => pickRecord org (dmarcRecords txts2)

/-- `FetchRecord(ctx, r, fromDomain)`: `.ok none` = no record, `.ok (some (policyDomain, record))`. -/
def fetchRecord (P : Prims) (dns : Str → Lookup) (fromD : Str) : Except FetchErr (Option (Str × Record)) :=
  match lookupTxts (dns fromD) with
  | .error e => .error e
  | .ok txts =>
    let recs := dmarcRecords txts
    if recs.isEmpty then fetchAtOrg P dns fromD
    else pickRecord fromD recs

/-! ### EvaluateAlignment -/

/-- The local variables of the loop in EvaluateAlignment. -/
structure Acc where
  spfAligned : Bool := false
  spfVal : Val := .empty            -- spfResult.Value
  spfTemp : Bool := false
  dkimAligned : Bool := false
  dkimPresent : Bool := false
  dkimTemp : Bool := false
deriving DecidableEq, Repr

/-- The SPF identity that is compared: MAIL FROM domain, HELO when MAIL FROM is empty. -/
def spfIdentity (fromI helo : Str) : Str := if fromI.isEmpty then helo else fromI

def step (P : Prims) (fromD : Str) (rec : Record) (a : Acc) : AuthRes → Acc
  | .dkim v d _ =>
    -- `isAligned(fromDomain, dkimRes.Domain, …)`: the signing identity `dkimRes.Identifier` is not read
    let al := isAligned P fromD d rec.adkim
    { a with dkimPresent := true,
             dkimAligned := a.dkimAligned || (al && v == .pass),
             dkimTemp := a.dkimTemp || (al && v == .temperror) }
  | .spf v f h =>
    let al := isAligned P fromD (spfIdentity f h) rec.aspf
    { a with spfVal := v,
             spfAligned := a.spfAligned || (al && v == .pass),
             spfTemp := a.spfTemp || (al && v == .temperror) }
  | .other => a

inductive Reason | lookupFailed | notEnough | dkimTemp | spfTemp | noAligned | blank
deriving DecidableEq, Repr

structure Eval where
  val : Val
  reason : Reason
  spfAligned : Bool
  dkimAligned : Bool
deriving DecidableEq, Repr

/-- `EvaluateAlignment(fromDomain, record, results)`. -/
def evaluateAlignment (P : Prims) (fromD : Str) (rec : Record) (results : List AuthRes) : Eval :=
  let a := results.foldl (step P fromD rec) {}
  let mk (v : Val) (r : Reason) : Eval := ⟨v, r, a.spfAligned, a.dkimAligned⟩
  if !a.dkimPresent || a.spfVal == .empty then mk .none .notEnough
  else if a.dkimTemp && !a.dkimAligned && !a.spfAligned then mk .temperror .dkimTemp
  else if a.spfTemp && !a.dkimAligned && !a.spfAligned then mk .temperror .spfTemp
  else if a.dkimAligned || a.spfAligned then mk .pass .blank
  else mk .fail .noAligned

/-! ### Verifier.FetchRecord + Verifier.Apply -/

/-- What `Verifier.FetchRecord` sends through `fetchCh`. -/
inductive VerifyData
  | extractErr (e : ExtractErr)                 -- recordErr from ExtractFromDomain, fromDomain ""
  | fetchErr (fromD : Str) (e : FetchErr)       -- recordErr from FetchRecord
  | noRecord (fromD : Str)
  | record (fromD policyD : Str) (r : Record)
deriving DecidableEq, Repr

def verifierFetch (P : Prims) (dns : Str → Lookup) (hdr : List FieldParse) : VerifyData :=
  match extractFromDomain hdr with
  | .error e => .extractErr e
  | .ok fromD =>
    match fetchRecord P dns fromD with
    | .error e => .fetchErr fromD e
    | .ok none => .noRecord fromD
    | .ok (some (pd, r)) => .record fromD pd r

/-- `Verifier.Apply`: the evaluation and the policy to apply.  `rnd` is `rand.Int31n(100)`. -/
def apply (P : Prims) (data : VerifyData) (results : List AuthRes) (rnd : Nat) : Eval × Policy :=
  match data with
  | .extractErr _ => (⟨.permerror, .lookupFailed, false, false⟩, .none)
  | .fetchErr _ e =>
    -- `dnsErr, ok := recordErr.(*net.DNSError); ok && dnsErr.Temporary()`
    if e = .dnsTemp then (⟨.temperror, .lookupFailed, false, false⟩, .reject)
    else (⟨.permerror, .lookupFailed, false, false⟩, .none)
  | .noRecord _ => (⟨.none, .blank, false, false⟩, .none)
  | .record fromD policyD r =>
    let res := evaluateAlignment P fromD r results
    if res.val = .pass ∨ res.val = .none then (res, .none)
    else if (match r.pct with | some pct => decide (rnd > pct) | none => false) then (res, .none)
    else
      let policy := match r.sp with
        | some sp => if !P.eqFold policyD fromD then sp else r.p
        | none => r.p
      (res, policy)

/-- The whole verifier: header + resolver + authentication results → evaluation and policy. -/
def verify (P : Prims) (dns : Str → Lookup) (hdr : List FieldParse) (results : List AuthRes) (rnd : Nat) :
    Eval × Policy :=
  apply P (verifierFetch P dns hdr) results rnd

/-! ### checkRunner.applyResults (DMARC part) -/

/-- What the pipeline does with the message: refuse with an SMTP reply (basic code, enhanced
class.subject.detail) or go on with the quarantine flag of the message metadata. -/
inductive Reply
  | refuse (code : Nat) (ec0 ec1 ec2 : Nat)
  | accept (quarantine : Bool)
deriving DecidableEq, Repr

/-- `applyResults` with `doDMARC`: `priorQ` is `mergedRes.Quarantine` (set by earlier checks). -/
def applyResults (priorQ : Bool) (res : Eval × Policy) : Reply :=
  match res.2 with
  | .reject =>
    if res.1.val = .temperror then .refuse 450 4 7 1 else .refuse 550 5 7 1
  | .quarantine => .accept true
  | .none => .accept priorQ

/-! ### The asynchronous hand-off: `checkBody` → `Verifier.FetchRecord` (goroutine) → `fetchCh` → `Apply`

Stages of `msgpipelineDelivery.Body`: `0` = `Verifier.FetchRecord` is called (at the start of the
first `checkBody`), `k ≥ 1` = the body checks of the `k`-th check block are running, any stage
after the last block = `applyResults` is waiting in `Apply` (`<-v.fetchCh` blocks until the lookup
goroutine has sent its result, however late).  The resolver honours its context the way
`net.Resolver` does: a lookup whose context is cancelled before the answer has arrived ends with a
`*net.DNSError` "operation was canceled", which is neither `IsNotFound` nor `Temporary()`. -/

/-- Is a context that is cancelled after stage `c` (`none`: not cancelled while the message is
being decided) cancelled at stage `t`? -/
def aborted (cancelAfter : Option Nat) (t : Nat) : Bool :=
  match cancelAfter with
  | some c => decide (c < t)
  | none => false

/-- `Resolver.LookupTXT(ctx, name)` asked at stage `start`, the answer for `name` arriving at stage
`arrive name` (at once when that stage has passed already). -/
def timedLookup (dns : Str → Lookup) (arrive : Str → Nat) (cancelAfter : Option Nat) (start : Nat)
    (name : Str) : Lookup :=
  if aborted cancelAfter (max start (arrive name)) then .other else dns name

/-- `FetchRecord` run in the goroutine: the query for the organizational domain is made when the
answer for the author domain has arrived. -/
def fetchRecordTimed (P : Prims) (dns : Str → Lookup) (arrive : Str → Nat) (cancelAfter : Option Nat)
    (fromD : Str) : Except FetchErr (Option (Str × Record)) :=
  match lookupTxts (timedLookup dns arrive cancelAfter 0 fromD) with
  | .error e => .error e
  | .ok txts =>
    let recs := dmarcRecords txts
    if recs.isEmpty then fetchAtOrg P (timedLookup dns arrive cancelAfter (arrive fromD)) fromD
    else pickRecord fromD recs

/-- What arrives through `fetchCh`. -/
def verifierFetchTimed (P : Prims) (dns : Str → Lookup) (arrive : Str → Nat) (cancelAfter : Option Nat)
    (hdr : List FieldParse) : VerifyData :=
  match extractFromDomain hdr with
  | .error e => .extractErr e
  | .ok fromD =>
    match fetchRecordTimed P dns arrive cancelAfter fromD with
    | .error e => .fetchErr fromD e
    | .ok none => .noRecord fromD
    | .ok (some (pd, r)) => .record fromD pd r

/-- The context `checkBody` hands to `Verifier.FetchRecord` is the context of `Body` itself; the
derived `fetchCancel` is called by `Verifier.Close` (`checkRunner.close`), after `applyResults`. -/
def bodyCancelAfter : Option Nat := none

/-- The checks-and-DMARC part of `msgpipelineDelivery.Body` (and of `BodyNonAtomic`, which runs the
same `checkBody`… `applyResults` sequence): the authentication results of the
check blocks are merged in block order (`blocks`: what the checks of each block report),
`applyResults` hands them to `Apply`, which takes the lookup's result from `fetchCh`.
`cancelAfter` is a parameter only to make the dependence visible; the code is
`pipelineBody … bodyCancelAfter`. -/
def pipelineBodyWith (cancelAfter : Option Nat) (P : Prims) (dns : Str → Lookup) (arrive : Str → Nat)
    (hdr : List FieldParse) (blocks : List (List AuthRes)) (rnd : Nat) (priorQ : Bool) : Reply :=
  applyResults priorQ (apply P (verifierFetchTimed P dns arrive cancelAfter hdr) blocks.flatten rnd)

def pipelineBody (P : Prims) (dns : Str → Lookup) (arrive : Str → Nat)
    (hdr : List FieldParse) (blocks : List (List AuthRes)) (rnd : Nat) (priorQ : Bool) : Reply :=
  pipelineBodyWith bodyCancelAfter P dns arrive hdr blocks rnd priorQ

/-! ### How the verdicts of the checks reach `applyResults`: `checkRunner.runAndMergeResults`

Every call of `runAndMergeResults` (from `checkStates` for the connection and sender stages of
newly created states, from `checkRcpt`, from `checkBody`) appends `AuthResult` of every
`module.CheckResult` it collects to `mergedRes.AuthResult` and sets `mergedRes.Quarantine` when a
result has `Quarantine` - whether or not a `Reason` is attached and whether or not header fields
come along.  A result with a `Reason` and neither flag ("action ignore"; what `check.spf` returns
when it leaves the decision to DMARC) is merged like any other and the reason is logged.  (A result
with `Reject` ends the command with the check's own reply before `applyResults` runs; outside this
model.) -/

inductive Stage | conn | sender | rcpt | body
deriving DecidableEq, Repr

/-- What the check of a block hands back and at which stage.  `block`: 0 global, 1 source,
2 recipient.  `reason`: a `Reason` is attached; `header`: header fields are attached; `again`: the
later blocks reference the same check object (`checkStates` finds its state; `checkRcptOnce` and
`checkedBodyPerCheck` repeat its decision - the flags - without results and header fields). -/
structure CheckRes where
  block : Nat
  stage : Stage
  results : List AuthRes
  reason : Bool
  quarantine : Bool
  header : Bool
  again : Bool
deriving Repr

/-- The command during which the check's result is merged: 0 = MAIL FROM (`Start`: connection and
sender stage of the global and source checks), 1 = RCPT TO (`AddRcpt`: recipient stage of the
global and source checks, then - the states of the recipient block being created only now - all
three early stages of the recipient checks), 2 = the message (`Body`/`BodyNonAtomic`). -/
def CheckRes.phase (c : CheckRes) : Nat :=
  match c.stage with
  | .body => 2
  | .rcpt => 1
  | _ => if c.block < 2 then 0 else 1

/-- `mergedRes.AuthResult` when `applyResults` runs, for the checks `cs` given in block order (one
result-reporting check per block): command by command, within a command in block order.  Reads
neither `reason` nor `header` nor `again` nor the flags. -/
def mergedResults (cs : List CheckRes) : List (List AuthRes) :=
  [0, 1, 2].flatMap fun ph => (cs.filter (fun c => c.phase == ph)).map (·.results)

/-- `mergedRes.Quarantine` when `applyResults` runs (`flagged`: set by some other check). -/
def mergedQuarantine (flagged : Bool) (cs : List CheckRes) : Bool :=
  flagged || cs.any (·.quarantine)

/-- `pipelineBody` fed with what the checks handed over. -/
def pipelineChecks (P : Prims) (dns : Str → Lookup) (arrive : Str → Nat)
    (hdr : List FieldParse) (cs : List CheckRes) (rnd : Nat) (flagged : Bool) : Reply :=
  pipelineBody P dns arrive hdr (mergedResults cs) rnd (mergedQuarantine flagged cs)

/-! ### Delivery through routing blocks (`deliver_to &local_routing`)

The target of the pipeline that evaluates DMARC may be another `MsgPipeline`; it shares the
`MsgMetadata` of the message, and its own `applyResults` (no `doDMARC`) runs after the outer one,
before the storage target sees the message.  `applyResults` only ever SETS `msgMeta.Quarantine`
(`if cr.mergedRes.Quarantine { cr.msgMeta.Quarantine = true }`): a routing block whose checks have
nothing to quarantine leaves the flag as it found it.  A refusal of the outer pipeline ends the
transaction before the inner `applyResults` matters. -/

/-- `applyResults` of a pipeline without `doDMARC`, run on a message the outer pipeline has already
decided on; `mergedQ` is that pipeline's `mergedRes.Quarantine`. -/
def applyResultsRouting (mergedQ : Bool) : Reply → Reply
  | .accept q => .accept (q || mergedQ)
  | r => r

/-- The message passes the routing blocks `hops` (outermost first; per block: do its own checks
flag the message). -/
def routed (hops : List Bool) (r : Reply) : Reply :=
  hops.foldl (fun r h => applyResultsRouting h r) r

end MaddyVerif.Dmarc
