/-
Model of the maddy configuration reader (property C20).

Mirrored Go code (as it is in the tree, after the `fix:` commits listed in notes/C20.md):

  framework/config/lexer/lexer.go      load, next                     → `stripBOM`, `lexGo`, `lexAll`
  framework/config/lexer/parse.go      allTokens                      → `lexAll`
  framework/config/lexer/dispenser.go  Next, NextArg, NextLine, Val,
                                       Line, numLineBreaks            → `Ctx.next` … `Ctx.numLineBreaks`
  framework/cfgparser/parse.go         validateNodeName, readNode, isSnippet, parseAsMacro,
                                       readNodes, readTree, Read      → same names
  framework/cfgparser/imports.go       expandImports, resolveImport, expandMacros,
                                       expandSingleValueMacro, macroRe,
                                       maxExpandedNodes, countNodes (fix 3)  → `maxExpandedNodes`, `sizeL`
  framework/cfgparser/env.go           expandEnvironment, removeUnexpandedEnvvars, buildEnvReplacer

Conventions
* A Go string that came out of the lexer is valid UTF-8, so it is a list of Unicode scalar values
  (`Str = List Char`).  `bufio.Reader.ReadRune` (bytes → runes, U+FFFD for every invalid byte) is
  modelled separately by `decodeUtf8`.
* Every Go slice / index expression is an explicit bounds check whose failure is the outcome
  `Res.panic`; crash-freedom is then a theorem, not an accident of `getD`.
* Loops whose termination is not structural carry a `fuel` argument; running out of it is the
  outcome `Res.fuel`, and Props/C20 proves explicit sufficient bounds (the termination claim).
* `unicode.IsLetter` / `unicode.IsDigit` are parameters (`Uni`); `unicode.IsSpace` is the concrete
  25-element set (compared exhaustively with the library by the harness).
* The file system consulted by `import` is a parameter `Fs` (file name in the configuration
  directory → file id and content); the process environment is a parameter (list of pairs in
  `os.Environ()` order).
* Go maps `snippets`, `macros` are association lists with newest-first lookup (same semantics:
  only look-up by key and overwrite are used).
* `Token.File` is never set by the lexer, so the `File ==` comparisons of NextArg / NextLine are
  always true and are dropped.
Core Lean only.
-/
namespace MaddyVerif.Cfg

abbrev Str := List Char

/-! ## Outcome type -/

inductive ErrKind where
  | blockHeader        -- SyntaxErr("block header")
  | emptyName | digitName | badNameChar            -- validateNodeName
  | macroNoClose | macroFewArgs | macroNoEq        -- parseAsMacro
  | nestingLimit | newlineAfterBrace | unexpectedClose
  | macroNotTop | snippetNotTop | snippetArgs
  | macroAsName | macroMultiInString               -- expandMacros
  | unexpectedEOF
  | importLimit | importArgs | unknownImport
  | importNodes                                    -- maxExpandedNodes exceeded (fix 3)
  deriving DecidableEq, Repr, Inhabited

inductive Res (α : Type) where
  | ok (a : α)
  | err (k : ErrKind) (line : Nat)
  | panic
  | fuel
  deriving Repr

namespace Res
@[inline] def bind {α β} (x : Res α) (f : α → Res β) : Res β :=
  match x with
  | .ok a => f a
  | .err k l => .err k l
  | .panic => .panic
  | .fuel => .fuel
instance : Monad Res where
  pure := .ok
  bind := Res.bind
end Res

/-! ## Lexer -/

/-- `unicode.IsSpace` -/
def isSpace (c : Char) : Bool :=
  let n := c.toNat
  n == 0x20 || (0x09 ≤ n && n ≤ 0x0D) || n == 0x85 || n == 0xA0 || n == 0x1680 ||
  (0x2000 ≤ n && n ≤ 0x200A) || n == 0x2028 || n == 0x2029 || n == 0x202F || n == 0x205F ||
  n == 0x3000

structure Token where
  line : Nat
  text : Str
  deriving DecidableEq, Repr, Inhabited

/-- `lexer.next` iterated by `allTokens`.  The arguments are the fields/locals of `next`:
`l.line`, `l.token.Line`, `val`, `comment`, `quoted`, `escaped`; emitting a token restarts `next`
(locals reset).  Structural in the input. -/
def lexGo (line tokLine : Nat) (val : Str) (comment quoted escaped : Bool) : List Char → List Token
  | [] => if val.isEmpty then [] else [⟨tokLine, val⟩]
  | ch :: rest =>
    if quoted then
      if !escaped && ch == '\\' then lexGo line tokLine val comment true true rest
      else if !escaped && ch == '"' then
        ⟨tokLine, val⟩ :: lexGo line tokLine [] false false false rest
      else
        let line' := if ch == '\n' then line + 1 else line
        let val' := if escaped && ch != '"' then val ++ ['\\'] else val
        lexGo line' tokLine (val' ++ [ch]) comment true false rest
    else if isSpace ch then
      if ch == '\r' then lexGo line tokLine val comment false escaped rest
      else
        let line' := if ch == '\n' then line + 1 else line
        let comment' := if ch == '\n' then false else comment
        if !val.isEmpty then ⟨tokLine, val⟩ :: lexGo line' tokLine [] false false false rest
        else lexGo line' tokLine val comment' false escaped rest
    else
      let comment' := comment || ch == '#'
      if comment' then lexGo line tokLine val true false escaped rest
      else if val.isEmpty then
        if ch == '"' then lexGo line line [] false true escaped rest
        else lexGo line line [ch] false false escaped rest
      else lexGo line tokLine (val ++ [ch]) false false escaped rest

/-- `lexer.load`: a leading byte order mark is discarded. -/
def stripBOM : Str → Str
  | [] => []
  | c :: r => if c.toNat == 0xFEFF then r else c :: r

/-- `allTokens` (an empty input makes `load` fail, which `NewDispenser` ignores: no tokens). -/
def lexAll (s : Str) : List Token := lexGo 1 0 [] false false false (stripBOM s)

/-! ## UTF-8 decoding (`bufio.Reader.ReadRune` = `utf8.DecodeRune` repeated) -/

def mkChar (n : Nat) : Char := if n.isValidChar then Char.ofNat n else '�'

def isCont (b : Nat) : Bool := 0x80 ≤ b && b ≤ 0xBF

/-- one `utf8.DecodeRune` step: (rune, number of bytes consumed) -/
def decodeRune : List Nat → Char × Nat
  | [] => ('�', 0)
  | b0 :: rest =>
    if b0 < 0x80 then (mkChar b0, 1)
    else if b0 < 0xC2 then ('�', 1)
    else if b0 < 0xE0 then
      match rest with
      | b1 :: _ => if isCont b1 then (mkChar ((b0 - 0xC0) * 64 + (b1 - 0x80)), 2) else ('�', 1)
      | _ => ('�', 1)
    else if b0 < 0xF0 then
      match rest with
      | b1 :: b2 :: _ =>
        let lo := if b0 == 0xE0 then 0xA0 else 0x80
        let hi := if b0 == 0xED then 0x9F else 0xBF
        if lo ≤ b1 && b1 ≤ hi && isCont b2 then
          (mkChar ((b0 - 0xE0) * 4096 + (b1 - 0x80) * 64 + (b2 - 0x80)), 3)
        else ('�', 1)
      | _ => ('�', 1)
    else if b0 < 0xF5 then
      match rest with
      | b1 :: b2 :: b3 :: _ =>
        let lo := if b0 == 0xF0 then 0x90 else 0x80
        let hi := if b0 == 0xF4 then 0x8F else 0xBF
        if lo ≤ b1 && b1 ≤ hi && isCont b2 && isCont b3 then
          (mkChar ((b0 - 0xF0) * 262144 + (b1 - 0x80) * 4096 + (b2 - 0x80) * 64 + (b3 - 0x80)), 4)
        else ('�', 1)
      | _ => ('�', 1)
    else ('�', 1)

/-- bytes → runes; `skip` bytes of an already decoded sequence are dropped (structural). -/
def decodeGo : Nat → List Nat → Str
  | _, [] => []
  | skip + 1, _ :: bs => decodeGo skip bs
  | 0, b :: bs => let r := decodeRune (b :: bs); r.1 :: decodeGo (r.2 - 1) bs

def decodeUtf8 (bs : List Nat) : Str := decodeGo 0 bs

/-! ## Trees -/

inductive Node where
  | mk (name : Str) (args : List Str) (block : Bool) (children : List Node)
       (isSnip isMacro : Bool) (file line : Nat)
  deriving Repr, Inhabited

namespace Node
def name : Node → Str | .mk n _ _ _ _ _ _ _ => n
def args : Node → List Str | .mk _ a _ _ _ _ _ _ => a
/-- `Children != nil` -/
def block : Node → Bool | .mk _ _ b _ _ _ _ _ => b
def children : Node → List Node | .mk _ _ _ c _ _ _ _ => c
def isSnip : Node → Bool | .mk _ _ _ _ s _ _ _ => s
def isMacro : Node → Bool | .mk _ _ _ _ _ m _ _ => m
def file : Node → Nat | .mk _ _ _ _ _ _ f _ => f
def line : Node → Nat | .mk _ _ _ _ _ _ _ l => l
def setName (n : Node) (x : Str) : Node := .mk x n.args n.block n.children n.isSnip n.isMacro n.file n.line
def setArgs (n : Node) (x : List Str) : Node := .mk n.name x n.block n.children n.isSnip n.isMacro n.file n.line
def setChildren (n : Node) (b : Bool) (x : List Node) : Node :=
  .mk n.name n.args b x n.isSnip n.isMacro n.file n.line
def setSnippet (n : Node) (x : Bool) : Node := .mk n.name n.args n.block n.children x n.isMacro n.file n.line
def setMacro (n : Node) (x : Bool) : Node := .mk n.name n.args n.block n.children n.isSnip x n.file n.line
end Node

/-! ## Dispenser + parseContext -/

structure Ctx where
  toks : List Token
  cursor : Int := -1
  nesting : Int := -1
  snippets : List (Str × List Node) := []
  macros : List (Str × List Str) := []
  file : Nat := 0
  deriving Inhabited

namespace Ctx

def len (c : Ctx) : Int := c.toks.length

/-- `d.tokens[i]` with the bounds check made explicit -/
def tokAt (c : Ctx) (i : Int) : Option Token :=
  if i < 0 then none else c.toks[i.toNat]?

/-- `Dispenser.Val` -/
def val (c : Ctx) : Str :=
  if c.cursor < 0 || c.cursor ≥ c.len then [] else
  match c.tokAt c.cursor with
  | some t => t.text
  | none => []

/-- `Dispenser.Line` -/
def line (c : Ctx) : Nat :=
  if c.cursor < 0 || c.cursor ≥ c.len then 0 else
  match c.tokAt c.cursor with
  | some t => t.line
  | none => 0

/-- `Dispenser.numLineBreaks` -/
def numLineBreaks (c : Ctx) (i : Int) : Nat :=
  if i < 0 || i ≥ c.len then 0 else
  match c.tokAt i with
  | some t => t.text.count '\n'
  | none => 0

/-- `Dispenser.Next` -/
def next (c : Ctx) : Bool × Ctx :=
  if c.cursor < c.len - 1 then (true, { c with cursor := c.cursor + 1 }) else (false, c)

/-- `Dispenser.NextArg` -/
def nextArg (c : Ctx) : Res (Bool × Ctx) :=
  if c.cursor < 0 then .ok (true, { c with cursor := c.cursor + 1 })
  else if c.cursor ≥ c.len then .ok (false, c)
  else if c.cursor < c.len - 1 then
    match c.tokAt c.cursor, c.tokAt (c.cursor + 1) with
    | some a, some b =>
      if a.line + c.numLineBreaks c.cursor == b.line then .ok (true, { c with cursor := c.cursor + 1 })
      else .ok (false, c)
    | _, _ => .panic
  else .ok (false, c)

/-- `Dispenser.NextLine` -/
def nextLine (c : Ctx) : Res (Bool × Ctx) :=
  if c.cursor < 0 then .ok (true, { c with cursor := c.cursor + 1 })
  else if c.cursor ≥ c.len then .ok (false, c)
  else if c.cursor < c.len - 1 then
    match c.tokAt c.cursor, c.tokAt (c.cursor + 1) with
    | some a, some b =>
      if a.line + c.numLineBreaks c.cursor < b.line then .ok (true, { c with cursor := c.cursor + 1 })
      else .ok (false, c)
    | _, _ => .panic
  else .ok (false, c)

/-- `ctx.Err(msg)` -/
def err {α} (c : Ctx) (k : ErrKind) : Res α := .err k c.line

end Ctx

/-! ## String helpers (strings.HasPrefix, HasSuffix, Contains, Replace, the two regexps) -/

def hasSuffixCh (s : Str) (c : Char) : Bool := s.getLast? == some c

/-- `strings.Contains(s, p)` -/
def hasInfix (p : Str) : Str → Bool
  | [] => p.isEmpty
  | c :: cs => p.isPrefixOf (c :: cs) || hasInfix p cs

/-- `strings.Replace(s, old, new, -1)` for non-empty `old` (skip counter = rest of a match) -/
def replaceAllGo (old new : Str) : Nat → Str → Str
  | _, [] => []
  | skip + 1, _ :: cs => replaceAllGo old new skip cs
  | 0, c :: cs =>
    if old.isPrefixOf (c :: cs) then new ++ replaceAllGo old new (old.length - 1) cs
    else c :: replaceAllGo old new 0 cs

def replaceAll (s old new : Str) : Str := replaceAllGo old new 0 s

/-- last index `p ≥ 1` of `c` in `r`, scanning with the current index `i` -/
def lastIdxFrom1 (c : Char) : Nat → Str → Option Nat
  | _, [] => none
  | i, x :: xs =>
    match lastIdxFrom1 c (i + 1) xs with
    | some p => some p
    | none => if x == c && i ≥ 1 then some i else none

/-- leftmost-first match of `pre [^$]+ close` anchored at the start of `s`:
(length of the match, text of the group).  Greedy `[^$]+` backtracks to the last `close` inside the
maximal `$`-free run. -/
def reMatch (pre : Str) (close : Char) (s : Str) : Option (Nat × Str) :=
  if pre.isPrefixOf s then
    let r := (s.drop pre.length).takeWhile (· != '$')
    match lastIdxFrom1 close 0 r with
    | some p => some (pre.length + p + 1, r.take p)
    | none => none
  else none

/-- `re.FindAllStringSubmatch(s, -1)`, group 1 of every match -/
def reFindAllGo (pre : Str) (close : Char) : Nat → Str → List Str
  | _, [] => []
  | skip + 1, _ :: cs => reFindAllGo pre close skip cs
  | 0, c :: cs =>
    match reMatch pre close (c :: cs) with
    | some (n, g) => g :: reFindAllGo pre close (n - 1) cs
    | none => reFindAllGo pre close 0 cs

/-- `re.ReplaceAllString(s, "")` -/
def reRemoveAllGo (pre : Str) (close : Char) : Nat → Str → Str
  | _, [] => []
  | skip + 1, _ :: cs => reRemoveAllGo pre close skip cs
  | 0, c :: cs =>
    match reMatch pre close (c :: cs) with
    | some (n, _) => reRemoveAllGo pre close (n - 1) cs
    | none => c :: reRemoveAllGo pre close 0 cs

def macroPre : Str := ['$', '(']
def envPre : Str := ['{', 'e', 'n', 'v', ':']

/-- `macroRe.FindAllStringSubmatch(arg, -1)` → the names -/
def macroMatches (s : Str) : List Str := reFindAllGo macroPre ')' 0 s

/-- `removeUnexpandedEnvvars` -/
def removeUnexpandedEnvvars (s : Str) : Str := reRemoveAllGo envPre '}' 0 s

/-- `strings.NewReplacer(pairs...).Replace`: at every position the first pair (argument order)
whose old string matches wins; old strings are non-empty here. -/
def replacerGo (pairs : List (Str × Str)) : Nat → Str → Str
  | _, [] => []
  | skip + 1, _ :: cs => replacerGo pairs skip cs
  | 0, c :: cs =>
    match pairs.find? (fun p => p.1.isPrefixOf (c :: cs)) with
    | some p => p.2 ++ replacerGo pairs (p.1.length - 1) cs
    | none => c :: replacerGo pairs 0 cs

/-- `buildEnvReplacer` -/
def envPairs (env : List (Str × Str)) : List (Str × Str) :=
  env.map (fun kv => (envPre ++ kv.1 ++ ['}'], kv.2))

def expandEnvStr (env : List (Str × Str)) (s : Str) : Str :=
  removeUnexpandedEnvvars (replacerGo (envPairs env) 0 s)

/-! ## validateNodeName -/

structure Uni where
  isLetter : Char → Bool
  isDigit : Char → Bool

def allowedPunct (c : Char) : Bool := c == '.' || c == '-' || c == '_'

def validateNodeName (u : Uni) (s : Str) : Option ErrKind :=
  match s with
  | [] => some .emptyName
  | c :: _ =>
    if u.isDigit c then some .digitName
    else if s.all (fun ch => u.isLetter ch || u.isDigit ch || allowedPunct ch) then none
    else some .badNameChar

/-! ## Macros -/

def lookup {β} (m : List (Str × β)) (k : Str) : Option β :=
  match m.find? (fun p => p.1 == k) with
  | some p => some p.2
  | none => none

def isMacroRef (s : Str) : Bool := macroPre.isPrefixOf s && hasSuffixCh s ')'

/-- `arg[a:b]` -/
def slice (s : Str) (a b : Nat) : Res Str :=
  if a ≤ b ∧ b ≤ s.length then .ok ((s.take b).drop a) else .panic

/-- the loop of `expandSingleValueMacro` over the matches found in the original argument -/
def expandSingleLoop (macros : List (Str × List Str)) (errLine : Nat) : List Str → Str → Res Str
  | [], arg => .ok arg
  | name :: more, arg =>
    let vals := lookup macros name
    if (vals.getD []).length > 1 then .err .macroMultiInString errLine
    else
      match vals with
      | some (v :: _) => expandSingleLoop macros errLine more (replaceAll arg (macroPre ++ name ++ [')']) v)
      | some [] => expandSingleLoop macros errLine more (replaceAll arg (macroPre ++ name ++ [')']) [])
      | none => expandSingleLoop macros errLine more (replaceAll arg (macroPre ++ name ++ [')']) [])

def expandSingleValueMacro (macros : List (Str × List Str)) (errLine : Nat) (arg : Str) : Res Str :=
  expandSingleLoop macros errLine (macroMatches arg) arg

/-- the argument loop of `expandMacros` -/
def expandArgs (macros : List (Str × List Str)) (errLine : Nat) : List Str → Res (List Str)
  | [] => .ok []
  | arg :: rest =>
    if !isMacroRef arg then do
      let arg' ← (if hasInfix macroPre arg && hasInfix [')'] arg
                  then expandSingleValueMacro macros errLine arg else .ok arg : Res Str)
      let rest' ← expandArgs macros errLine rest
      pure (arg' :: rest')
    else do
      let name ← slice arg 2 (arg.length - 1)
      let rest' ← expandArgs macros errLine rest
      match lookup macros name with
      | none => pure rest'
      | some repl => pure (repl ++ rest')

mutual
/-- `expandMacros` (errors carry the line of the dispenser's current token: `errLine`) -/
def expandMacros (macros : List (Str × List Str)) (errLine : Nat) : Node → Res Node
  | .mk name args block children sn ma f l =>
    if isMacroRef name then .err .macroAsName errLine
    else do
      let args' ← expandArgs macros errLine args
      let ch' ← expandMacrosList macros errLine children
      pure (.mk name args' block ch' sn ma f l)
def expandMacrosList (macros : List (Str × List Str)) (errLine : Nat) : List Node → Res (List Node)
  | [] => .ok []
  | n :: ns => do
    let n' ← expandMacros macros errLine n
    let ns' ← expandMacrosList macros errLine ns
    pure (n' :: ns')
end

/-! ## readNode / readNodes -/

/-- `isSnippet` -/
def isSnippet (name : Str) : Res (Option Str) :=
  if ['('].isPrefixOf name && hasSuffixCh name ')' then
    slice name 1 (name.length - 1) >>= fun s => .ok (some s)
  else .ok none

/-- `parseAsMacro`: (macroName, args); the caller treats an empty macroName as "not a macro" -/
def parseAsMacro (c : Ctx) (name : Str) (args : List Str) : Res (Str × List Str) :=
  if !macroPre.isPrefixOf name then .ok ([], [])
  else if !hasSuffixCh name ')' then c.err .macroNoClose
  else
    slice name 2 (name.length - 1) >>= fun mname =>
      if args.length < 2 then c.err .macroFewArgs
      else match args with
        | a0 :: rest => if a0 != ['='] then c.err .macroNoEq else .ok (mname, rest)
        | [] => .panic                       -- node.Args[0]

def lbrace : Str := ['{']
def rbrace : Str := ['}']
def backslash : Str := ['\\']

/-- the end of `readNode`: macro declaration detection and name validation -/
def finishNode (u : Uni) (c : Ctx) (node : Node) : Res (Node × Ctx) :=
  parseAsMacro c node.name node.args >>= fun r =>
    if r.1 != [] then .ok (((node.setName r.1).setArgs r.2).setMacro true, c)
    else if !node.isSnip then
      match validateNodeName u node.name with
      | some k => .err k 0
      | none => .ok (node, c)
    else .ok (node, c)

/-- the loop condition `ctx.NextArg() || (continueOnLF && ctx.NextLine())` -/
def advanceArg (c : Ctx) (continueOnLF : Bool) : Res (Bool × Ctx) :=
  c.nextArg >>= fun r =>
    if r.1 then .ok r else if continueOnLF then r.2.nextLine else .ok (false, r.2)

/-- head of the `readNodes` loop: (stop?, ctx) -/
def advanceLine (c : Ctx) (requireNewLine : Bool) : Res (Bool × Ctx) :=
  if requireNewLine then
    c.nextLine >>= fun r =>
      if r.1 then .ok (false, r.2)
      else if r.2.next.1 then r.2.next.2.err .newlineAfterBrace   -- newline is required after closing brace
      else .ok (true, r.2.next.2)                                 -- EOF
  else .ok (!c.next.1, c.next.2)

/-- `readNodes` edge case, `}` is the last argument of the node: (node, ctx, shouldStop) -/
def closeEdge (node : Node) (c : Ctx) : Res (Node × Ctx × Bool) :=
  if node.args.getLast? == some rbrace then
    if c.nesting - 1 < 0 then ({ c with nesting := c.nesting - 1 } : Ctx).err .unexpectedClose
    else .ok (node.setArgs node.args.dropLast, { c with nesting := c.nesting - 1 }, true)
  else .ok (node, c, false)

/-- beginning of `readNode`: file, line, name, snippet detection -/
def startNode (c : Ctx) : Res Node :=
  isSnippet c.val >>= fun sn =>
    match sn with
    | some n => .ok (.mk n [] false [] true false c.file c.line)
    | none => .ok (.mk c.val [] false [] false false c.file c.line)

mutual
/-- the two nested `for` loops of `readNode`, entered at the condition of the inner loop -/
def argLoop (u : Uni) : Nat → Ctx → Node → Bool → Res (Node × Ctx)
  | 0, _, _, _ => .fuel
  | fuel + 1, c, node, continueOnLF =>
    advanceArg c continueOnLF >>= fun r =>
      if r.1 then
        if r.2.val == lbrace then
          readNodes u fuel r.2 >>= fun rc => afterArgs u fuel rc.2 (node.setChildren true rc.1)
        else argLoop u fuel r.2 (node.setArgs (node.args ++ [r.2.val])) false
      else afterArgs u fuel r.2 node
/-- after the inner loop: line continuation or the end of the node -/
def afterArgs (u : Uni) : Nat → Ctx → Node → Res (Node × Ctx)
  | 0, _, _ => .fuel
  | fuel + 1, c, node =>
    if node.args.getLast? == some backslash then
      -- node.Args[last] = node.Args[last][:len-1]; it is then empty and dropped
      argLoop u fuel c (node.setArgs node.args.dropLast) true
    else finishNode u c node
/-- the `for` loop of `readNodes` -/
def nodesLoop (u : Uni) : Nat → Ctx → List Node → Bool → Res (List Node × Ctx)
  | 0, _, _, _ => .fuel
  | fuel + 1, c, res, requireNewLine =>
    advanceLine c requireNewLine >>= fun r =>
      if r.1 then .ok (res, r.2)
      else if r.2.val == rbrace then
        if r.2.nesting - 1 < 0 then ({ r.2 with nesting := r.2.nesting - 1 } : Ctx).err .unexpectedClose
        else .ok (res, { r.2 with nesting := r.2.nesting - 1 })
      else
        readNode u fuel r.2 >>= fun rn =>
        closeEdge rn.1 rn.2 >>= fun e =>
          let node := e.1
          let c3 := e.2.1
          if node.isMacro then
            if c3.nesting != 0 || e.2.2 then c3.err .macroNotTop
            else
              expandMacros c3.macros c3.line node >>= fun node =>
                nodesLoop u fuel { c3 with macros := (node.name, node.args) :: c3.macros } res true
          else if node.isSnip then
            if c3.nesting != 0 || e.2.2 then c3.err .snippetNotTop
            else if node.args.length != 0 then c3.err .snippetArgs
            else nodesLoop u fuel { c3 with snippets := (node.name, node.children) :: c3.snippets } res true
          else
            expandMacros c3.macros c3.line node >>= fun node =>
              if e.2.2 then .ok (res ++ [node], c3)
              else nodesLoop u fuel c3 (res ++ [node]) true
/-- `readNode` -/
def readNode (u : Uni) : Nat → Ctx → Res (Node × Ctx)
  | 0, _ => .fuel
  | fuel + 1, c =>
    if c.val == lbrace then .err .blockHeader c.line
    else startNode c >>= fun node => argLoop u fuel c node false
/-- `readNodes` -/
def readNodes (u : Uni) : Nat → Ctx → Res (List Node × Ctx)
  | 0, _ => .fuel
  | fuel + 1, c =>
    if c.nesting > 255 then c.err .nestingLimit
    else nodesLoop u fuel { c with nesting := c.nesting + 1 } [] false
end

/-- fuel that is always enough for `readNodes` on `n` tokens (proved in Props/C20) -/
def parseFuel (n : Nat) : Nat := 4 * n + 8

/-! ## Recursion depth of the block parser

`readNode` and `readNodes` call each other once per block that is open at the cursor.  A Go call that
does not return before the next one starts costs stack, and a goroutine stack overflow is fatal, so the
number of calls that are active at the same time is part of the behaviour.  The functions below are the
block parser once more, with that number made explicit: `d` is the number of `readNodes` calls active
when the function runs, every outcome is paired with the largest such number reached (`peak`), loops
(`for` in Go, tail calls here) do not count.  `Props/C20` proves that erasing the bookkeeping gives back
`readNodes` (`readNodesD_res`) and that the peak is bounded for every input (`C20_parser_recursion_bounded`). -/

/-- an outcome and the largest number of simultaneously active `readNodes` calls seen on the way -/
structure DRes (α : Type) where
  res : Res α
  peak : Nat

namespace DRes
/-- a step that makes no call into the recursion: it runs at the current depth -/
@[inline] def step {α} (d : Nat) (x : Res α) : DRes α := ⟨x, d⟩
@[inline] def bind {α β} (x : DRes α) (f : α → DRes β) : DRes β :=
  match x.res with
  | .ok a => ⟨(f a).res, max x.peak (f a).peak⟩
  | .err k l => ⟨.err k l, x.peak⟩
  | .panic => ⟨.panic, x.peak⟩
  | .fuel => ⟨.fuel, x.peak⟩
end DRes

mutual
def argLoopD (u : Uni) : Nat → Nat → Ctx → Node → Bool → DRes (Node × Ctx)
  | 0, d, _, _, _ => ⟨.fuel, d⟩
  | fuel + 1, d, c, node, continueOnLF =>
    (DRes.step d (advanceArg c continueOnLF)).bind fun r =>
      if r.1 then
        if r.2.val == lbrace then
          (readNodesD u fuel d r.2).bind fun rc => afterArgsD u fuel d rc.2 (node.setChildren true rc.1)
        else argLoopD u fuel d r.2 (node.setArgs (node.args ++ [r.2.val])) false
      else afterArgsD u fuel d r.2 node
def afterArgsD (u : Uni) : Nat → Nat → Ctx → Node → DRes (Node × Ctx)
  | 0, d, _, _ => ⟨.fuel, d⟩
  | fuel + 1, d, c, node =>
    if node.args.getLast? == some backslash then
      argLoopD u fuel d c (node.setArgs node.args.dropLast) true
    else DRes.step d (finishNode u c node)
def nodesLoopD (u : Uni) : Nat → Nat → Ctx → List Node → Bool → DRes (List Node × Ctx)
  | 0, d, _, _, _ => ⟨.fuel, d⟩
  | fuel + 1, d, c, res, requireNewLine =>
    (DRes.step d (advanceLine c requireNewLine)).bind fun r =>
      if r.1 then DRes.step d (.ok (res, r.2))
      else if r.2.val == rbrace then
        DRes.step d
          (if r.2.nesting - 1 < 0 then ({ r.2 with nesting := r.2.nesting - 1 } : Ctx).err .unexpectedClose
           else .ok (res, { r.2 with nesting := r.2.nesting - 1 }))
      else
        (readNodeD u fuel d r.2).bind fun rn =>
        (DRes.step d (closeEdge rn.1 rn.2)).bind fun e =>
          let node := e.1
          let c3 := e.2.1
          if node.isMacro then
            if c3.nesting != 0 || e.2.2 then DRes.step d (c3.err .macroNotTop)
            else
              (DRes.step d (expandMacros c3.macros c3.line node)).bind fun node =>
                nodesLoopD u fuel d { c3 with macros := (node.name, node.args) :: c3.macros } res true
          else if node.isSnip then
            if c3.nesting != 0 || e.2.2 then DRes.step d (c3.err .snippetNotTop)
            else if node.args.length != 0 then DRes.step d (c3.err .snippetArgs)
            else nodesLoopD u fuel d { c3 with snippets := (node.name, node.children) :: c3.snippets } res true
          else
            (DRes.step d (expandMacros c3.macros c3.line node)).bind fun node =>
              if e.2.2 then DRes.step d (.ok (res ++ [node], c3))
              else nodesLoopD u fuel d c3 (res ++ [node]) true
def readNodeD (u : Uni) : Nat → Nat → Ctx → DRes (Node × Ctx)
  | 0, d, _ => ⟨.fuel, d⟩
  | fuel + 1, d, c =>
    if c.val == lbrace then DRes.step d (.err .blockHeader c.line)
    else (DRes.step d (startNode c)).bind fun node => argLoopD u fuel d c node false
/-- `readNodes` called while `d` calls of it are active: the call itself is number `d + 1`, whether or
not it gets past its nesting check -/
def readNodesD (u : Uni) : Nat → Nat → Ctx → DRes (List Node × Ctx)
  | 0, d, _ => ⟨.fuel, d + 1⟩
  | fuel + 1, d, c =>
    if c.nesting > 255 then DRes.step (d + 1) (c.err .nestingLimit)
    else nodesLoopD u fuel (d + 1) { c with nesting := c.nesting + 1 } [] false
end

/-- the largest number of `readNodes` calls active at the same time while the block parser of
`readTree` runs on `src` (the first call included) -/
def parsePeakDepth (u : Uni) (src : Str) : Nat :=
  (readNodesD u (parseFuel (lexAll src).length) 0 { toks := lexAll src }).peak

/-! ## Imports -/

/-- the configuration directory: exact file name → (file id, content). Directories are files with
empty content (reading them fails, `NewDispenser` ignores the error). -/
abbrev Fs := Str → Option (Nat × Str)

def importName : Str := ['i', 'm', 'p', 'o', 'r', 't']
def dotConf : Str := ['.', 'c', 'o', 'n', 'f']

/-- state threaded through `expandImports`: the maps of the parse context (file imports add to
them) and `*ctx.expandedNodes`, the counter shared by the contexts of all files read by one `Read`
(added by fix 3) -/
structure Maps where
  snippets : List (Str × List Node)
  macros : List (Str × List Str)
  cnt : Nat

/-- `maxExpandedNodes` -/
def maxExpandedNodes : Nat := 100000

mutual
/-- `countNodes` of a one-element list -/
def sizeN : Node → Nat
  | .mk _ _ _ ch _ _ _ _ => 1 + sizeL ch
/-- `countNodes` -/
def sizeL : List Node → Nat
  | [] => 0
  | n :: ns => sizeN n + sizeL ns
end

mutual
/-- `checkNesting`: the line of the first block nested deeper than `readNodes` allows -/
def checkNestingNode (nesting : Nat) : Node → Option Nat
  | .mk _ _ block ch _ _ _ l =>
    if !block then none
    else if nesting > 255 then some l
    else checkNestingList (nesting + 1) ch
def checkNestingList (nesting : Nat) : List Node → Option Nat
  | [] => none
  | n :: ns =>
    match checkNestingNode nesting n with
    | some l => some l
    | none => checkNestingList nesting ns
end

def checkNesting (ns : List Node) (nesting : Nat) : Option Nat := checkNestingList nesting ns

/-- `readTree`; `expand` is `ctx.expandImports` -/
def readTreeWith (u : Uni)
    (expand : Nat → Maps → Node → Nat → Res (Node × Maps))
    (src : Str) (file : Nat) (depth : Nat) (cnt : Nat) : Res (List Node × Maps) :=
  readNodes u (parseFuel (lexAll src).length) { toks := lexAll src, file := file } >>= fun r =>
    if r.2.nesting > 0 then r.2.err .unexpectedEOF
    else
      expand r.2.line ⟨r.2.snippets, r.2.macros, cnt⟩ (.mk [] [] true r.1 false false file 1) depth >>= fun e =>
        match checkNesting e.1.children 0 with
        | some l => .err .nestingLimit l
        | none => .ok (e.1.children, e.2)

/-- `resolveImport`: a snippet, else a file of the configuration directory (`name`, then
`name.conf`); `prev` is `expandImports` for the imported file's own tree -/
def resolveImport (u : Uni) (fs : Fs) (prev : Nat → Maps → Node → Nat → Res (Node × Maps))
    (m : Maps) (child : Node) (name : Str) (depth : Nat) : Res (List Node × Maps) :=
  match lookup m.snippets name with
  | some st => .ok (st, m)
  | none =>
    match (match fs name with | some f => some f | none => fs (name ++ dotConf)) with
    | none => .err .unknownImport child.line
    | some f =>
      readTreeWith u prev f.2 f.1 (depth + 1) m.cnt >>= fun r =>
        .ok (r.1, ⟨r.2.snippets ++ m.snippets, r.2.macros ++ m.macros, r.2.cnt⟩)

mutual
/-- body of `expandImports`; `prev` is `expandImports` itself for the calls whose termination is
not structural in the node (the second pass and imported files): both happen only after the check
`expansionDepth > 255` passed, so a gas of `257 - expansionDepth` suffices (Props/C20). -/
def impNode (u : Uni) (fs : Fs) (prev : Nat → Maps → Node → Nat → Res (Node × Maps)) (errLine : Nat) :
    Maps → Node → Nat → Res (Node × Maps)
  | m, .mk name args block ch sn ma f l, depth =>
    if !block then .ok (.mk name args block ch sn ma f l, m)
    else
      impList u fs prev errLine m ch depth >>= fun r =>
        if r.2.1 then prev errLine r.2.2 (.mk name args true r.1 sn ma f l) (depth + 1)
        else .ok (.mk name args true r.1 sn ma f l, r.2.2)
/-- the loop over `node.Children`: (newChildrens, containsImports, maps) -/
def impList (u : Uni) (fs : Fs) (prev : Nat → Maps → Node → Nat → Res (Node × Maps)) (errLine : Nat) :
    Maps → List Node → Nat → Res (List Node × Bool × Maps)
  | m, [], _ => .ok ([], false, m)
  | m, child :: rest, depth =>
    impNode u fs prev errLine m child (depth + 1) >>= fun rc =>
      if rc.1.name == importName then
        if depth > 255 then .err .importLimit rc.1.line
        else if rc.1.args.length != 1 then .err .importArgs errLine
        else
          match rc.1.args with
          | [] => .panic                       -- child.Args[0]
          | name :: _ =>
            resolveImport u fs prev rc.2 rc.1 name depth >>= fun rs =>
              -- *ctx.expandedNodes += 1 + countNodes(subtree)
              if rs.2.cnt + 1 + sizeL rs.1 > maxExpandedNodes then .err .importNodes rc.1.line
              else
                impList u fs prev errLine { rs.2 with cnt := rs.2.cnt + 1 + sizeL rs.1 } rest depth >>= fun rr =>
                  .ok (rs.1 ++ rr.1, true, rr.2.2)
      else
        impList u fs prev errLine rc.2 rest depth >>= fun rr =>
          .ok (rc.1 :: rr.1, rr.2.1, rr.2.2)
end

/-- `expandImports` with gas for the non-structural calls -/
def expandImports (u : Uni) (fs : Fs) : Nat → Nat → Maps → Node → Nat → Res (Node × Maps)
  | 0 => fun _ _ _ _ => .fuel
  | gas + 1 => impNode u fs (expandImports u fs gas)

/-- gas that is always enough at depth 0 (proved in Props/C20) -/
def importGas : Nat := 257

/-- `readTree(r, location, 0, new(int))` -/
def readTree (u : Uni) (fs : Fs) (src : Str) : Res (List Node × Maps) :=
  readTreeWith u (expandImports u fs importGas) src 0 0 0

/-! ## Environment -/

mutual
def expandEnvNode (env : List (Str × Str)) : Node → Node
  | .mk name args block ch sn ma f l =>
    .mk (expandEnvStr env name) (args.map (expandEnvStr env)) block (expandEnvList env ch) sn ma f l
def expandEnvList (env : List (Str × Str)) : List Node → List Node
  | [] => []
  | n :: ns => expandEnvNode env n :: expandEnvList env ns
end

/-- `Read` -/
def read (u : Uni) (fs : Fs) (env : List (Str × Str)) (src : Str) : Res (List Node) :=
  readTree u fs src >>= fun r => .ok (expandEnvList env r.1)

/-- `Read` on bytes -/
def readBytes (u : Uni) (fs : Fs) (env : List (Str × Str)) (bs : List Nat) : Res (List Node) :=
  read u fs env (decodeUtf8 bs)

/-! ## Canonical printer -/

/-- `"` → `\"` -/
def escapeQ : Str → Str
  | [] => []
  | c :: cs => if c == '"' then '\\' :: '"' :: escapeQ cs else c :: escapeQ cs

def quoteTok (s : Str) : Str := '"' :: escapeQ s ++ ['"']

def printArgs : List Str → Str
  | [] => []
  | a :: as => ' ' :: quoteTok a ++ printArgs as

mutual
/-- one node per logical line: `"name" "arg"… {` newline children `}` newline -/
def printNode : Node → Str
  | .mk name args block ch _ _ _ _ =>
    quoteTok name ++ printArgs args ++
      (if block then [' ', '{', '\n'] ++ printList ch ++ ['}', '\n'] else ['\n'])
def printList : List Node → Str
  | [] => []
  | n :: ns => printNode n ++ printList ns
end

end MaddyVerif.Cfg
