/-
Model of the message pipeline's check runner and of the two body paths
(`internal/msgpipeline/check_runner.go`: `checkStates`, `runAndMergeResults`, `checkConnSender`,
`checkRcpt`, `checkBody`, `applyResults`; `internal/msgpipeline/msgpipeline.go`: `Start`/`start`,
`AddRcpt`, `Body`, `BodyNonAtomic`; `framework/config/module/check_action.go`: `FailAction.Apply`,
`ParseActionDirective`, `ParseRejectDirective`, `parseEnhancedCode`;
the refusal of quarantined messages in `internal/target/remote/remote.go`).  Core Lean only.

The code mirrored is the tree *with* the C06 `fix:` commits (see notes/C06.md):
`BodyNonAtomic` runs the destination-scoped body checks and `applyResults` like `Body`;
a state is shown the body once even if its check is referenced by several blocks, a repeated
request for a stage a state has already seen gets the verdict of the first run, and a reject
returned for a recipient replayed to a newly created state does not fail the current command.

What is a parameter: the verdict of every check at every stage (`Verdicts`, the result of the
real check after `FailAction.Apply`, reduced by `Res.eff` to what `runAndMergeResults` branches
on), the completion order of the goroutines of every `runAndMergeResults` call (`Ord`), the DMARC
policy outcome (`Dmarc`), routing (`route`, property C04), the targets' own behaviour (`Tgt`) and
the value `MsgMetadata.Quarantine` has when this pipeline gets the message (`Cfg.q0`): the
metadata is shared by pointer with whoever hands the message over, and a `MsgPipeline` is itself a
delivery target (`deliver_to &inner`, `reroute`), so an inner pipeline runs on a message the outer
pipeline's checks / DMARC policy may already have flagged.  The runner looks at the flag in
`applyResults` only and only ever raises it (`flag' = flag || …`), so "flagged by the outer pipeline
between the inner pipeline's `Start` and its `Body`" (what really happens: the outer `applyResults`
runs at the outer body stage, before the deliveries) and "flagged at `Start`" are the same input.
Modifiers (`modifiers { … }` of the global scope, of the source block, of every destination block)
are modelled as far as they touch the checks' bookkeeping: they are external (table look-ups,
signing, …), so *whether* `RewriteSender` / `RewriteRcpt` / `RewriteBody` of a group fails for the
sender / a given recipient / the body is a parameter (`Cfg.mf : MFaults`); *where* the calls sit
between the check groups, what a failure leaves behind (`checkedRcpts`, the state objects created so
far, and above all the key set of `rcptModifiersState`, which `Body` / `BodyNonAtomic` iterate to find
the destination blocks whose checks and modifiers take part in the body stage) is mirrored:
`getRcptModifiers` enters the block into that map right after the block's recipient checks passed
and BEFORE the block's `RewriteRcpt` runs; when that fails the state is closed and the entry stays
(so recipients of the block accepted earlier keep the block in the body stage).  Address rewriting
itself (a modifier returning other addresses) is not modelled: non-failing modifiers are identities.
A scope without a `modify` directive has the EMPTY modifier group: none of its calls can fail (no entry in
`MFaults` for it), everything else is the same - in particular `getRcptModifiers` stores the (empty) state
of such a destination block in `rcptModifiersState` like any other, so the block takes part in the
body stage (`useBlock` does not look at the modifiers).
Not modelled: header/Authentication-Results merging, `CheckStateForMsg` / `ModStateForMsg` errors,
panics inside checks (recovered and logged by the runner).  `mailFromReceived` is always true when
`checkStates` runs (`start` calls `checkConnSender` first), so it is not a field - in particular
the connection and sender stages are replayed to every newly created state whatever the sender is,
the null reverse-path (`MAIL FROM:<>`, `mailFrom == ""`) included.  The sender address itself is not
an input: it selects the source block (`srcBlockForAddr`: `source` rules cannot match the null
reverse-path, it is handled by `default_source`; routing is property C04) and is passed to the checks,
whose verdicts are parameters.  Several messages on one pipeline object: last section (`multi`).
-/
namespace MaddyVerif.CheckRunner

abbrev CheckId := Nat
abbrev Rcpt := Nat
abbrev TgtId := Nat

/-- `module.CheckResult`, the fields the runner branches on. -/
structure Res where
  reason : Bool   -- Reason != nil
  q : Bool        -- Quarantine
  r : Bool        -- Reject
deriving DecidableEq, Repr, Inhabited

def Res.empty : Res := ⟨false, false, false⟩

/-- `modconfig.FailAction` as produced by `ParseActionDirective`. -/
inductive Act | ignore | quarantine | reject
deriving DecidableEq, Repr

/-- `FailAction.Apply`. -/
def Act.apply (a : Act) (o : Res) : Res :=
  if o.reason = false then o
  else { o with q := (a == .quarantine) || o.q, r := (a == .reject) || o.r }

/-! ## the action directive (`ParseActionDirective`, `ParseRejectDirective`, `parseEnhancedCode`)

How a `FailAction` comes out of the configuration: the arguments of a `<x>_action` directive
(`fail_action reject 550 5.7.1 "text"`).  The first argument is compared with the three documented
words by `switch args[0]` and again by `args[0] == "reject"` / `== "quarantine"` - byte-wise, so any
other spelling (`Reject`, `REJECT`, `reject `) is refused at load; `reject` / `quarantine` may be
followed by a custom reply (1-3 arguments: SMTP code, enhanced code, text) parsed by
`ParseRejectDirective`; what follows `ignore` is not looked at.  `strconv.Atoi` is mirrored for
what the generated inputs contain (optional sign, decimal digits, no overflow). -/

/-- `strconv.Atoi` on an optional sign followed by decimal digits (anything else is an error). -/
def atoiL? (cs : List Char) : Option Int :=
  let neg := cs.head? == some '-'
  let ds := if cs.head? == some '-' || cs.head? == some '+' then cs.drop 1 else cs
  if ds.isEmpty || !ds.all Char.isDigit then none
  else
    let n : Nat := ds.foldl (fun a c => a * 10 + (c.toNat - '0'.toNat)) 0
    some (if neg then -(n : Int) else (n : Int))

def atoi? (s : String) : Option Int := atoiL? s.toList

/-- `strings.Split(s, ".")` on the characters. -/
def splitDots : List Char → List (List Char)
  | [] => [[]]
  | c :: r =>
    match splitDots r with
    | [] => [[c]]
    | g :: gs => if c == '.' then [] :: g :: gs else (c :: g) :: gs

/-- `parseEnhancedCode`: exactly three `.`-separated integers. -/
def enhCode? (s : String) : Option (Int × Int × Int) :=
  match splitDots s.toList with
  | [a, b, c] =>
    match atoiL? a, atoiL? b, atoiL? c with
    | some a, some b, some c => some (a, b, c)
    | _, _, _ => none
  | _ => none

/-- `FailAction.ReasonOverride` (an `exterrors.SMTPError`). -/
structure Override where
  code : Int
  enh : Int × Int × Int
  msg : String
deriving DecidableEq, Repr

def defaultMsg : String := "Message rejected due to a local policy"

/-- `(code/100) != 4 && (code/100) != 5` fails (Go's division truncates: exactly 400-599 pass). -/
def codeOk (code : Int) : Bool := decide (400 ≤ code) && decide (code ≤ 599)

/-- `ParseRejectDirective`: `none` = an error (the configuration is refused). -/
def parseReject (args : List String) : Option Override :=
  match args with
  | [] => some ⟨554, (5, 7, 0), defaultMsg⟩
  | [c] =>
    match atoi? c with
    | some code => if codeOk code then some ⟨code, (code / 100, 7, 0), defaultMsg⟩ else none
    | none => none
  | c :: e :: rest =>
    let msg? : Option String := match rest with
      | [] => some defaultMsg
      | [m] => if m == "" then none else some m
      | _ => none
    match msg?, enhCode? e, atoi? c with
    | some m, some en, some code =>
      if (en.1 == 4 || en.1 == 5) && codeOk code then some ⟨code, en, m⟩ else none
    | _, _, _ => none

/-- `modconfig.FailAction`. -/
structure FailAction where
  quarantine : Bool
  reject : Bool
  ovr : Option Override
deriving DecidableEq, Repr

/-- `ParseActionDirective`; `none` = an error: the configuration is refused at load. -/
def parseAction (args : List String) : Option FailAction :=
  match args with
  | [] => none
  | w :: rest =>
    if w = "reject" ∨ w = "quarantine" then
      if rest.isEmpty then some ⟨w == "quarantine", w == "reject", none⟩
      else (parseReject rest).map (fun o => ⟨w == "quarantine", w == "reject", some o⟩)
    else if w = "ignore" then some ⟨false, false, none⟩
    else none

/-- The flags as the runner's action (`Apply` only ORs them in; the parser never sets both). -/
def FailAction.act (a : FailAction) : Act :=
  if a.reject then .reject else if a.quarantine then .quarantine else .ignore

/-- `FailAction.Apply` on the parsed value (the override only wraps the reason). -/
def FailAction.apply (a : FailAction) (o : Res) : Res :=
  if o.reason = false then o
  else { o with q := a.quarantine || o.q, r := a.reject || o.r }

/-- What the documentation says a directive word means. -/
def documented (w : String) : Option Act :=
  if w = "reject" then some .reject
  else if w = "quarantine" then some .quarantine
  else if w = "ignore" then some .ignore
  else none

/-- What one finished check goroutine contributes to the merge. -/
inductive Eff | none | quar | rej
deriving DecidableEq, Repr, Inhabited

/-- The if-chain at the end of each goroutine of `runAndMergeResults`: `Quarantine` is looked at
first, then `Reject`; the once-set error is the result's `Reason`, so a flag without a reason has
no effect; a reason without a flag ('action ignore') is only logged. -/
def Res.eff (x : Res) : Eff :=
  if x.q then (if x.reason then .quar else .none)
  else if x.r then (if x.reason then .rej else .none)
  else .none

inductive Stage | conn | sender | rcpt (r : Rcpt) | body
deriving DecidableEq, Repr

/-- One `Check*` call on a state object: `g` numbers the state objects created for check `c`
during this message (a new one is only created after the previous one was discarded). -/
structure Call where
  c : CheckId
  g : Nat
  s : Stage
deriving DecidableEq, Repr

abbrev Verdicts := CheckId → Stage → Eff

/-- Completion order of the goroutines of the `n`-th `runAndMergeResults` call of the message. -/
abbrev Ord := Nat → List (CheckId × Eff) → List (CheckId × Eff)

/-- `checkRunner`. `done` is the log of all `Check*` calls made so far; restricted to the live
state objects it is also `checkedRcptsPerCheck` and the seen-the-body set. -/
structure CR where
  states : List CheckId        -- keys of `cr.states`
  gens : List CheckId          -- one entry per discarded state object
  checkedRcpts : List Rcpt
  done : List Call
  mergedQ : Bool               -- `mergedRes.Quarantine`
  tick : Nat                   -- number of `runAndMergeResults` calls so far
deriving Repr

def CR.init : CR := ⟨[], [], [], [], false, 0⟩

def CR.gen (cr : CR) (c : CheckId) : Nat := cr.gens.count c

/-- How a runner closure treats a stage the state has already seen. -/
inductive Dedupe
  | never    -- CheckConnection / CheckSender closures: no bookkeeping
  | skip     -- replay loop of `checkStates`: empty result; a reject for a replayed recipient is not applied
  | cached   -- `checkRcpt` / `checkBody`: the verdict of the first run, nothing else
deriving DecidableEq, Repr

/-- The runner closure applied to one state. -/
def call (v : Verdicts) (d : Dedupe) (s : Stage) (cr : CR) (c : CheckId) : CR × Eff :=
  if d ≠ .never ∧ (⟨c, cr.gen c, s⟩ : Call) ∈ cr.done then
    (cr, if d = .cached then v c s else .none)
  else
    ({ cr with done := cr.done ++ [⟨c, cr.gen c, s⟩] },
     if d = .skip ∧ v c s = .rej then .none else v c s)

/-- All goroutines of one `runAndMergeResults` (the bookkeeping is under a lock, and every state
occurs in its own goroutine, so running them in list order loses nothing). -/
def runAll (v : Verdicts) (d : Dedupe) (s : Stage) : CR → List CheckId → CR × List (CheckId × Eff)
  | cr, [] => (cr, [])
  | cr, c :: rest =>
    let p := call v d s cr c
    let q := runAll v d s p.1 rest
    (q.1, (c, p.2) :: q.2)

/-- `setQuarantineErr` / `setRejectErr`: two `sync.Once`; the first finisher wins. -/
structure Once where
  qErr : Option CheckId
  rErr : Option CheckId
deriving Repr

def onceStep (a : Once) (x : CheckId × Eff) : Once :=
  match x.2 with
  | .quar => { a with qErr := a.qErr <|> some x.1 }
  | .rej => { a with rErr := a.rErr <|> some x.1 }
  | .none => a

def finish (completion : List (CheckId × Eff)) : Once := completion.foldl onceStep ⟨none, none⟩

/-- `runAndMergeResults`; the Boolean is `err != nil`. -/
def runAndMerge (o : Ord) (v : Verdicts) (d : Dedupe) (s : Stage) (cr : CR) (group : List CheckId) :
    CR × Bool :=
  let p := runAll v d s cr group
  let m := finish (o p.1.tick p.2)
  let cr1 := { p.1 with tick := p.1.tick + 1 }
  if m.rErr.isSome then (cr1, true)
  else ({ cr1 with mergedQ := cr1.mergedQ || m.qErr.isSome }, false)

/-- The recipient replay loop of `checkStates` (over *all* states of the group). -/
def replayRcpts (o : Ord) (v : Verdicts) (checks : List CheckId) : CR → List Rcpt → CR × Bool
  | cr, [] => (cr, false)
  | cr, r :: rest =>
    let p := runAndMerge o v .skip (.rcpt r) cr checks
    if p.2 then p else replayRcpts o v checks p.1 rest

/-- `closeStates()` + `return nil, err`: the new state objects are dropped. -/
def discard (cr : CR) (new : List CheckId) : CR := { cr with gens := cr.gens ++ new }

/-- `checkStates`: lazy creation with replay of the earlier stages. -/
def checkStates (o : Ord) (v : Verdicts) (cr : CR) (checks : List CheckId) : CR × Bool :=
  let new := checks.filter (fun c => !cr.states.contains c)
  if new.isEmpty then (cr, false) else
  let p1 := runAndMerge o v .never .conn cr new
  if p1.2 then (discard p1.1 new, true) else
  let p2 := runAndMerge o v .never .sender p1.1 new
  if p2.2 then (discard p2.1 new, true) else
  let p3 := replayRcpts o v checks p2.1 p2.1.checkedRcpts
  if p3.2 then (discard p3.1 new, true) else
  ({ p3.1 with states := p3.1.states ++ new }, false)

/-- `checkRcpt` (the recipient is remembered only when `checkStates` succeeded). -/
def checkRcpt (o : Ord) (v : Verdicts) (cr : CR) (checks : List CheckId) (r : Rcpt) : CR × Bool :=
  let p := checkStates o v cr checks
  if p.2 then p else
  let q := runAndMerge o v .cached (.rcpt r) p.1 checks
  ({ q.1 with checkedRcpts := q.1.checkedRcpts ++ [r] }, q.2)

/-- `checkBody`. -/
def checkBody (o : Ord) (v : Verdicts) (cr : CR) (checks : List CheckId) : CR × Bool :=
  let p := checkStates o v cr checks
  if p.2 then p else runAndMerge o v .cached .body p.1 checks

/-! ## the pipeline delivery -/

structure Block where
  checks : List CheckId
  targets : List TgtId
deriving Repr

/-- A delivery target: does it implement `PartialDelivery`, and does it refuse quarantined
messages at body time (as `target.remote` does). -/
structure Tgt where
  partialD : Bool
  refuseQ : Bool
deriving Repr

/-- Outcome of `dmarcVerify.Apply`, `off` = `doDMARC` false. -/
inductive Dmarc | off | pass | quar | rej
deriving DecidableEq, Repr

/-- Which calls on the modifier groups fail (temporary or permanent error - the pipeline hands
either back unchanged).  `senderG` / `senderS`: `RewriteSender` of the global / source modifiers in
`start` (the error of a destination block's `RewriteSender` is ignored by `getRcptModifiers`);
`rcptG` / `rcptS` / `rcptB`: `RewriteRcpt` of the global / source / the recipient's destination
block's modifiers for that recipient; `bodyG` / `bodyS` / `bodyB b`: `RewriteBody` of the global /
source / destination block `b`'s modifiers. -/
structure MFaults where
  senderG : Bool
  senderS : Bool
  rcptG : Rcpt → Bool
  rcptS : Rcpt → Bool
  rcptB : Rcpt → Bool
  bodyG : Bool
  bodyS : Bool
  bodyB : Nat → Bool

/-- Round 10: destination blocks with a check that cannot create its state object: its
`CheckStateForMsg` fails for every message (backend down), and every check listed before it in the
block is a global or source check, so it already has its state when a RCPT command gets to the block.
`checkStates` then returns the error out of its creation loop: no `Check*` call has been made, no state
object was created before it (so `closeStates()` drops none), `checkRcpt` returns before it records
the recipient a third time, `AddRcpt` returns before `getRcptModifiers`.  That is the place and the
effect the model gives a failing `RewriteRcpt` of the source group (`rcptS`, see `addRcpt`): the
command is refused right before the block's checks, everything else is as it was. -/
def MFaults.withDeadBlocks (mf : MFaults) (route : Rcpt → Nat) (dead : Nat → Bool) : MFaults :=
  { mf with rcptS := fun r => mf.rcptS r || dead (route r) }

/-- No modifier ever fails. -/
def MFaults.none : MFaults := ⟨false, false, fun _ => false, fun _ => false, fun _ => false, false, false, fun _ => false⟩

structure Cfg where
  v : Verdicts
  global : List CheckId
  source : List CheckId          -- checks of the source block the sender selected
  block : Nat → Block            -- destination blocks
  route : Rcpt → Nat             -- `rcptBlockForAddr`
  tgt : TgtId → Tgt
  dmarc : Dmarc
  q0 : Bool                      -- `msgMeta.Quarantine` as handed over (outer pipeline, endpoint)
  mf : MFaults                   -- failures of the modifier groups

/-- `msgpipelineDelivery`. -/
structure Dlv where
  cr : CR
  used : List Nat                          -- keys of `rcptModifiersState`
  deliveries : List (TgtId × List Rcpt)    -- `dd.deliveries` with their recipients
  metaQ : Bool                             -- `msgMeta.Quarantine`
deriving Repr

/-- `Start` / `start`: connection and sender checks of the global block, `RewriteSender` of the
global modifiers, connection and sender checks of the source block, `RewriteSender` of the source
modifiers; any error ends the transaction (`dd.close()`). -/
def start (o : Ord) (cfg : Cfg) : Dlv × Bool :=
  let p := checkStates o cfg.v CR.init cfg.global
  if p.2 then (⟨p.1, [], [], cfg.q0⟩, true) else
  if cfg.mf.senderG then (⟨p.1, [], [], cfg.q0⟩, true) else
  let q := checkStates o cfg.v p.1 cfg.source
  if q.2 then (⟨q.1, [], [], cfg.q0⟩, true) else
  (⟨q.1, [], [], cfg.q0⟩, cfg.mf.senderS)

def addToDeliveries (ds : List (TgtId × List Rcpt)) (t : TgtId) (r : Rcpt) : List (TgtId × List Rcpt) :=
  if ds.any (fun d => d.1 == t) then ds.map (fun d => if d.1 == t then (d.1, d.2 ++ [r]) else d)
  else ds ++ [(t, [r])]

/-- `getRcptModifiers`: the block gets its entry in `rcptModifiersState` (nothing ever removes one). -/
def useBlock (used : List Nat) (b : Nat) : List Nat := if b ∈ used then used else used ++ [b]

/-- `AddRcpt` (recording targets accept every recipient): recipient checks of the global and of the
source block, `RewriteRcpt` of the global and of the source modifiers, recipient checks of the
destination block, `getRcptModifiers` (the block takes part in the body stage from here on),
`RewriteRcpt` of the block's modifiers, then the block's targets.  The first error is returned;
nothing done before it is undone. -/
def addRcpt (o : Ord) (cfg : Cfg) (d : Dlv) (r : Rcpt) : Dlv × Bool :=
  let p1 := checkRcpt o cfg.v d.cr cfg.global r
  if p1.2 then ({ d with cr := p1.1 }, true) else
  let p2 := checkRcpt o cfg.v p1.1 cfg.source r
  if p2.2 then ({ d with cr := p2.1 }, true) else
  if cfg.mf.rcptG r || cfg.mf.rcptS r then ({ d with cr := p2.1 }, true) else
  let p3 := checkRcpt o cfg.v p2.1 (cfg.block (cfg.route r)).checks r
  if p3.2 then ({ d with cr := p3.1 }, true) else
  if cfg.mf.rcptB r then ({ d with cr := p3.1, used := useBlock d.used (cfg.route r) }, true) else
  ({ d with cr := p3.1,
            used := useBlock d.used (cfg.route r),
            deliveries := (cfg.block (cfg.route r)).targets.foldl (fun ds t => addToDeliveries ds t r) d.deliveries },
   false)

/-- The RCPT commands of a transaction; a refused recipient does not end it. -/
def addAll (o : Ord) (cfg : Cfg) : Dlv → List Rcpt → Dlv × List (Rcpt × Bool)
  | d, [] => (d, [])
  | d, r :: rest =>
    let p := addRcpt o cfg d r
    let q := addAll o cfg p.1 rest
    (q.1, (r, p.2) :: q.2)

/-- `for blk := range dd.rcptModifiersState { checkBody(blk.checks) }` (Go iterates the map in an
unspecified order; the model takes insertion order). -/
def checkBodyBlocks (o : Ord) (cfg : Cfg) : CR → List Nat → CR × Bool
  | cr, [] => (cr, false)
  | cr, b :: rest =>
    let p := checkBody o cfg.v cr (cfg.block b).checks
    if p.2 then p else checkBodyBlocks o cfg p.1 rest

/-- `applyResults`: quarantine flag, DMARC action; the Boolean is `err != nil`.  The flag is only
ever *raised* (`if mergedRes.Quarantine { msgMeta.Quarantine = true }`, `case PolicyQuarantine:
msgMeta.Quarantine = true`): whatever it was before — raised by an outer pipeline — it stays. -/
def applyResults (cfg : Cfg) (d : Dlv) : Dlv × Bool :=
  let d1 := { d with metaQ := d.metaQ || d.cr.mergedQ }
  match cfg.dmarc with
  | .rej => (d1, true)
  | .quar => ({ d1 with metaQ := true }, false)
  | _ => (d1, false)

inductive Why | check | dmarc | modifier
deriving DecidableEq, Repr

/-- The `RewriteBody` calls after `applyResults`: global, source, then every block that has an
entry in `rcptModifiersState` (map order; any failure refuses the message). -/
def modBodyFails (cfg : Cfg) (d : Dlv) : Bool :=
  cfg.mf.bodyG || cfg.mf.bodyS || d.used.any cfg.mf.bodyB

/-- Result of the DATA stage: refused before any target saw the body, or the per-delivery
answers of the targets (`true` = body accepted). -/
structure BodyOut where
  refused : Option Why
  results : List (TgtId × List Rcpt × Bool)
deriving Repr

def targetAccepts (cfg : Cfg) (metaQ : Bool) (t : TgtId) : Bool := !((cfg.tgt t).refuseQ && metaQ)

/-- `target.remote` looks at `msgMeta.Quarantine` in `remoteDelivery.AddRcpt` and in
`remoteDelivery.BodyNonAtomic` (`Body` calls the latter); `true` = it goes on. -/
def remoteAddRcpt (metaQ : Bool) : Bool := !metaQ
def remoteBody (metaQ : Bool) : Bool := !metaQ

/-- One recipient through `target.remote`, the flag as it is at RCPT time and at DATA time:
(recipient accepted, body accepted — `none` if DATA is not reached, message relayed). -/
def remoteTx (qRcpt qBody : Bool) : Bool × Option Bool × Bool :=
  if !remoteAddRcpt qRcpt then (false, none, false)
  else (true, some (remoteBody qBody), remoteBody qBody)

def deliverAll (cfg : Cfg) (d : Dlv) : List (TgtId × List Rcpt × Bool) :=
  d.deliveries.map (fun x => (x.1, x.2, targetAccepts cfg d.metaQ x.1))

/-- `msgpipelineDelivery.Body` (atomic, SMTP). -/
def bodySMTP (o : Ord) (cfg : Cfg) (d : Dlv) : Dlv × BodyOut :=
  let p1 := checkBody o cfg.v d.cr cfg.global
  if p1.2 then ({ d with cr := p1.1 }, ⟨some .check, []⟩) else
  let p2 := checkBody o cfg.v p1.1 cfg.source
  if p2.2 then ({ d with cr := p2.1 }, ⟨some .check, []⟩) else
  let p3 := checkBodyBlocks o cfg p2.1 d.used
  if p3.2 then ({ d with cr := p3.1 }, ⟨some .check, []⟩) else
  let a := applyResults cfg { d with cr := p3.1 }
  if a.2 then (a.1, ⟨some .dmarc, []⟩) else
  if modBodyFails cfg a.1 then (a.1, ⟨some .modifier, []⟩) else
  (a.1, ⟨none, deliverAll cfg a.1⟩)

/-- `msgpipelineDelivery.BodyNonAtomic` (per-recipient statuses, LMTP): every early return is
`setStatusAll(err)`. -/
def bodyLMTP (o : Ord) (cfg : Cfg) (d : Dlv) : Dlv × BodyOut :=
  let p1 := checkBody o cfg.v d.cr cfg.global
  if p1.2 then ({ d with cr := p1.1 }, ⟨some .check, []⟩) else
  let p2 := checkBody o cfg.v p1.1 cfg.source
  if p2.2 then ({ d with cr := p2.1 }, ⟨some .check, []⟩) else
  let p3 := checkBodyBlocks o cfg p2.1 d.used
  if p3.2 then ({ d with cr := p3.1 }, ⟨some .check, []⟩) else
  let a := applyResults cfg { d with cr := p3.1 }
  if a.2 then (a.1, ⟨some .dmarc, []⟩) else
  if modBodyFails cfg a.1 then (a.1, ⟨some .modifier, []⟩) else
  (a.1, ⟨none, deliverAll cfg a.1⟩)

inductive Mode | smtp | lmtp
deriving DecidableEq, Repr

def bodyOf (m : Mode) : Ord → Cfg → Dlv → Dlv × BodyOut :=
  match m with
  | .smtp => bodySMTP
  | .lmtp => bodyLMTP

/-- What one transaction shows. `body = none`: no DATA (MAIL refused or no recipient accepted). -/
structure Obs where
  startRefused : Bool
  rcpts : List (Rcpt × Bool)     -- RCPT commands in order, `true` = refused
  body : Option BodyOut
  final : Dlv
deriving Repr

/-- One transaction: MAIL, the RCPTs, DATA if any recipient was accepted. -/
def run (o : Ord) (cfg : Cfg) (m : Mode) (rcpts : List Rcpt) : Obs :=
  let s := start o cfg
  if s.2 then ⟨true, [], none, s.1⟩ else
  let a := addAll o cfg s.1 rcpts
  if a.2.all (fun x => x.2) then ⟨false, a.2, none, a.1⟩ else
  let b := bodyOf m o cfg a.1
  ⟨false, a.2, some b.2, b.1⟩

/-- Recipients for which the message was handed over: SMTP is all-or-nothing, LMTP is per
recipient (a recipient is served when every delivery it is part of accepted the body). -/
def delivered (m : Mode) (ob : Obs) : List Rcpt :=
  match ob.body with
  | none => []
  | some b =>
    if b.refused.isSome then [] else
    let acc := (ob.rcpts.filter (fun x => !x.2)).map (fun x => x.1)
    match m with
    | .smtp => if b.results.all (fun x => x.2.2) then acc else []
    | .lmtp => acc.filter (fun r => b.results.all (fun x => !x.2.1.contains r || x.2.2))

/-- Deliveries whose target accepted the body, with the quarantine flag it saw. -/
def handedOver (m : Mode) (ob : Obs) : List (TgtId × List Rcpt × Bool) :=
  match ob.body with
  | none => []
  | some b =>
    match m with
    | .smtp => if b.results.all (fun x => x.2.2) then b.results.map (fun x => (x.1, x.2.1, ob.final.metaQ)) else []
    | .lmtp => (b.results.filter (fun x => x.2.2)).map (fun x => (x.1, x.2.1, ob.final.metaQ))

/-! ## several transactions on one pipeline object

A `MsgPipeline` serves many messages at once: the endpoints call `Start` for every message and
drive the returned `msgpipelineDelivery` command by command, the commands of different messages
interleaved in any order.  Everything a transaction reads and writes hangs off its own
`msgpipelineDelivery` / `checkRunner` (created by `Start`); the pipeline object itself
(`msgpipelineCfg`: the check lists of the global scope, of the source and of the destination
blocks) is only read.  The model of the interleaved execution therefore keeps one `TxSt` per
message and lets a command of message `i` act on the `i`-th component only; that this is what
the code does (no state of one message reachable from another one through the shared
configuration - e.g. through the spare capacity of a check list built by repeated `append`) is
what the differential runs with overlapping transactions on a parser-built pipeline check.
A transaction's input (`TxIn`) has its own `Cfg`: the sender selects the source block (`source`,
`block`, `route`), the verdicts depend on the message. -/

/-- The input of one transaction. -/
structure TxIn where
  o : Ord
  cfg : Cfg
  m : Mode
  rcpts : List Rcpt

/-- One transaction in progress: before MAIL, between MAIL and DATA (the RCPT commands answered
so far, those still to come), finished. -/
inductive TxSt
  | fresh
  | rcpts (d : Dlv) (done : List (Rcpt × Bool)) (todo : List Rcpt)
  | closed (ob : Obs)

/-- The next command of a transaction: MAIL, the next RCPT, or DATA (no DATA when every
recipient was refused). -/
def TxIn.step (t : TxIn) : TxSt → TxSt
  | .fresh =>
    let s := start t.o t.cfg
    if s.2 then .closed ⟨true, [], none, s.1⟩ else .rcpts s.1 [] t.rcpts
  | .rcpts d done (r :: rest) =>
    let p := addRcpt t.o t.cfg d r
    .rcpts p.1 (done ++ [(r, p.2)]) rest
  | .rcpts d done [] =>
    if done.all (fun x => x.2) then .closed ⟨false, done, none, d⟩
    else
      let b := bodyOf t.m t.o t.cfg d
      .closed ⟨false, done, some b.2, b.1⟩
  | .closed ob => .closed ob

def TxIn.stepN (t : TxIn) : Nat → TxSt → TxSt
  | 0, s => s
  | n + 1, s => t.stepN n (t.step s)

/-- One entry `i` of a schedule: the next command of message `i`. -/
def multiStep (txs : List TxIn) (sts : List TxSt) (i : Nat) : List TxSt :=
  match txs[i]?, sts[i]? with
  | some t, some s => sts.set i (t.step s)
  | _, _ => sts

/-- The pipeline with the messages `txs` in flight, their commands arriving in the order `sched`. -/
def multi (txs : List TxIn) (sched : List Nat) : List TxSt :=
  sched.foldl (multiStep txs) (txs.map (fun _ => TxSt.fresh))

/-! ## DMARC policy discovery (`internal/dmarc/evaluate.go` `FetchRecord`, `dmarcRecords`;
`internal/dmarc/verifier.go` `Verifier.Apply`) as far as it decides the `Dmarc` parameter of the
pipeline model: which of the two `_dmarc` names are asked, what is made of the answers, which
policy is applied.  The resolver's answers and the outcome of the alignment evaluation are the
inputs (what alignment is, is property C07's business); `pct` is absent. -/

inductive Pol | nothing | quarantine | reject
deriving DecidableEq, Repr

/-- One TXT record at a `_dmarc` name: something else (a wildcard record, an SPF record - it does
not start with `v=DMARC1`), or a DMARC record with its `p` and optional `sp` tag. -/
inductive Txt
  | stray
  | policy (p : Pol) (sp : Option Pol)
deriving DecidableEq, Repr

/-- What `LookupTXT` returns for a name: `IsNotFound`, a temporary error, or the records (possibly
none). -/
inductive Ans
  | nx
  | temp
  | recs (l : List Txt)
deriving DecidableEq, Repr

/-- `dmarcRecords`: the records that are DMARC policies. -/
def dmarcRecords : List Txt → List (Pol × Option Pol)
  | [] => []
  | .stray :: r => dmarcRecords r
  | .policy p sp :: r => (p, sp) :: dmarcRecords r

/-- One look-up as `FetchRecord` treats it: `none` = the error is handed back (not `IsNotFound`),
otherwise the filtered records (`IsNotFound` = no records). -/
def lookupPolicies : Ans → Option (List (Pol × Option Pol))
  | .nx => some []
  | .temp => none
  | .recs l => some (dmarcRecords l)

structure World where
  /-- the RFC5322.From domain is its own organizational domain (both look-ups name the same record set) -/
  fromIsOrg : Bool
  atFrom : Ans
  atOrg : Ans
  /-- the alignment evaluation says pass -/
  aligned : Bool

/-- The answer at the name the FIRST look-up asks. -/
def World.first (w : World) : Ans := if w.fromIsOrg then w.atOrg else w.atFrom

/-- `FetchRecord`: `none` = look-up error; `some none` = no record; `some (some (p, sp, viaOrg))`:
the one record and whether it was found at another name than the From domain.  The fall-back to
the organizational domain is decided on the FILTERED list of the first answer. -/
def fetchRecord (w : World) : Option (Option (Pol × Option Pol × Bool)) :=
  match lookupPolicies w.first with
  | none => none
  | some (x :: rest) =>
    -- records at the From domain: no second look-up
    match rest with
    | [] => some (some (x.1, x.2, false))
    | _ => some none
  | some [] =>
    match lookupPolicies w.atOrg with
    | none => none
    | some [x] => some (some (x.1, x.2, !w.fromIsOrg))
    | some _ => some none

def Pol.toDmarc : Pol → Dmarc
  | .nothing => .pass | .quarantine => .quar | .reject => .rej

/-- `Verifier.Apply` on the fetched record (temporary look-up error: `PolicyReject`; no record or an
aligned message: `PolicyNone`; else `p`, or `sp` when the record comes from another domain and has one). -/
def discover (w : World) : Dmarc :=
  match fetchRecord w with
  | none => .rej
  | some none => .pass
  | some (some (p, sp, viaOrg)) =>
    if w.aligned then .pass else
    match viaOrg, sp with
    | true, some s => s.toDmarc
    | _, _ => p.toDmarc

end MaddyVerif.CheckRunner
