import MaddyVerif.Model.Errors
/-!
Model of `internal/dsn/dsn.go` (and of `framework/address`: `Split`, `ToASCII`, `ToUnicode`,
`SelectIDNA`): `GenerateDSN`, `ReportingMTAInfo.WriteTo`, `RecipientInfo.WriteTo`,
`writeHumanReadablePart`, `writeMachineReadablePart`, `writeHeader`, `fieldText` (the tree after the
fix: commits "text/rfc822-headers", "ASCII Diagnostic-Code", "control characters in Diagnostic-Code"
and "a client HELO name that cannot be converted … made the queue drop the failure report":
`Received-From-MTA` is left out when the name cannot be converted, `rcvdField`).

The report is kept abstract: the top-level header fields that matter, the media types of the three
parts, the per-message and per-recipient field groups of the delivery-status part as structured
values, the per-recipient lines of the human-readable part, and the original header (passed through).
The byte level (boundaries, folding, field order inside a group, dates, the random message id) is
not modelled; it is checked on every generated report by an independent MIME parse in the harness.

External behaviour is a parameter: `Idna` stands for `address.SelectIDNA` and `dns.SelectIDNA`
(x/net/idna, x/text NFC); `none` is a conversion error.  `Idna.ofConv` is the instance the driver
uses: `address.SelectIDNA` itself is mirrored (`split`, `toASCII`, `toUnicode`, `selectIDNA`), only
the two library calls on the DOMAIN (`DomConv`) stay parameters.

Strings are lists of Unicode code points.  Core Lean only.
-/
namespace MaddyVerif.Dsn
open MaddyVerif.Errors

abbrev Str := List Nat

/-- The original message header; passed through untouched, so an opaque identifier. -/
abbrev Hdr := Nat

def lit (s : String) : Str := s.toList.map Char.toNat

structure Idna where
  addr : Bool → Str → Option Str      -- address.SelectIDNA(ulabel, addr)
  dom  : Bool → Str → Option Str      -- dns.SelectIDNA(ulabel, domain)

/-! ### `address.Split`, `address.ToASCII`, `address.ToUnicode`, `address.SelectIDNA`

(`framework/address/split.go`, `rfc6531.go`.)  The local part is opaque: it is cut off at the LAST
at-sign and put back untouched; only the domain goes through the library (`DomConv`).  On an error
the Go functions also return a string, which `dsn.go` ignores — `none` here. -/

/-- The library calls below `address.SelectIDNA`; `none` = error. -/
structure DomConv where
  toASCII   : Str → Option Str      -- idna.ToASCII(domain)
  toUnicode : Str → Option Str      -- norm.NFC.String(idna.ToUnicode(domain))

/-- Cut at the last occurrence of `c` (`strings.LastIndexByte`; `c` is ASCII, so bytes and code
points agree). -/
def splitLast (c : Nat) : Str → Option (Str × Str)
  | [] => none
  | x :: rest =>
    match splitLast c rest with
    | some (a, b) => some (x :: a, b)
    | none => if x == c then some ([], rest) else none

/-- One step of `strings.EqualFold` against a lower-case ASCII letter `t`: equal, the upper-case
letter, or — for `s` — U+017F LATIN SMALL LETTER LONG S (the only non-ASCII member of a simple-fold
orbit of the letters of "postmaster"). -/
def foldsTo (c t : Nat) : Bool :=
  c == t || (decide (65 ≤ c) && decide (c ≤ 90) && c + 32 == t) || (t == 115 && c == 383)

def postmaster : Str := [112, 111, 115, 116, 109, 97, 115, 116, 101, 114]

/-- `strings.EqualFold(addr, "postmaster")`. -/
def eqFoldPostmaster (s : Str) : Bool :=
  s.length == postmaster.length && (s.zip postmaster).all (fun p => foldsTo p.1 p.2)

/-- `address.Split`: `(mailbox, domain)`; the domain-less postmaster has domain `""`. -/
def splitAddr (addr : Str) : Option (Str × Str) :=
  if eqFoldPostmaster addr then some (addr, []) else
  match splitLast 64 addr with
  | none => none
  | some (mb, dom) => if mb.isEmpty || dom.isEmpty then none else some (mb, dom)

/-- `address.ToASCII`. -/
def toASCII (dc : DomConv) (addr : Str) : Option Str :=
  match splitAddr addr with
  | none => none
  | some (mb, dom) =>
    if mb.any (fun c => decide (c ≥ 128)) then none else
    if dom.isEmpty then some mb else
    match dc.toASCII dom with
    | none => none
    | some d => some (mb ++ 64 :: d)

/-- `address.ToUnicode`. -/
def toUnicode (dc : DomConv) (addr : Str) : Option Str :=
  match splitAddr addr with
  | none => none
  | some (mb, dom) =>
    if dom.isEmpty then some mb else
    match dc.toUnicode dom with
    | none => none
    | some d => some (mb ++ 64 :: d)

/-- `address.SelectIDNA`. -/
def selectIDNA (dc : DomConv) (ulabel : Bool) (addr : Str) : Option Str :=
  if ulabel then toUnicode dc addr else toASCII dc addr

/-- The conversions `dsn.go` uses, with `address.SelectIDNA` as the code above. -/
def Idna.ofConv (dc : DomConv) (dom : Bool → Str → Option Str) : Idna :=
  { addr := selectIDNA dc, dom := dom }

/-! ### inputs (`dsn.Envelope`, `dsn.ReportingMTAInfo`, `dsn.RecipientInfo`) -/

structure Envelope where
  msgId : Str
  from_ : Str
  to    : Str
deriving Repr, DecidableEq

structure MtaInfo where
  reportingMTA    : Str
  receivedFromMTA : Str
  xSender         : Str
  xMsgId          : Str
  hasArrival      : Bool        -- !ArrivalDate.IsZero()
deriving Repr, DecidableEq

/-- `RecipientInfo.DiagnosticCode` (an `error` interface value). -/
inductive DiagIn
  | smtp (code : Nat) (ench : Ench) (msg : Str)   -- *smtp.SMTPError
  | other (text : Str)                            -- any other error, `text` = Error()
  | nil                                           -- nil interface
deriving Repr, DecidableEq

structure RcptInfo where
  finalRcpt : Str
  remoteMTA : Str
  action    : Str               -- "" = not given
  status    : Ench
  diag      : DiagIn
deriving Repr, DecidableEq

/-- `dsn.ActionFailed`, the string "failed". -/
def actionFailed : Str := [102, 97, 105, 108, 101, 100]

/-! ### outputs -/

inductive AddrType | rfc822 | utf8
deriving Repr, DecidableEq

def addrType (utf8 : Bool) : AddrType := if utf8 then .utf8 else .rfc822

/-- The `Diagnostic-Code` field. -/
inductive DiagOut
  | smtp (code : Nat) (ench : Ench) (text : Str)  -- "smtp; <code> <a>.<b>.<c> <text>"
  | xMaddy (text : Str)                           -- "X-Maddy; <text>"
  | omitted
deriving Repr, DecidableEq

/-- One per-recipient group of the delivery-status part. `Final-Recipient`, `Action`, `Status`
(the fields RFC 3464 requires) are always there. -/
structure RcptGroup where
  addrType  : AddrType
  addr      : Str
  action    : Str
  status    : Ench
  diag      : DiagOut
  remoteMTA : Option Str
deriving Repr, DecidableEq

/-- The per-message group. `Reporting-MTA` (required by RFC 3464) is always there. -/
structure MtaGroup where
  reportingMTA : Str
  receivedFrom : Option Str
  xSender      : Option (AddrType × Str)
  xMsgId       : Option Str
  dates        : Bool           -- Arrival-Date and Last-Attempt-Date present
deriving Repr, DecidableEq

/-- What `%v` prints for the error in the human-readable part. -/
inductive HumanErr
  | smtp (code : Nat) (msg : Str)      -- "SMTP error %03d: msg" (go-smtp SMTPError.Error)
  | other (text : Str)
  | nil                                -- "<nil>"
deriving Repr, DecidableEq

structure Report where
  utf8      : Bool
  msgId     : Str                      -- Message-Id
  hdrTo     : Str                      -- To
  hdrFrom   : Str                      -- From
  partTypes : List String              -- media types of the body parts, in order
  human     : List (Str × HumanErr)    -- "Delivery to <addr> failed with error: <err>" lines
  mta       : MtaGroup
  rcpts     : List RcptGroup
  origHdr   : Hdr                      -- content of the third part
deriving Repr, DecidableEq

/-- Why generation failed (the first error met, in the order the Go code meets them);
`panic` = nil `DiagnosticCode` dereferenced. -/
inductive GenErr
  | mtaMissing | mtaConv | senderConv
  | rcptMissing | rcptConv | actionMissing | statusMissing | remoteConv
  | panic
deriving Repr, DecidableEq

/-- A code point that cannot stand in a field value: the C0 controls (CR and LF among them)
except the horizontal tab, and DEL. -/
def isCtl (c : Nat) : Bool := (decide (c < 32) && c != 9) || c == 127

/-- `fieldText` of dsn.go: the flattening of an error text into (a part of) a field value —
total over all strings; CR, LF and every other control character except the horizontal tab
become a space (`strings.Map`), everything else is copied. -/
def oneLine (s : Str) : Str := s.map (fun c => if isCtl c then 32 else c)

/-- The optional `Received-From-MTA` field of `ReportingMTAInfo.WriteTo`: the name the client gave
in HELO/EHLO in the form the report type requires; LEFT OUT when there is no name or when
`dns.SelectIDNA` cannot convert it (e.g. a malformed A-label) — never an error. -/
def rcvdField (ix : Idna) (utf8 : Bool) (name : Str) : Option Str :=
  if name.isEmpty then none else ix.dom utf8 name

/-- `ReportingMTAInfo.WriteTo`. -/
def mtaGroup (ix : Idna) (utf8 : Bool) (m : MtaInfo) : Except GenErr MtaGroup :=
  if m.reportingMTA.isEmpty then .error .mtaMissing else
  match ix.dom utf8 m.reportingMTA with
  | none => .error .mtaConv
  | some rm =>
    let snd : Except GenErr (Option (AddrType × Str)) :=
      if m.xSender.isEmpty then .ok none else
      match ix.addr utf8 m.xSender with
      | none => .error .senderConv
      | some a => .ok (some (addrType utf8, a))
    match snd with
    | .error e => .error e
    | .ok snd =>
      .ok { reportingMTA := rm, receivedFrom := rcvdField ix utf8 m.receivedFromMTA, xSender := snd,
            xMsgId := if m.xMsgId.isEmpty then none else some m.xMsgId,
            dates := m.hasArrival }

/-- The `Diagnostic-Code` decision of `RecipientInfo.WriteTo`; `none` = nil dereference. -/
def diagOut (utf8 : Bool) : DiagIn → Option DiagOut
  | .smtp c e m => some (.smtp c e (if utf8 then oneLine m else mangle (oneLine m)))
  | .other t => some (if utf8 then .xMaddy (oneLine t) else .omitted)
  | .nil => if utf8 then none else some .omitted

/-- `RecipientInfo.WriteTo`. -/
def rcptGroup (ix : Idna) (utf8 : Bool) (r : RcptInfo) : Except GenErr RcptGroup :=
  if r.finalRcpt.isEmpty then .error .rcptMissing else
  match ix.addr utf8 r.finalRcpt with
  | none => .error .rcptConv
  | some a =>
    if r.action.isEmpty then .error .actionMissing else
    if r.status.cls == 0 then .error .statusMissing else
    match diagOut utf8 r.diag with
    | none => .error .panic
    | some d =>
      if r.remoteMTA.isEmpty then
        .ok { addrType := addrType utf8, addr := a, action := r.action, status := r.status,
              diag := d, remoteMTA := none }
      else match ix.dom utf8 r.remoteMTA with
        | none => .error .remoteConv
        | some rm =>
          .ok { addrType := addrType utf8, addr := a, action := r.action, status := r.status,
                diag := d, remoteMTA := some rm }

/-- The loop of `writeMachineReadablePart`: stops at the first error. -/
def rcptGroups (ix : Idna) (utf8 : Bool) : List RcptInfo → Except GenErr (List RcptGroup)
  | [] => .ok []
  | r :: rest =>
    match rcptGroup ix utf8 r with
    | .error e => .error e
    | .ok g =>
      match rcptGroups ix utf8 rest with
      | .error e => .error e
      | .ok gs => .ok (g :: gs)

def humanErr : DiagIn → HumanErr
  | .smtp c _ m => .smtp c m
  | .other t => .other t
  | .nil => .nil

/-- The per-recipient lines of `writeHumanReadablePart` (unconverted address, raw error text). -/
def humanLines (rs : List RcptInfo) : List (Str × HumanErr) :=
  rs.map (fun r => (r.finalRcpt, humanErr r.diag))

/-- Media types of the three parts (`writeHumanReadablePart`, `writeMachineReadablePart`,
`writeHeader`). -/
def partTypes (utf8 : Bool) : List String :=
  [ "text/plain",
    if utf8 then "message/global-delivery-status" else "message/delivery-status",
    if utf8 then "message/global-headers" else "text/rfc822-headers" ]

/-- `GenerateDSN`. -/
def generate (ix : Idna) (utf8 : Bool) (env : Envelope) (mta : MtaInfo) (rs : List RcptInfo)
    (h : Hdr) : Except GenErr Report :=
  match mtaGroup ix utf8 mta with
  | .error e => .error e
  | .ok mg =>
    match rcptGroups ix utf8 rs with
    | .error e => .error e
    | .ok gs =>
      .ok { utf8 := utf8, msgId := env.msgId, hdrTo := env.to, hdrFrom := env.from_,
            partTypes := partTypes utf8, human := humanLines rs, mta := mg, rcpts := gs,
            origHdr := h }

end MaddyVerif.Dsn
