/-
Model of maddy's message limits (core Lean only).

Mirrored Go code (as it is after the `fix:` commits listed in notes/C11.md):
* `internal/limits/limiters/concurrency.go`: `Semaphore` (`NewSemaphore`, `TakeContext`, `Release` with its
  "mismatched Release call" panic) — `LimSt` of kind `sem`; `len` = length of the channel = permits in use.
* `internal/limits/limiters/rate.go`: `Rate` (`NewRate`, `TakeContext`, `Release` = no-op) — `LimSt` of kind
  `rate`; `len` = tokens left in the channel.  The refill goroutine is the scheduler event `refillG/refillB`.
* `internal/limits/limiters/multilimit.go`: `MultiLimit.TakeContext` (acquire in order, roll back `[:i]` in
  order on failure), `MultiLimit.Release` — part of the compiled programs `takeGlob`, `takeSet`, `relLims`.
* `internal/limits/limiters/bucket.go`: `BucketSet.take` (reaping rule, `MaxBuckets`, `nil` = full, `users`),
  `untake`, `TakeContext`, `Release` — `bsTake`, `execRel`.
* `internal/limits/limits.go`: `Group.Init` (which directive list feeds which scope, `g.ip/source/dest == nil`
  iff the list is empty), `TakeMsg`, `TakeDest`, `ReleaseMsg`, `ReleaseDest` — `takeMsgProg`, `takeDestProg`,
  `releaseMsgProg`, `releaseDestProg`: the exact sequence of limiter operations of each call, every
  acquisition paired with the roll-back the code performs when that acquisition fails.  The key of the per-IP
  bucket set is derived from the address separately at the three places (`IpKeys`: take, roll-back, release).
* the permit lifecycles of `internal/endpoint/smtp/session.go` (`Mail`, `Rcpt`, `startDelivery`, `Data`,
  `Reset`, `Logout`, `releaseLimits`, together with go-smtp's `fromReceived`/`recipients` gating) and of
  `internal/target/remote` (`Target.Start`, `AddRcpt` → `connectionForDomain` → `conn.Rcpt` with the RCPT
  accepted / refused / failed with the connection lost, `Body`, `remoteDelivery.Close`) — `Sess`, `Rem`.
  `connectionForDomain` is `Rem.connFor`: connection of the delivery / from the pool / new, with the state of
  the MX world at that moment (can a new connection be made?) and what the next hop does with MAIL (accepted /
  refused / session lost) as inputs, also the world that changed since a pooled connection was opened.
  The keys the remote target hands to the limits are derived from the domain spellings separately at every
  place (`RemKeys`: `rd.connections` key, `TakeDest`, `ReleaseDest` after a failed MAIL, `ReleaseDest` in
  `Close`, `TakeMsg` in `Start`, `ReleaseMsg` in `Close`).

Concurrency: any number of goroutines (`Task`), each executing Group calls one limiter operation (one
channel operation / one critical section of `BucketSet.mLck`) at a time; the schedule (`List Ev`: who moves,
which pending acquisition times out, how time passes, when rate limiters are refilled, when new goroutines
appear, which call an idle goroutine starts) is an explicit argument and theorems quantify over all of it.
A blocked acquisition is a `go` event without effect; a context time-out may hit any pending acquisition.
Go's channel and mutex semantics are *defined* here (trusted base).
-/
namespace MaddyVerif.Limits

/-! ## Limiters -/

inductive Kind | sem | rate
deriving DecidableEq, Repr

/-- One directive: `concurrency n` / `rate n <interval>`. -/
structure Lim where
  kind : Kind
  n : Int
deriving DecidableEq, Repr

/-- A limiter object.  `sem`: `len` = permits in use (channel length).  `rate`: `len` = tokens left. -/
structure LimSt where
  kind : Kind
  cap : Nat
  len : Nat
deriving DecidableEq, Repr

/-- `NewSemaphore(n)` / `NewRate(n, _)`: a negative size is treated as zero (= every method is a no-op). -/
def Lim.new (l : Lim) : LimSt :=
  match l.kind with
  | .sem => { kind := .sem, cap := l.n.toNat, len := 0 }
  | .rate => { kind := .rate, cap := l.n.toNat, len := l.n.toNat }

/-- `TakeContext` when the context is not done: `none` = the goroutine parks. -/
def LimSt.take (l : LimSt) : Option LimSt :=
  if l.cap = 0 then some l else
  match l.kind with
  | .sem => if l.len < l.cap then some { l with len := l.len + 1 } else none
  | .rate => if 0 < l.len then some { l with len := l.len - 1 } else none

/-- `Release`: `none` = panic("limiters: mismatched Release call"). -/
def LimSt.release (l : LimSt) : Option LimSt :=
  if l.cap = 0 then some l else
  match l.kind with
  | .sem => if 0 < l.len then some { l with len := l.len - 1 } else none
  | .rate => some l

/-- The refill goroutine of a rate limiter: fills the channel up to the burst size. -/
def LimSt.refill (l : LimSt) : LimSt :=
  match l.kind with
  | .sem => l
  | .rate => { l with len := l.cap }

/-- `MultiLimit.Release`: in order; `none` = one of them panicked. -/
def relLims : List LimSt → Option (List LimSt)
  | [] => some []
  | l :: ls =>
    match l.release with
    | none => none
    | some l' =>
      match relLims ls with
      | none => none
      | some ls' => some (l' :: ls')

/-! ## Configuration, buckets, group -/

inductive Sc | ip | src | dst
deriving DecidableEq, Repr

/-- How `limits.go` derives the map key of the per-IP bucket set (`g.ip`) from the source address, at each of
the three places that touch that set.  Addresses and keys are ids; the functions are whatever the code
computes (`addr.String()` on the pinned tree: an IPv4 address and its IPv4-mapped IPv6 form share a key, every
other address has its own) — the harness reads them off the real bucket table and puts them on the op line.
Nothing in the model assumes they agree: agreement is the hypothesis `IpKeys.Lawful` of the theorems, and
`C11_key_law_needed` shows what happens without it. -/
structure IpKeys where
  /-- `TakeMsg`: `g.ip.TakeContext(ctx, <key>)` -/
  take : Nat → Nat
  /-- `TakeMsg`, roll-back when the `source` acquisition fails: `g.ip.Release(<key>)` -/
  undo : Nat → Nat
  /-- `ReleaseMsg`: `g.ip.Release(<key>)` -/
  rel : Nat → Nat

instance : Repr IpKeys := ⟨fun _ _ => "<ipkeys>"⟩

/-- Every address is its own key. -/
def IpKeys.same : IpKeys := { take := fun a => a, undo := fun a => a, rel := fun a => a }

/-- `TakeMsg`, its roll-back and `ReleaseMsg` use the same key function. -/
def IpKeys.Lawful (k : IpKeys) : Prop := ∀ a, k.undo a = k.take a ∧ k.rel a = k.take a

structure Cfg where
  all : List Lim
  ip : List Lim
  src : List Lim
  dst : List Lim
  /-- `ReapInterval`, in the time unit of `Bucket.age`; negative = every bucket is older. -/
  reap : Int
  maxB : Nat
  /-- key derivation of the `ip` scope -/
  keys : IpKeys := IpKeys.same
deriving Repr

/-- `Group.Init`: the constructor list of each keyed scope. -/
def Cfg.ctors (c : Cfg) : Sc → List Lim
  | .ip => c.ip
  | .src => c.src
  | .dst => c.dst

/-- `g.ip != nil` etc.: a bucket set exists iff the scope has at least one directive. -/
def Cfg.on (c : Cfg) (sc : Sc) : Bool := !(c.ctors sc).isEmpty

structure Bucket where
  key : Nat
  lims : List LimSt
  /-- Take calls waiting on or holding this bucket (field `users`). -/
  users : Nat
  /-- time since `lastUse` -/
  age : Nat
deriving DecidableEq, Repr

structure Group where
  glob : List LimSt
  ip : List Bucket
  src : List Bucket
  dst : List Bucket
deriving DecidableEq, Repr

def Group.bk (g : Group) : Sc → List Bucket
  | .ip => g.ip
  | .src => g.src
  | .dst => g.dst

def Group.setBk (g : Group) (sc : Sc) (m : List Bucket) : Group :=
  match sc with
  | .ip => { g with ip := m }
  | .src => { g with src := m }
  | .dst => { g with dst := m }

def Group.init (c : Cfg) : Group :=
  { glob := c.all.map Lim.new, ip := [], src := [], dst := [] }

def findB (m : List Bucket) (k : Nat) : Option Bucket := m.find? (fun b => b.key == k)

def updB (m : List Bucket) (k : Nat) (f : Bucket → Bucket) : List Bucket :=
  m.map (fun b => if b.key == k then f b else b)

/-- The reaping rule of `BucketSet.take`: no users and `now.Sub(lastUse) > ReapInterval`. -/
def Bucket.stale (reap : Int) (b : Bucket) : Bool := b.users == 0 && decide (reap < (b.age : Int))

/-- `BucketSet.take(key)`: the map afterwards and whether a limiter was returned (`false` = `nil`: the set
is full).  Stale buckets are removed even when the call then fails. -/
def bsTake (c : Cfg) (sc : Sc) (m : List Bucket) (k : Nat) : List Bucket × Bool :=
  let m1 := if m.length > c.maxB then m.filter (fun b => !b.stale c.reap) else m
  if m1.length > c.maxB then (m1, false) else
  let m2 := if (findB m1 k).isSome then m1
            else m1 ++ [{ key := k, lims := (c.ctors sc).map Lim.new, users := 0, age := 0 }]
  (updB m2 k (fun b => { b with users := b.users + 1, age := 0 }), true)

/-! ## Limiter operations of the Group calls -/

/-- One limiter operation (one channel operation or one critical section of the bucket-set mutex). -/
inductive MOp
  | acqG (i : Nat)                    -- g.global.Wrapped[i].TakeContext
  | relG (i : Nat)                    -- g.global.Wrapped[i].Release
  | bsTake (sc : Sc) (k : Nat)        -- BucketSet.take(key)
  | acqB (sc : Sc) (k : Nat) (i : Nat)   -- bucket.Wrapped[i].TakeContext
  | relB (sc : Sc) (k : Nat) (i : Nat)   -- bucket.Wrapped[i].Release (roll-back inside MultiLimit.TakeContext)
  | untake (sc : Sc) (k : Nat)        -- BucketSet.untake(key)
  | bsRel (sc : Sc) (k : Nat)         -- BucketSet.Release(key)
deriving DecidableEq, Repr

/-- A take call: the acquisitions in order, each with the roll-back executed when it fails. -/
abbrev TakeProg := List (MOp × List MOp)

def relGAll (c : Cfg) : List MOp := (List.range c.all.length).map MOp.relG

/-- `g.global.TakeContext(ctx)` (MultiLimit). -/
def takeGlob (c : Cfg) : TakeProg :=
  (List.range c.all.length).map (fun i => (MOp.acqG i, (List.range i).map MOp.relG))

/-- `if set != nil { if err := set.TakeContext(ctx, key); err != nil { <outer>; return err } }`. -/
def takeSet (c : Cfg) (sc : Sc) (k : Nat) (outer : List MOp) : TakeProg :=
  if c.on sc then
    (MOp.bsTake sc k, outer) ::
      (List.range (c.ctors sc).length).map (fun i =>
        (MOp.acqB sc k i, (List.range i).map (MOp.relB sc k) ++ (MOp.untake sc k :: outer)))
  else []

def relSet (c : Cfg) (sc : Sc) (k : Nat) : List MOp := if c.on sc then [MOp.bsRel sc k] else []

/-- `Group.TakeMsg(ctx, addr, sourceDomain)`; `ip` is the address, the bucket keys are what `c.keys` derives
from it at each place. -/
def takeMsgProg (c : Cfg) (ip dom : Nat) : TakeProg :=
  takeGlob c ++ takeSet c .ip (c.keys.take ip) (relGAll c) ++
    takeSet c .src dom (relGAll c ++ relSet c .ip (c.keys.undo ip))

/-- `Group.TakeDest(ctx, domain)`. -/
def takeDestProg (c : Cfg) (d : Nat) : TakeProg := takeSet c .dst d []

/-- `Group.ReleaseMsg(addr, sourceDomain)`. -/
def releaseMsgProg (c : Cfg) (ip dom : Nat) : List MOp :=
  relGAll c ++ relSet c .ip (c.keys.rel ip) ++ relSet c .src dom

/-- `Group.ReleaseDest(domain)`. -/
def releaseDestProg (c : Cfg) (d : Nat) : List MOp := relSet c .dst d

/-- Executes a release-side operation.  `none` = panic (mismatched Release; an index or bucket that does
not exist stands for a nil/dangling dereference). -/
def execRel (g : Group) : MOp → Option Group
  | .relG i =>
    match g.glob[i]? with
    | none => none
    | some l =>
      match l.release with
      | none => none
      | some l' => some { g with glob := g.glob.set i l' }
  | .relB sc k i =>
    match findB (g.bk sc) k with
    | none => none
    | some b =>
      match b.lims[i]? with
      | none => none
      | some l =>
        match l.release with
        | none => none
        | some l' => some (g.setBk sc (updB (g.bk sc) k (fun b => { b with lims := b.lims.set i l' })))
  | .untake sc k =>
    some (g.setBk sc (updB (g.bk sc) k (fun b => { b with users := b.users - 1 })))
  | .bsRel sc k =>
    match findB (g.bk sc) k with
    | none => some g
    | some b =>
      match relLims b.lims with
      | none => none
      | some ls => some (g.setBk sc (updB (g.bk sc) k (fun b => { b with lims := ls, users := b.users - 1 })))
  | _ => none

inductive AcqRes
  | ok (g : Group)
  | blocked
  | full (g : Group)
  | panic

/-- Executes an acquisition-side operation. -/
def execAcq (c : Cfg) (g : Group) : MOp → AcqRes
  | .acqG i =>
    match g.glob[i]? with
    | none => .panic
    | some l =>
      match l.take with
      | none => .blocked
      | some l' => .ok { g with glob := g.glob.set i l' }
  | .bsTake sc k =>
    let r := bsTake c sc (g.bk sc) k
    if r.2 then .ok (g.setBk sc r.1) else .full (g.setBk sc r.1)
  | .acqB sc k i =>
    match findB (g.bk sc) k with
    | none => .panic
    | some b =>
      match b.lims[i]? with
      | none => .panic
      | some l =>
        match l.take with
        | none => .blocked
        | some l' => .ok (g.setBk sc (updB (g.bk sc) k (fun b => { b with lims := b.lims.set i l' })))
  | _ => .panic

/-- May a context time-out end this operation?  (Only the channel waits look at the context.) -/
def MOp.waits : MOp → Bool
  | .acqG _ => true
  | .acqB _ _ _ => true
  | _ => false

/-! ## Goroutines -/

inductive Call
  | takeMsg (ip dom : Nat)
  | takeDest (d : Nat)
  | relMsg (ip dom : Nat)
  | relDest (d : Nat)
deriving DecidableEq, Repr

inductive Res | none | ok | timeout | full
deriving DecidableEq, Repr

inductive Pc
  | idle
  | taking (c : Call) (todo : TakeProg)
  | undo (r : Res) (todo : List MOp)
  | rel (todo : List MOp)
  | panicked
deriving DecidableEq, Repr

structure Task where
  pc : Pc
  /-- successful `TakeMsg` calls not yet followed by their `ReleaseMsg` -/
  outMsg : List (Nat × Nat)
  /-- successful `TakeDest` calls not yet followed by their `ReleaseDest` -/
  outDest : List Nat
  /-- result of the last finished call -/
  res : Res
deriving DecidableEq, Repr

def Task.new : Task := { pc := .idle, outMsg := [], outDest := [], res := .none }

structure St where
  g : Group
  tasks : List Task
  /-- some goroutine released what it did not hold (client misuse; sticky) -/
  misuse : Bool
deriving DecidableEq, Repr

def St.init (c : Cfg) : St := { g := Group.init c, tasks := [], misuse := false }

inductive Ev
  | spawn                           -- a new goroutine (delivery) appears
  | begin (i : Nat) (c : Call)      -- idle goroutine i enters a Group call
  | go (i : Nat)                    -- goroutine i performs its next limiter operation (no effect if it would park)
  | timeout (i : Nat)               -- the context of goroutine i's pending channel wait is done
  | adv (n : Nat)                   -- n time units pass
  | refillG (i : Nat)               -- refill tick of a rate limiter
  | refillB (sc : Sc) (k : Nat) (i : Nat)
deriving DecidableEq, Repr

/-- Entering a call.  Returns the task and whether the call was a release of something not held. -/
def Task.begin (c : Cfg) (t : Task) : Call → Task × Bool
  | .takeMsg ip dom => ({ t with pc := .taking (.takeMsg ip dom) (takeMsgProg c ip dom) }, false)
  | .takeDest d => ({ t with pc := .taking (.takeDest d) (takeDestProg c d) }, false)
  | .relMsg ip dom =>
    ({ t with pc := .rel (releaseMsgProg c ip dom), outMsg := t.outMsg.erase (ip, dom) },
      !t.outMsg.contains (ip, dom))
  | .relDest d =>
    ({ t with pc := .rel (releaseDestProg c d), outDest := t.outDest.erase d }, !t.outDest.contains d)

def Task.finishTake (t : Task) : Call → Task
  | .takeMsg ip dom => { t with pc := .idle, res := .ok, outMsg := (ip, dom) :: t.outMsg }
  | .takeDest d => { t with pc := .idle, res := .ok, outDest := d :: t.outDest }
  | _ => { t with pc := .idle, res := .ok }

/-- One limiter operation of a goroutine. -/
def Task.go (c : Cfg) (g : Group) (t : Task) : Group × Task :=
  match t.pc with
  | .idle => (g, t)
  | .panicked => (g, t)
  | .taking call [] => (g, t.finishTake call)
  | .taking call ((op, u) :: rest) =>
    match execAcq c g op with
    | .ok g' => (g', { t with pc := .taking call rest })
    | .blocked => (g, t)
    | .full g' => (g', { t with pc := .undo .full u })
    | .panic => (g, { t with pc := .panicked })
  | .undo r [] => (g, { t with pc := .idle, res := r })
  | .undo r (op :: rest) =>
    match execRel g op with
    | some g' => (g', { t with pc := .undo r rest })
    | none => (g, { t with pc := .panicked })
  | .rel [] => (g, { t with pc := .idle, res := .ok })
  | .rel (op :: rest) =>
    match execRel g op with
    | some g' => (g', { t with pc := .rel rest })
    | none => (g, { t with pc := .panicked })

/-- The context of the pending acquisition is done: the call rolls back. -/
def Task.timeout (t : Task) : Task :=
  match t.pc with
  | .taking _ ((op, u) :: _) => if op.waits then { t with pc := .undo .timeout u } else t
  | _ => t

def Bucket.refill (i : Nat) (b : Bucket) : Bucket :=
  match b.lims[i]? with
  | some l => { b with lims := b.lims.set i l.refill }
  | none => b

def step (c : Cfg) (s : St) : Ev → St
  | .spawn => { s with tasks := s.tasks ++ [Task.new] }
  | .begin i call =>
    match s.tasks[i]? with
    | none => s
    | some t =>
      match t.pc with
      | .idle =>
        let r := t.begin c call
        { s with tasks := s.tasks.set i r.1, misuse := s.misuse || r.2 }
      | _ => s
  | .go i =>
    match s.tasks[i]? with
    | none => s
    | some t =>
      let r := t.go c s.g
      { s with g := r.1, tasks := s.tasks.set i r.2 }
  | .timeout i =>
    match s.tasks[i]? with
    | none => s
    | some t => { s with tasks := s.tasks.set i t.timeout }
  | .adv n =>
    let f := fun (m : List Bucket) => m.map (fun b => { b with age := b.age + n })
    { s with g := { s.g with ip := f s.g.ip, src := f s.g.src, dst := f s.g.dst } }
  | .refillG i =>
    match s.g.glob[i]? with
    | some l => { s with g := { s.g with glob := s.g.glob.set i l.refill } }
    | none => s
  | .refillB sc k i => { s with g := s.g.setBk sc (updB (s.g.bk sc) k (Bucket.refill i)) }

def run (c : Cfg) (s : St) (evs : List Ev) : St := evs.foldl (step c) s

/-! ## Sequential execution (one goroutine, calls run to completion; a call that parks times out) -/

/-- Would the next operation of the task park? -/
def Task.parked (c : Cfg) (g : Group) (t : Task) : Bool :=
  match t.pc with
  | .taking _ ((op, _) :: _) =>
    match execAcq c g op with
    | .blocked => true
    | _ => false
  | _ => false

def Task.running (t : Task) : Bool :=
  match t.pc with
  | .idle => false
  | .panicked => false
  | _ => true

/-- Runs task `i` until it is idle (or panicked); a parked acquisition times out. -/
def finish (c : Cfg) (i : Nat) : Nat → St → St
  | 0, s => s
  | fuel + 1, s =>
    match s.tasks[i]? with
    | none => s
    | some t =>
      if t.running then
        finish c i fuel (step c s (if t.parked c s.g then .timeout i else .go i))
      else s

def Call.fuel (c : Cfg) : Nat := 2 * (c.all.length + c.ip.length + c.src.length + c.dst.length) + 16

/-- `begin` followed by `finish`: one Group call executed by goroutine `i` with nobody else running. -/
def call (c : Cfg) (i : Nat) (s : St) (cl : Call) : St :=
  finish c i (Call.fuel c) (step c s (.begin i cl))

/-! ## Permit lifecycle of an SMTP session (internal/endpoint/smtp/session.go + go-smtp gating)

Keys: `ip` of the connection; sender domains are key ids, the raw spelling of the MAIL FROM argument and
its normalised form (`address.CleanDomain`) may differ; `clean = none`: normalisation (or the SMTPUTF8
check) fails, which `startDelivery` reports before taking any limit. -/

structure Sess where
  ip : Nat
  deferred : Bool            -- endp.deferServerReject
  fromRecv : Bool := false   -- go-smtp: c.fromReceived
  rcpts : Nat := 0           -- go-smtp: len(c.recipients)
  mfKey : Nat := 0           -- domain of s.mailFrom as `releaseLimits` splits it
  mfClean : Option Nat := some 0   -- domain of CleanDomain(s.mailFrom)
  delivery : Bool := false   -- s.delivery != nil
  dErr : Bool := false       -- s.deliveryErr != nil
deriving DecidableEq, Repr

inductive SessOp
  | mail (raw : Nat) (clean : Option Nat) (startOk : Bool)   -- MAIL FROM; startOk: pipeline.Start accepts
  | rcpt (startOk : Bool)
  | data
  | rset
  | logout
deriving DecidableEq, Repr

/-- `Session.releaseLimits` + `cleanSession`. -/
def Sess.clean (s : Sess) : Sess × List Call :=
  ({ s with mfKey := 0, mfClean := some 0, delivery := false, dErr := false }, [Call.relMsg s.ip s.mfKey])

/-- `Session.Reset` (called by go-smtp's `reset`) followed by go-smtp clearing its own state.  Since fix
6740f8c `Reset` forgets the kept failure of a deferred MAIL whether or not a delivery is open. -/
def Sess.reset (s : Sess) : Sess × List Call :=
  let r := if s.delivery then s.clean else (s, [])
  ({ r.1 with fromRecv := false, rcpts := 0, dErr := false }, r.2)

/-- `startDelivery(from)`: `takeOk` is the result of `TakeMsg`, `startOk` that of `pipeline.Start`.
Returns the session, the Group calls made, and whether the delivery was started. -/
def Sess.startDelivery (s : Sess) (clean : Option Nat) (takeOk startOk : Bool) : Sess × List Call × Bool :=
  match clean with
  | none => (s, [], false)
  | some d =>
    if !takeOk then (s, [Call.takeMsg s.ip d], false)
    else if !startOk then (s, [Call.takeMsg s.ip d, Call.relMsg s.ip d], false)
    else ({ s with mfKey := d, mfClean := some d, delivery := true }, [Call.takeMsg s.ip d], true)

/-- One command.  `takeOk`: the result of the `TakeMsg` the command makes, if it makes one. -/
def Sess.op (s : Sess) (takeOk : Bool) : SessOp → Sess × List Call
  | .mail raw clean startOk =>
    if s.delivery then (s, [])                       -- 503 nested MAIL
    else if !s.deferred then
      let r := s.startDelivery clean takeOk startOk
      if r.2.2 then ({ r.1 with fromRecv := true }, r.2.1) else (r.1, r.2.1)
    else ({ s with mfKey := raw, mfClean := clean, fromRecv := true, dErr := false }, [])   -- fix 6740f8c: a new MAIL forgets the kept failure
  | .rcpt startOk =>
    if !s.fromRecv then (s, [])                      -- go-smtp: 502 missing MAIL
    else if !s.delivery then
      if s.dErr then (s, [])
      else
        let r := s.startDelivery s.mfClean takeOk startOk
        if r.2.2 then ({ r.1 with rcpts := r.1.rcpts + 1 }, r.2.1)
        else ({ r.1 with dErr := true }, r.2.1)
    else ({ s with rcpts := s.rcpts + 1 }, [])
  | .data =>
    if !s.fromRecv || s.rcpts == 0 then (s, [])      -- go-smtp: 502
    else s.reset                                      -- Commit → cleanSession, or error → go-smtp reset → abort
  | .rset => s.reset
  | .logout =>
    let r := if s.delivery then s.clean else (s, [])
    (r.1, r.2)

/-! ## Permit lifecycle of a remote delivery (internal/target/remote) -/

/-- How `internal/target/remote` derives bucket / map keys from the DOMAIN SPELLINGS handed to it (the domain
of the recipient given to `AddRcpt`, the domain of the sender given to `Start`), separately at each place.
Spellings and keys are ids: one domain has many spellings (U-label as `endpoint/smtp` hands it over, A-label,
other case, trailing dot, NFD), and what string the code passes to the limits at each place is whatever it
computes (on the pinned tree: the spelling itself, everywhere) — the harness reads the keys off the real
bucket tables / `rd.connections` and puts them on the op line (`j.` tokens).  Nothing in the model assumes
they agree: agreement of the keys that are TAKEN with the keys that are RELEASED is the hypothesis
`RemKeys.Lawful` of the lifecycle theorems, and `C11_dest_key_law_needed` shows what happens without it. -/
structure RemKeys where
  /-- `connectionForDomain`: key of `rd.connections` (look-up and store) -/
  conn : Nat → Nat
  /-- `connectionForDomain`: `rd.rt.limits.TakeDest(ctx, <key>)` -/
  take : Nat → Nat
  /-- `connectionForDomain`, MAIL refused / connection lost at MAIL: `rd.rt.limits.ReleaseDest(<key>)` -/
  undo : Nat → Nat
  /-- `remoteDelivery.Close`: `rd.rt.limits.ReleaseDest(conn.domain)` for the connection created for the spelling -/
  close : Nat → Nat
  /-- `Target.Start`: `rt.limits.TakeMsg(ctx, addr, <key>)` (domain of the sender) -/
  src : Nat → Nat
  /-- `remoteDelivery.Close`: `rd.rt.limits.ReleaseMsg(addr, <key>)` -/
  srcRel : Nat → Nat

instance : Repr RemKeys := ⟨fun _ _ => "<remkeys>"⟩

/-- Every spelling is its own key, everywhere (the pinned tree). -/
def RemKeys.same : RemKeys :=
  { conn := fun d => d, take := fun d => d, undo := fun d => d, close := fun d => d, src := fun d => d,
    srcRel := fun d => d }

/-- What is released is released under the key it was taken under: the destination permit in the MAIL-failure
path of `connectionForDomain` and in `Close`, the message permits in `Close`.  (`conn` is free: spellings that
share an entry of `rd.connections` share one permit.) -/
def RemKeys.Lawful (k : RemKeys) : Prop :=
  ∀ d, k.undo d = k.take d ∧ k.close d = k.take d ∧ k.srcRel d = k.src d

structure Rem where
  ip : Nat
  /-- spelling of the sender domain given to `Start` -/
  dom : Nat
  started : Bool := false
  /-- `rd.connections`: (map key, key `Close` will hand to `ReleaseDest` = `conn.domain`) -/
  conns : List (Nat × Nat) := []
deriving DecidableEq, Repr

/-- What the next hop did with the RCPT command sent over the connection `connectionForDomain` returned. -/
inductive RcptRes
  | accepted     -- 250
  | refused      -- a 4xx/5xx reply, the connection stays usable
  | lost         -- 421 reply, connection dropped, command time-out, non-SMTP error
deriving DecidableEq, Repr

inductive RemOp
  | start                                      -- Target.Start
  | addRcpt (d : Nat) (connOk mailOk : Bool) (rc : RcptRes := .accepted) (pooled : Bool := false)
      (mailLost : Bool := false)
                                               -- AddRcpt → connectionForDomain(d) → conn.Rcpt; d = domain SPELLING
                                               -- connOk: a NEW connection can be made at this moment (the MX world)
                                               -- pooled: the pool handed out a usable connection
                                               -- mailLost (with mailOk = false): 421 / connection gone, not a refusal
  | body                                       -- Body / BodyNonAtomic: DATA on every entry of rd.connections
  | close                                      -- Commit/Abort → Close
deriving DecidableEq, Repr

/-- `conn.Rcpt` on the entry of `rd.connections` for `d`, fresh or reused.  Whatever the next hop does with
the command — accepted, refused, or the connection is lost (421, drop, time-out, non-SMTP error) — `AddRcpt`
only hands the error back (`return moduleError(err)`): the entry stays in `rd.connections` (so `Close`
releases its destination permit) and no Group call is made. -/
def Rem.rcpt (r : Rem) (_d : Nat) : RcptRes → Rem × List Call
  | .accepted => (r, [])
  | .refused => (r, [])
  | .lost => (r, [])

def Rem.hasConn (r : Rem) (ck : Nat) : Bool := r.conns.any (fun p => p.1 == ck)

/-- How a call of `connectionForDomain` ended. -/
inductive ConnOut
  | cached       -- the delivery already has a connection for the key (`rd.connections`): returned as it is
  | opened       -- a connection (from the pool or new) holds a destination permit and is now in `rd.connections`
  | failed       -- an error is returned, `rd.connections` is as before
deriving DecidableEq, Repr

/-- `remoteDelivery.connectionForDomain(d)`.  The world outside the delivery is an input:
* `pooled` — `rd.rt.pool.Get` handed out a usable connection of an EARLIER delivery (and the message is not
  REQUIRETLS): no MX lookup, no dialling, `newConn` is not called;
* `connOk` — a NEW connection can be made at this moment (MX lookup, address of the MX, connect, greeting,
  STARTTLS, MX/TLS policies, the REQUIRETLS level checks).  The world may have changed since the pooled
  connection was opened: `pooled = true` with `connOk = false` is the next hop that has become unreachable;
* `takeOk` — result of `TakeDest`;
* `mailOk` / `mailLost` — MAIL FROM accepted; refused by a reply (the session stays usable); or the session is
  over (421 reply, connection dropped, command time-out), on a pooled connection typically because the server
  limits the transactions per session or has dropped the idle session.
On the pinned tree a failed MAIL — refused or lost, on a new or on a pooled connection — ends the call: the
permit is given back (`ReleaseDest`), the connection is closed, the error returned.  No second connection is
opened for the same call, so `connOk` is not consulted for a pooled connection (the queue retries later).  Every
path that returns an error has given back what it took: `C11_connectionForDomain_error_releases`. -/
def Rem.connFor (k : RemKeys) (r : Rem) (takeOk : Bool) (d : Nat) (pooled connOk mailOk _mailLost : Bool) :
    ConnOut × Rem × List Call :=
  if r.hasConn (k.conn d) then (.cached, r, [])        -- connection of this delivery reused
  else if !pooled && !connOk then (.failed, r, [])     -- MX lookup / connect / greeting / TLS / policy failed
  else if !takeOk then (.failed, r, [Call.takeDest (k.take d)])
  else if !mailOk then (.failed, r, [Call.takeDest (k.take d), Call.relDest (k.undo d)])
                                                       -- MAIL refused / session lost at MAIL (new or pooled)
  else (.opened, { r with conns := (k.conn d, k.close d) :: r.conns }, [Call.takeDest (k.take d)])

def Rem.op (k : RemKeys) (r : Rem) (takeOk : Bool) : RemOp → Rem × List Call
  | .start =>
    if r.started then (r, [])
    else if takeOk then ({ r with started := true, conns := [] }, [Call.takeMsg r.ip (k.src r.dom)])
    else (r, [Call.takeMsg r.ip (k.src r.dom)])
  | .addRcpt d connOk mailOk rc pooled mailLost =>
    if !r.started then (r, [])
    else
      let c := r.connFor k takeOk d pooled connOk mailOk mailLost
      match c.1 with
      | .failed => (c.2.1, c.2.2)
      | _ =>
        let r' := c.2.1.rcpt d rc
        (r'.1, c.2.2 ++ r'.2)
  | .body =>
    -- DATA accepted, refused or lost on any connection: `errored` is set (the connection is closed instead
    -- of pooled by `Close`), `rd.connections` keeps every entry, no Group call.
    (r, [])
  | .close =>
    if !r.started then (r, [])
    else ({ r with started := false, conns := [] },
      r.conns.map (fun p => Call.relDest p.2) ++ [Call.relMsg r.ip (k.srcRel r.dom)])

/-! ## Outstanding takes of a sequence of Group calls (specification side of "releases what it took") -/

structure Out where
  msg : List (Nat × Nat) := []
  dest : List Nat := []
deriving DecidableEq, Repr

/-- Follows the calls of one lifecycle command (`ok` = result of the take it contains, if any).
`none`: a release of something that is not outstanding. -/
def track (ok : Bool) (o : Out) : List Call → Option Out
  | [] => some o
  | .takeMsg a b :: r => track ok (if ok then { o with msg := (a, b) :: o.msg } else o) r
  | .takeDest d :: r => track ok (if ok then { o with dest := d :: o.dest } else o) r
  | .relMsg a b :: r =>
    if o.msg.contains (a, b) then track ok { o with msg := o.msg.erase (a, b) } r else none
  | .relDest d :: r =>
    if o.dest.contains d then track ok { o with dest := o.dest.erase d } r else none

/-- A session script: commands with the result of the `TakeMsg` each may make. -/
def Sess.run (s : Sess) (o : Out) : List (SessOp × Bool) → Option (Sess × Out)
  | [] => some (s, o)
  | (op, ok) :: rest =>
    match track ok o (s.op ok op).2 with
    | none => none
    | some o' => Sess.run (s.op ok op).1 o' rest

def Rem.run (k : RemKeys) (r : Rem) (o : Out) : List (RemOp × Bool) → Option (Rem × Out)
  | [] => some (r, o)
  | (op, ok) :: rest =>
    match track ok o (r.op k ok op).2 with
    | none => none
    | some o' => Rem.run k (r.op k ok op).1 o' rest

end MaddyVerif.Limits
