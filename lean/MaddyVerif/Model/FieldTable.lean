/-
Vocabulary for the regenerated table of struct fields reachable from `queue.QueueMetadata`
(`Generated/MetaFields.lean`, produced by reflection inside the current tree - exactly the view
`encoding/json` has) and the rules `encoding/json` applies to them.  Core Lean only.
-/
namespace MaddyVerif.FieldTable

structure FieldInfo where
  /-- Go field names from `QueueMetadata` down (pointers, slices, arrays and map values are looked through) -/
  path : List String
  goType : String
  /-- reflect.Kind of the field's type after removing pointers -/
  kind : String
  /-- for map: "key->value" kinds, for slice/array: element kind, else "" -/
  elem : String
  exported : Bool
  /-- name part / option part of the `json:"name,opts"` tag -/
  tagName : String
  tagOpts : String
  /-- the type (or its pointer) has its own MarshalJSON / MarshalText: encoded by that method, not field by field -/
  marshaler : Bool
  anonymous : Bool
deriving Repr, DecidableEq

def find (t : List FieldInfo) (p : List String) : Option FieldInfo := t.find? (fun e => e.path == p)

/-- kinds `encoding/json` writes and reads back without loss of structure -/
def plainKinds : List String :=
  ["string", "bool", "int", "int8", "int16", "int32", "int64", "uint", "uint8", "uint16", "uint32", "uint64"]

def kindOK (e : FieldInfo) : Bool :=
  plainKinds.contains e.kind || e.kind == "struct" ||
  (e.kind == "slice" && plainKinds.contains e.elem) ||
  (e.kind == "map" && (e.elem == "string->string" || e.elem == "string->int" || e.elem == "string->struct"))

/-- the field itself is written by `json.Encoder` and restored by `json.Decoder` -/
def entryVisible (e : FieldInfo) : Bool :=
  e.exported && e.tagName != "-" && !e.anonymous && !e.marshaler && kindOK e

/-- non-empty prefixes of a path, e.g. [a,b,c] => [[a],[a,b],[a,b,c]] -/
def prefixes : List String → List (List String)
  | [] => []
  | x :: r => [x] :: (prefixes r).map (x :: ·)

/-- the field and all the structs it sits in are visible -/
def visible (t : List FieldInfo) (p : List String) : Bool :=
  p != [] && (prefixes p).all fun q =>
    match find t q with
    | some e => entryVisible e
    | none => false

def lowerNat (c : Nat) : Nat := if 65 ≤ c ∧ c ≤ 90 then c + 32 else c

def lname (s : String) : List Nat := s.toList.map (fun c => lowerNat c.toNat)

def isInfix (m : List Nat) : List Nat → Bool
  | [] => m.isEmpty
  | c :: r => m.isPrefixOf (c :: r) || isInfix m r

/-- the JSON object key the field is written under (lower-cased: decoding matches case-insensitively) -/
def jsonKey (e : FieldInfo) : List Nat :=
  lname (if e.tagName == "" then e.path.getLast?.getD "" else e.tagName)

/-- no other exported field of the same struct claims the same key (`encoding/json` drops both) -/
def keyUnique (t : List FieldInfo) (e : FieldInfo) : Bool :=
  (t.filter fun o => o.path.dropLast == e.path.dropLast && o.exported && o.tagName != "-" &&
    jsonKey o == jsonKey e).length == 1

/-- name-based marking of fields that hold what a client authenticated with -/
def credentialMarkers : List (List Nat) :=
  ["password", "passwd", "passphrase", "secret", "sasl", "credential", "token", "apikey", "privatekey"].map lname

def credentialMarked (e : FieldInfo) : Bool :=
  let n := lname (e.path.getLast?.getD "")
  credentialMarkers.any (fun m => isInfix m n) || (lname "auth").isPrefixOf n

end MaddyVerif.FieldTable
