/-
Small-step interleaving model of the queue scheduler (core Lean only).

Mirrored Go code (internal/target/queue):
* `timewheel.go`: `TimeWheel.Add`, `TimeWheel.Close`, `TimeWheel.tick`
* `queue.go`: `Queue.dispatch` (the goroutine it starts, its deferred semaphore release /
  `deliveryWg.Done` / panic containment with `discardBroken`), the retry scheduling at the end of
  `tryDelivery` (`wheel.Add(nextTryTime, …)`) or the terminal `removeFromDisk`, the early `return`
  when `openMessage` fails (`acquireBad`; what the spool looks like is an oracle: `Who.tickBad`),
  `Queue.Close` (`wheel.Close(); deliveryWg.Wait()`); a panic inside the attempt itself (`Who.thrPanic`:
  the delivery target or a modifier panics) unwinds into the same deferred function: semaphore
  release, `deliveryWg.Done`, `recover()` → `discardBroken` (`panicRelease`, `discard`).

Every synchronisation operation of those functions is one step of one goroutine:
atomic load/store of `stopped`, `slotsLock.Lock` (may block), the critical section up to and
including `Unlock`, sends/receives on the unbuffered channels `updateNotify` / `stopNotify`
(rendezvous: one joint step of both parties), `close`, the buffered semaphore channel, the
`WaitGroup`, timer creation and expiry, `go`.  The schedule (which goroutine moves, which ready
`select` alternative is taken, how the clock advances, what an attempt decides) is an explicit
argument; theorems quantify over all of them.  Go's channel/mutex/atomic semantics are *defined*
here (trusted base).

`Variant.unfixed` is the shutdown handshake of the pinned tree (`Close` closes `updateNotify`, `Add`
ends in a plain send); `Variant.fixed` is the repaired one (`Close` closes a separate `done`
channel, `Add` ends in `select { case updateNotify <- t: case <-done: }`).  The unfixed variant is
kept to exhibit the defect; it mirrors the pinned code up to the first quarantine (`discard`): what
the real code does with an already quarantined or already removed entry afterwards (failed rename,
failed `openMessage`) is not modelled.
-/
namespace MaddyVerif.TimeWheel

inductive Variant | unfixed | fixed
deriving DecidableEq, Repr

/-- One `TimeSlot` in the wheel.  `req` identifies the `Add` call that created it, `msg` the spool
entry it belongs to, `budget` how many further retries the message may still schedule
(`max_tries` minus attempts so far; payload only, never inspected by the wheel).  `mem`: the
`queueSlot` carries the message itself (`queueDelivery.Commit`: `Meta`/`Hdr`/`Body` set), so
`Queue.dispatch` does not call `openMessage`; entries added by `readDiskQueue` and retries carry
only the id and the message is re-read from the spool when they are dispatched. -/
structure Slot where
  req : Nat
  msg : Nat
  time : Nat
  budget : Nat
  mem : Bool
deriving DecidableEq, Repr

/-- Who runs `Add`: a producer (`queueDelivery.Commit` / `readDiskQueue`, the panic escapes to the
caller) or the goroutine started by `Queue.dispatch` (panic recovered, message quarantined). -/
inductive Kind | producer | attempt
deriving DecidableEq, Repr

inductive Pc
  | acquire        -- q.deliverySemaphore <- struct{}{}
  | acquireBad     -- the same, and the `openMessage` that follows it is going to fail (meta-data
                   -- missing / unreadable / undecodable at that moment): `return` → deferred function
  | deliver        -- openMessage + tryDelivery up to the decision: terminal or retry
  | check          -- Add: atomic.LoadUint32(&tw.stopped)
  | lock           -- Add: tw.slotsLock.Lock()
  | push           -- Add: PushBack; Unlock   (holding the mutex)
  | send           -- Add: tw.updateNotify <- target   /  select { send; <-done }
  | release        -- deferred: <-q.deliverySemaphore; q.deliveryWg.Done()
  | panicRelease   -- the same deferred function, entered by a panic
  | discard        -- recover() != nil: q.discardBroken(id)
  | done
  | panicked       -- producer: the panic left Add
deriving DecidableEq, Repr

structure Thread where
  kind : Kind
  slot : Slot      -- acquire/deliver: the dispatched entry; check…send: the entry being added
  pc : Pc
deriving DecidableEq, Repr

inductive TickPc
  | top                                  -- now := time.Now()
  | scanLock                             -- tw.slotsLock.Lock()
  | scan                                 -- pick the closest entry; Unlock   (holding the mutex)
  | mkTimer (cur : Slot)                 -- time.NewTimer(cur.Time.Sub(now))
  | waitEmpty                            -- select { <-updateNotify; <-stopNotify }
  | waitTimer (cur : Slot) (deadline : Nat)  -- select { <-timer.C; <-updateNotify; <-stopNotify }
  | rmLock (cur : Slot)                  -- timer fired: Lock
  | rm (cur : Slot)                      -- Remove; Unlock   (holding the mutex)
  | dispatch (cur : Slot)                -- tw.dispatch(cur) = q.deliveryWg.Add(1); go func(){…}()
  | ack                                  -- tw.stopNotify <- struct{}{}
  | exited
deriving DecidableEq, Repr

inductive ClosePc
  | setStopped     -- atomic.StoreUint32(&tw.stopped, 1)
  | sendStop       -- tw.stopNotify <- struct{}{}
  | recvAck        -- <-tw.stopNotify
  | closeChan      -- tw.stopNotify = nil; close(tw.updateNotify) / close(tw.done)
  | wgWait         -- q.deliveryWg.Wait()
  | done
deriving DecidableEq, Repr

inductive Owner | tick | thr (i : Nat)
deriving DecidableEq, Repr

structure St where
  now : Nat
  stopped : Bool
  slots : List Slot
  mutex : Option Owner
  chanClosed : Bool          -- unfixed: updateNotify closed; fixed: done closed
  thr : List Thread
  closer : Option ClosePc    -- none: no shutdown in this scenario
  tick : TickPc
  tickNow : Nat              -- `now` of the current tick iteration
  wg : Nat                   -- deliveryWg counter
  semCap : Nat               -- cap(deliverySemaphore)
  semHeld : Nat              -- len(deliverySemaphore)
  nextReq : Nat
  crashed : Bool             -- "sync: negative WaitGroup counter"
  -- ghost (observation) state
  pushed : List Slot               -- entries put into the wheel, in order
  dispatched : List (Slot × Nat)   -- dispatch callbacks (entry, clock), in order
  broken : List Nat                -- messages whose .meta was renamed to .meta_broken
  removed : List Nat               -- messages removed from the spool (terminal outcome reached)
  tpanic : List Nat                -- messages one of whose attempts panicked inside the delivery (target / modifier bug)
deriving DecidableEq, Repr

/-- Scheduler choices.  `thr i c`: goroutine `i` takes its next step (`c` matters only at `deliver`:
`0` = terminal outcome, `d+1` = temporary failure, retry after `d`).  `tickTimer`, `tickUpd i`,
`tickStop`: the `select` alternative the tick goroutine takes (`tickUpd i` is the rendezvous with
goroutine `i` blocked in `Add`'s send, `tickStop` the one with `Close`).  `clock d`: time passes.  `thrPanic i`: the delivery
attempt of goroutine `i` panics (stage and panic value matter to the harness only).  `tickBad`: like `tick` at the hand-over
of an entry to `Queue.dispatch`, with the oracle answer "`openMessage` of this message fails". -/
inductive Who
  | thr (i : Nat) (choice : Nat)
  | closer
  | tick
  | tickBad      -- the tick goroutine's `dispatch` step of an entry whose message is not in memory,
                 -- in an environment where the spool entry cannot be opened until the attempt tried
  | thrPanic (i : Nat)   -- goroutine `i`, an attempt at `deliver`: the code it calls (delivery target, modifier)
                        -- panics somewhere in Start/AddRcpt/Body/Commit; the stack unwinds into the deferred function
  | tickTimer
  | tickUpd (i : Nat)
  | tickStop
  | clock (d : Nat)
deriving DecidableEq, Repr

/-- The loop in `tick`: first entry with the smallest time (strict `<` keeps the earlier one). -/
def closest : List Slot → Option Slot
  | [] => none
  | x :: xs =>
    match closest xs with
    | none => some x
    | some y => if y.time < x.time then some y else some x

/-- `Add` returns: a producer is finished, an attempt goroutine runs its deferred function. -/
def afterAdd : Kind → Pc
  | .producer => .done
  | .attempt => .release

/-- A panic leaves `Add`. -/
def afterPanic : Kind → Pc
  | .producer => .panicked
  | .attempt => .panicRelease

def setPc (s : St) (i : Nat) (t : Thread) (pc : Pc) : St :=
  { s with thr := s.thr.set i { t with pc := pc } }

def stepThr (v : Variant) (s : St) (i choice : Nat) : Option St :=
  match s.thr[i]? with
  | none => none
  | some t =>
    match t.pc with
    | .acquire =>
      if s.semHeld < s.semCap then
        some { s with semHeld := s.semHeld + 1, thr := s.thr.set i { t with pc := .deliver } }
      else none
    | .acquireBad =>
      -- semaphore taken, `openMessage` fails, "read message" is logged, `return`: the deferred
      -- function (registered right after the semaphore was taken) runs next
      if s.semHeld < s.semCap then
        some { s with semHeld := s.semHeld + 1, thr := s.thr.set i { t with pc := .release } }
      else none
    | .deliver =>
      match choice with
      | 0 => some { s with removed := t.slot.msg :: s.removed, thr := s.thr.set i { t with pc := .release } }
      | d + 1 =>
        if 0 < t.slot.budget then
          let retry : Slot := { req := s.nextReq, msg := t.slot.msg, time := s.now + d, budget := t.slot.budget - 1, mem := false }
          some { s with nextReq := s.nextReq + 1, thr := s.thr.set i { t with slot := retry, pc := .check } }
        else
          -- max_tries reached: the temporary failure is final
          some { s with removed := t.slot.msg :: s.removed, thr := s.thr.set i { t with pc := .release } }
    | .check =>
      if s.stopped then some (setPc s i t (afterAdd t.kind)) else some (setPc s i t .lock)
    | .lock =>
      match s.mutex with
      | none => some { s with mutex := some (.thr i), thr := s.thr.set i { t with pc := .push } }
      | some _ => none
    | .push =>
      some { s with mutex := none, slots := s.slots ++ [t.slot], pushed := s.pushed ++ [t.slot],
                    thr := s.thr.set i { t with pc := .send } }
    | .send =>
      -- alone the sender can only move once the channel Close closes is closed
      if s.chanClosed then
        match v with
        | .unfixed => some (setPc s i t (afterPanic t.kind))   -- send on closed channel
        | .fixed => some (setPc s i t (afterAdd t.kind))       -- case <-tw.done
      else none
    | .release =>
      if s.semHeld = 0 then none
      else if s.wg = 0 then   -- "sync: negative WaitGroup counter" kills the process
        some { s with crashed := true, semHeld := s.semHeld - 1, thr := s.thr.set i { t with pc := .panicked } }
      else some { s with semHeld := s.semHeld - 1, wg := s.wg - 1, thr := s.thr.set i { t with pc := .done } }
    | .panicRelease =>
      if s.semHeld = 0 then none
      else if s.wg = 0 then
        some { s with crashed := true, semHeld := s.semHeld - 1, thr := s.thr.set i { t with pc := .panicked } }
      else some { s with semHeld := s.semHeld - 1, wg := s.wg - 1, thr := s.thr.set i { t with pc := .discard } }
    | .discard =>
      some { s with broken := t.slot.msg :: s.broken, thr := s.thr.set i { t with pc := .done } }
    | .done => none
    | .panicked => none

/-- The delivery attempt of goroutine `i` panics (a fault of the code the queue calls, with panic
recovery active: `dontRecover = false`, the production default).  Nothing was decided: no retry, no
removal; the deferred function of `Queue.dispatch`'s goroutine runs next, entered by the panic. -/
def stepThrPanic (s : St) (i : Nat) : Option St :=
  match s.thr[i]? with
  | none => none
  | some t =>
    match t.pc with
    | .deliver => some { s with tpanic := t.slot.msg :: s.tpanic, thr := s.thr.set i { t with pc := .panicRelease } }
    | _ => none

def stepTick (s : St) : Option St :=
  match s.tick with
  | .top => some { s with tickNow := s.now, tick := .scanLock }
  | .scanLock =>
    match s.mutex with
    | none => some { s with mutex := some .tick, tick := .scan }
    | some _ => none
  | .scan =>
    match closest s.slots with
    | none => some { s with mutex := none, tick := .waitEmpty }
    | some cur => some { s with mutex := none, tick := .mkTimer cur }
  | .mkTimer cur => some { s with tick := .waitTimer cur (s.now + (cur.time - s.tickNow)) }
  | .waitEmpty => none
  | .waitTimer _ _ => none
  | .rmLock cur =>
    match s.mutex with
    | none => some { s with mutex := some .tick, tick := .rm cur }
    | some _ => none
  | .rm cur => some { s with mutex := none, slots := s.slots.erase cur, tick := .dispatch cur }
  | .dispatch cur =>
    some { s with wg := s.wg + 1, thr := s.thr ++ [{ kind := .attempt, slot := cur, pc := .acquire }],
                  dispatched := s.dispatched ++ [(cur, s.now)], tick := .top }
  | .ack =>
    match s.closer with
    | some .recvAck => some { s with tick := .exited, closer := some .closeChan }
    | _ => none
  | .exited => none

/-- `tw.dispatch(cur)` for an entry that has to be re-read from the spool, which will fail. -/
def stepTickBad (s : St) : Option St :=
  match s.tick with
  | .dispatch cur =>
    if cur.mem then none
    else
      some { s with wg := s.wg + 1, thr := s.thr ++ [{ kind := .attempt, slot := cur, pc := .acquireBad }],
                    dispatched := s.dispatched ++ [(cur, s.now)], tick := .top }
  | _ => none

def stepTickTimer (s : St) : Option St :=
  match s.tick with
  | .waitTimer cur dl => if dl ≤ s.now then some { s with tick := .rmLock cur } else none
  | _ => none

def stepTickUpd (s : St) (i : Nat) : Option St :=
  match s.thr[i]? with
  | none => none
  | some t =>
    match t.pc with
    | .send =>
      match s.tick with
      | .waitEmpty => some { s with tick := .top, thr := s.thr.set i { t with pc := afterAdd t.kind } }
      | .waitTimer cur _ =>
        if cur.time ≤ t.slot.time then
          some { s with thr := s.thr.set i { t with pc := afterAdd t.kind } }
        else
          some { s with tick := .top, thr := s.thr.set i { t with pc := afterAdd t.kind } }
      | _ => none
    | _ => none

def stepTickStop (s : St) : Option St :=
  match s.closer with
  | some .sendStop =>
    match s.tick with
    | .waitEmpty => some { s with tick := .ack, closer := some .recvAck }
    | .waitTimer _ _ => some { s with tick := .ack, closer := some .recvAck }
    | _ => none
  | _ => none

def stepCloser (s : St) : Option St :=
  match s.closer with
  | some .setStopped => some { s with stopped := true, closer := some .sendStop }
  | some .closeChan => some { s with chanClosed := true, closer := some .wgWait }
  | some .wgWait => if s.wg = 0 then some { s with closer := some .done } else none
  | _ => none

def step (v : Variant) (s : St) : Who → Option St
  | .thr i c => stepThr v s i c
  | .thrPanic i => stepThrPanic s i
  | .closer => stepCloser s
  | .tick => stepTick s
  | .tickBad => stepTickBad s
  | .tickTimer => stepTickTimer s
  | .tickUpd i => stepTickUpd s i
  | .tickStop => stepTickStop s
  | .clock d => some { s with now := s.now + d }

/-- Run a schedule; a choice that is not enabled (blocked or finished goroutine) is skipped. -/
def run (v : Variant) (s : St) : List Who → St
  | [] => s
  | w :: ws => run v ((step v s w).getD s) ws

/-- Producers: `(time, budget)` of the entry each one adds; message and request ids are the
positions (`k`, `k+1`, …).  Time `0` is `queueDelivery.Commit` (`Add(time.Time{}, …)` with the message
in memory), a positive time is `readDiskQueue` (id only). -/
def mkProducers (k : Nat) : List (Nat × Nat) → List Thread
  | [] => []
  | (t, b) :: rest =>
    { kind := .producer, slot := { req := k, msg := k, time := t, budget := b, mem := t == 0 }, pc := .check }
      :: mkProducers (k + 1) rest

/-- Freshly started queue: tick goroutine at the top of its loop, `prods` producers about to call
`Add`, optionally one `Queue.Close` call, semaphore capacity `cap`. -/
def init (cap : Nat) (prods : List (Nat × Nat)) (withClose : Bool) : St :=
  { now := 0, stopped := false, slots := [], mutex := none, chanClosed := false,
    thr := mkProducers 0 prods,
    closer := if withClose then some .setStopped else none,
    tick := .top, tickNow := 0, wg := 0, semCap := cap, semHeld := 0,
    nextReq := prods.length, crashed := false,
    pushed := [], dispatched := [], broken := [], removed := [], tpanic := [] }

end MaddyVerif.TimeWheel
