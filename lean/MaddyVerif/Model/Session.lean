/-
Model of one SMTP/LMTP connection of maddy's endpoint (core Lean only).  Mirrored Go code (after the
`fix:` commits listed in notes/C03.md):

* go-smtp fork, `conn.go`: `handle`, `handleGreet`, `handleMail`, `handleRcpt`, `handleData`,
  `handleDataLMTP`, `handleBdat`, `handleAuth`, `protocolError`, `reset`, `Close`, the LMTP
  `statusCollector` (`SetStatus`, `fillRemaining`) — as the function "which Session callbacks a command
  triggers and which replies are written";
* `internal/endpoint/smtp/smtp.go`: `NewSession`; `session.go`: `Mail`, `Rcpt`, `rcpt`, `startDelivery`,
  `Data`, `LMTPData`, `statusWrapper.SetStatus`, `Reset`, `Logout`, `abort`, `cleanSession`, `releaseLimits`;
* `internal/msgpipeline/msgpipeline.go`: `Start`/`start`, `AddRcpt`, `getDelivery`, `Body`, `BodyNonAtomic`,
  `Commit`, `Abort` (one global check, one global modifier — which may rewrite recipients, see `rewriteRcpt` —,
  per-domain destination blocks; one-to-many modifiers at the global / source / destination stage: `xAddRcpt`);
* `internal/limits/limits.go`: `TakeMsg` / `ReleaseMsg` as counters per source key; the order of the scopes and
  the roll-back of `TakeMsg` (`takeMsg`, `releaseMsg`).

Everything outside is a parameter: every target / check / modifier operation takes its result from the
fault fields carried by the command tokens (`MailF`, `RcptF`, `DataF`); the iteration order of Go's
`map[DeliveryTarget]*delivery` in the fan-outs is an oracle (`St.oracle`, one segment per fan-out).
Go panics are explicit (`St.panics`, reply 421, connection closed).
-/
namespace MaddyVerif.Session

inductive Cls | temp | perm
deriving DecidableEq, Repr

/-- reply code of an injected failure: class digit and a two-digit stage number -/
def Cls.code : Cls → Nat → Nat
  | .temp, stage => 400 + stage
  | .perm, stage => 500 + stage

inductive MKind | ascii | upper | null | syntax | nonAscii | utf8 | param | size
deriving DecidableEq, Repr

/-- MAIL token: sender variant and the faults that key on the sender (check connection / sender, modifier
init / sender rewrite, per-target Start / Commit / Abort failure masks). -/
structure MailF where
  kind : MKind
  cls : Cls
  fConn : Bool
  fSender : Bool
  fInit : Bool
  fRewrite : Bool
  sMask : Nat
  cMask : Nat
  aMask : Nat
deriving DecidableEq, Repr

def MailF.null : MailF := ⟨.null, .perm, false, false, false, false, 0, 0, 0⟩

inductive RVar | plain | upper | syntax | nonAscii
deriving DecidableEq, Repr

/-- RCPT token. `uid` stands for the address string (two tokens with the same `uid` are the same address),
`id` is what the target log prints, `dom` selects the destination block. -/
structure RcptF where
  uid : Nat
  id : Nat
  dom : Nat
  var : RVar
  cls : Cls
  fCheck : Bool
  fMod : Bool
  mask : Nat
deriving DecidableEq, Repr

inductive DKind | plain | loop | bigHeader | truncated | withArg
deriving DecidableEq, Repr

/-- DATA / BDAT token: message variant and body-stage faults (check, modifier, per-target Body mask, ids
of the recipients refused by partial targets). -/
structure DataF where
  kind : DKind
  cls : Cls
  fCheck : Bool
  fMod : Bool
  bMask : Nat
  pIds : List Nat
deriving DecidableEq, Repr

def DataF.tail : DataF := ⟨.plain, .perm, false, false, 0, []⟩

inductive Tok
  | greet | helo | greetWrong | greetNoArg
  | noop | rset | unknown | vrfy | quit | drop
  | authGood | authBad | bdatNoArg
  | mail (f : MailF)
  | rcpt (f : RcptF)
  | data (f : DataF)
  | bdat (last : Bool) (f : DataF)
deriving DecidableEq, Repr

structure Cfg where
  lmtp : Bool
  deferred : Bool
  nT : Nat
  partialMask : Nat
  routes : Nat → Nat      -- destination domain ↦ target mask (0 = `reject`)

/-- calls seen by one delivery object of a scripted target -/
inductive Ev
  | rcpt (uid id : Nat) (ok : Bool)
  | body (ok : Bool)
  | bodyNA (st : List (Nat × Nat × Bool))     -- per recipient (uid, id, accepted)
  | commit (ok : Bool)
  | abort (ok : Bool)
deriving DecidableEq, Repr

def Ev.isClose : Ev → Bool
  | .commit _ => true
  | .abort _ => true
  | _ => false

structure TDel where
  tgt : Nat
  evs : List Ev
deriving DecidableEq, Repr

abbrev Log := List TDel

def addEv (log : Log) (i : Nat) (e : Ev) : Log :=
  log.modify i (fun d => { d with evs := d.evs ++ [e] })

/-- `delivery` of msgpipeline: one per target that was started for this transaction -/
structure DEntry where
  tgt : Nat
  idx : Nat                  -- position of the target's delivery object in the log
  rcpts : List (Nat × Nat)   -- `delivery.recipients` as (uid, id), in AddRcpt order
  failed : Bool              -- `bodyFailed`
deriving DecidableEq, Repr

/-- `msgpipelineDelivery` -/
structure PDel where
  mail : MailF
  ents : List DEntry
deriving DecidableEq, Repr

/-- maddy `Session` (the fields of the current message) -/
structure Sess where
  mail : MailF := MailF.null        -- `mailFrom` / `opts`
  delivery : Option PDel := none
  deliveryErr : Option Nat := none
  keys : List Nat := []             -- `rcptKeys`: accepted addresses, with multiplicity
deriving Repr

inductive SrcKey | src | null
deriving DecidableEq, Repr

def MailF.key (m : MailF) : SrcKey := if m.kind = .null then .null else .src

/-- the maddy session of the connection and the world it acts on (target log, permits, panics, oracle) -/
structure World where
  sess : Sess := {}
  log : Log := []
  heldSrc : Nat := 0
  heldNull : Nat := 0
  panics : Nat := 0
  oracle : List (List Nat) := []
deriving Repr

/-- go-smtp `Conn` + the session it owns -/
structure St where
  helo : Bool := false              -- a session exists
  didAuth : Bool := false
  fromReceived : Bool := false
  rcpts : List RcptF := []          -- `c.recipients`
  bdat : Option DataF := none       -- a Data goroutine is running (message of the opening chunk)
  errCount : Nat := 0
  closed : Bool := false
  w : World := {}
deriving Repr

/-- what the client reads for one token -/
inductive Out
  | codes (l : List Nat)
  | skipped                 -- the harness does not send BDAT when no recipient was accepted
deriving DecidableEq, Repr

/-! ### limits -/

def take (st : World) (k : SrcKey) : World :=
  match k with
  | .src => { st with heldSrc := st.heldSrc + 1 }
  | .null => { st with heldNull := st.heldNull + 1 }

/-- `ReleaseMsg`; releasing a permit that is not held is Go's "mismatched Release" panic -/
def release (st : World) (k : SrcKey) : World :=
  match k with
  | .src => if st.heldSrc = 0 then { st with panics := st.panics + 1 } else { st with heldSrc := st.heldSrc - 1 }
  | .null => if st.heldNull = 0 then { st with panics := st.panics + 1 } else { st with heldNull := st.heldNull - 1 }

/-- Permits out in one scope of the limits group, summed over its keys.  `TakeMsg` / `ReleaseMsg` move the
`all`, `ip` and `source` scopes together (one permit each); the `ip` key is a function of the peer address
of the connection, which does not change, so `startDelivery` and `releaseLimits` name the same bucket.  Each
configured scope therefore holds the sum over the source keys (harness: `held=` read from the real limiter
state, every bucket that exists). -/
def World.heldTotal (w : World) : Nat := w.heldSrc + w.heldNull

/-! ### `limits.Group.TakeMsg` / `ReleaseMsg` across the scopes

`TakeMsg` takes `all`, then `ip`, then `source`; a scope that cannot be granted before the deadline makes it
fail and the scopes taken before are given back.  Whether a scope grants (a permit is free, or becomes free
in time) is a parameter. -/

inductive Scope | all | ip | source
deriving DecidableEq, Repr

/-- successful `Take` calls not yet followed by `Release`, per scope -/
structure Held where
  all : Nat := 0
  ip : Nat := 0
  source : Nat := 0
deriving DecidableEq, Repr

/-- `Group.TakeMsg`; `has` = the keyed scope is configured (`g.ip != nil`, `g.source != nil`) -/
def takeMsg (has granted : Scope → Bool) (h : Held) : Held × Bool :=
  if !granted .all then (h, false) else
  let h1 : Held := { h with all := h.all + 1 }
  if has .ip && !granted .ip then ({ h1 with all := h1.all - 1 }, false) else
  let h2 : Held := if has .ip then { h1 with ip := h1.ip + 1 } else h1
  if has .source && !granted .source then
    ({ h2 with all := h2.all - 1, ip := if has .ip then h2.ip - 1 else h2.ip }, false)
  else
    (if has .source then { h2 with source := h2.source + 1 } else h2, true)

/-- `Group.ReleaseMsg` -/
def releaseMsg (has : Scope → Bool) (h : Held) : Held :=
  { all := h.all - 1,
    ip := if has .ip then h.ip - 1 else h.ip,
    source := if has .source then h.source - 1 else h.source }

/-- One session keeps a transaction open (it was granted every scope); `k` further sessions start one while
the scope `tight` cannot be granted: reply code of each (`451` = refused) and the permits out afterwards. -/
def contend (has : Scope → Bool) (tight : Scope) : Nat → Held → List Nat × Held
  | 0, h => ([], h)
  | k + 1, h =>
    let (h', ok) := takeMsg has (fun s => s != tight) h
    let (codes, h'') := contend has tight k h'
    ((if ok then 250 else 451) :: codes, h'')

/-! ### msgpipeline -/

/-- order of one fan-out over `dd.deliveries`: the targets named by the oracle segment first (in that
order), then the rest -/
def orderBy : List Nat → List DEntry → List DEntry
  | [], ents => ents
  | k :: seg, ents => ents.filter (fun e => e.tgt == k) ++ orderBy seg (ents.filter (fun e => !(e.tgt == k)))

/-- take the oracle segment of a fan-out (none is consumed when there is nothing to iterate over) -/
def nextOrder (st : World) (ents : List DEntry) : World × List DEntry :=
  if ents.isEmpty then (st, []) else
  match st.oracle with
  | [] => (st, ents)
  | seg :: rest => ({ st with oracle := rest }, orderBy seg ents)

/-- `MsgPipeline.Start`: connection and sender checks, global modifiers -/
def pStart (m : MailF) : Option Nat :=
  if m.fConn then some (m.cls.code 11)
  else if m.fSender then some (m.cls.code 12)
  else if m.fInit then some (m.cls.code 13)
  else if m.fRewrite then some (m.cls.code 14)
  else none

/-- the per-target loop of `AddRcpt` (`getDelivery` + `delivery.AddRcpt`) over the targets of the block -/
def addTargets (m : MailF) (r : RcptF) : List Nat → List DEntry → Log → List DEntry × Log × Option Nat
  | [], ents, log => (ents, log, none)
  | k :: ks, ents, log =>
    match ents.find? (fun e => e.tgt == k) with
    | some e =>
      if r.mask.testBit k then
        (ents, addEv log e.idx (.rcpt r.uid r.id false), some (r.cls.code (40 + k)))
      else
        let ents' := ents.map (fun x => if x.idx == e.idx then { x with rcpts := x.rcpts ++ [(r.uid, r.id)] } else x)
        addTargets m r ks ents' (addEv log e.idx (.rcpt r.uid r.id true))
    | none =>
      if m.sMask.testBit k then (ents, log, some (m.cls.code (30 + k)))
      else
        let idx := log.length
        let log' := log ++ [⟨k, []⟩]
        if r.mask.testBit k then
          (ents ++ [⟨k, idx, [], false⟩], addEv log' idx (.rcpt r.uid r.id false), some (r.cls.code (40 + k)))
        else
          addTargets m r ks (ents ++ [⟨k, idx, [(r.uid, r.id)], false⟩]) (addEv log' idx (.rcpt r.uid r.id true))

def targetsOf (cfg : Cfg) (mask : Nat) : List Nat :=
  (List.range cfg.nT).filter (fun k => mask.testBit k)

/-- `msgpipelineDelivery.AddRcpt` -/
def pAddRcpt (cfg : Cfg) (pd : PDel) (r : RcptF) (log : Log) : PDel × Log × Option Nat :=
  -- the check runner asks a check about an address once per message and repeats its decision for a
  -- repeated RCPT TO (the same address carries the same fault fields)
  if r.fCheck then (pd, log, some (r.cls.code 21))
  else if r.fMod then (pd, log, some (r.cls.code 22))
  else if r.dom ≥ 3 then (pd, log, some 557)
  else if targetsOf cfg (cfg.routes r.dom) = [] then (pd, log, some 556)
  else
    let (ents, log', err) := addTargets pd.mail r (targetsOf cfg (cfg.routes r.dom)) pd.ents log
    ({ pd with ents := ents }, log', err)

/-- the loop of `Body` over the deliveries: stops at the first failure -/
def bodyAll (f : DataF) : List DEntry → Log → Log × Option Nat
  | [], log => (log, none)
  | e :: es, log =>
    if f.bMask.testBit e.tgt then (addEv log e.idx (.body false), some (f.cls.code (60 + e.tgt)))
    else bodyAll f es (addEv log e.idx (.body true))

/-- `msgpipelineDelivery.Body` -/
def pBody (f : DataF) (pd : PDel) (st : World) : World × Option Nat :=
  if f.fCheck then (st, some (f.cls.code 81))
  else if f.fMod then (st, some (f.cls.code 82))
  else
    let (st1, ord) := nextOrder st pd.ents
    let (log, err) := bodyAll f ord st1.log
    ({ st1 with log := log }, err)

/-- the loop of `Commit`: after the first failure (and for deliveries without a body) Abort instead -/
def commitAll (m : MailF) : List DEntry → Option Nat → Log → Log × Option Nat
  | [], err, log => (log, err)
  | e :: es, err, log =>
    if err.isSome || e.failed then
      commitAll m es err (addEv log e.idx (.abort (!m.aMask.testBit e.tgt)))
    else if m.cMask.testBit e.tgt then
      commitAll m es (some (m.cls.code (70 + e.tgt))) (addEv log e.idx (.commit false))
    else
      commitAll m es none (addEv log e.idx (.commit true))

/-- `msgpipelineDelivery.Commit` -/
def pCommit (pd : PDel) (st : World) : World × Option Nat :=
  let (st1, ord) := nextOrder st pd.ents
  let (log, err) := commitAll pd.mail ord none st1.log
  ({ st1 with log := log }, err)

def abortAll (m : MailF) : List DEntry → Log → Log
  | [], log => log
  | e :: es, log => abortAll m es (addEv log e.idx (.abort (!m.aMask.testBit e.tgt)))

/-- `msgpipelineDelivery.Abort` -/
def pAbort (pd : PDel) (st : World) : World :=
  let (st1, ord) := nextOrder st pd.ents
  { st1 with log := abortAll pd.mail ord st1.log }

/-! ### recipient rewriting

`AddRcpt` passes the RCPT TO argument through the global modifier (`RewriteRcpt`) before it looks for the
destination block; the targets are given the EFFECTIVE address, `delivery.recipients` and every status the
pipeline generates itself (`setStatusAll`, `Body` failure of a target without per-recipient results) keep the
ORIGINAL one.  In the model `RcptF.uid` is the RCPT TO argument — the key of go-smtp's status collector, of
`rcptKeys` and of `DEntry.rcpts` — and `RcptF.dom` the domain of the effective address.  A rewrite table
(RCPT TO argument ↦ domain of the effective address, `none` = not rewritten) turns the recipients as the client
sent them into the recipients the model runs on; nothing is assumed about the table (chains `a → b` with `b`
supplied too, several aliases of one mailbox, an alias together with its own rewriting result).  Statuses of
targets that report per recipient come back under the effective address and are translated through a map keyed
by it: the model files them under the recipient they were reported for, which is what the code does as long as
no two different RCPT TO arguments of one transaction share an effective address on such a target (otherwise:
known finding KF-C09-1, not generated by the C03 harness). -/

def rewriteRcpt (rw : Nat → Option Nat) (r : RcptF) : RcptF :=
  match rw r.uid with
  | some d => { r with dom := d }
  | none => r

def rewriteTok (rw : Nat → Option Nat) : Tok → Tok
  | .rcpt r => .rcpt (rewriteRcpt rw r)
  | t => t

/-! ### LMTP statuses -/

/-- `statusWrapper.SetStatus` for a failure: forwarded to go-smtp while an RCPT TO with this address has
no status yet -/
def fwd (ks : List Nat × List (Nat × Nat)) (uid code : Nat) : List Nat × List (Nat × Nat) :=
  if uid ∈ ks.1 then (ks.1.erase uid, ks.2 ++ [(uid, code)]) else ks

def fwdAll (ks : List Nat × List (Nat × Nat)) (code : Nat) : List (Nat × Nat) → List Nat × List (Nat × Nat)
  | [] => ks
  | (uid, _) :: rest => fwdAll (fwd ks uid code) code rest

def isPartial (cfg : Cfg) (k : Nat) : Bool := cfg.partialMask.testBit k

def refusedBy (f : DataF) (k id : Nat) : Bool := f.bMask.testBit k || f.pIds.contains id

def fwdPartial (f : DataF) (k : Nat) (ks : List Nat × List (Nat × Nat)) : List (Nat × Nat) → List Nat × List (Nat × Nat)
  | [] => ks
  | (uid, id) :: rest =>
    fwdPartial f k (if refusedBy f k id then fwd ks uid (f.cls.code (64 + k)) else ks) rest

/-- the delivery loop of `BodyNonAtomic` -/
def bodyNAAll (cfg : Cfg) (f : DataF) : List DEntry → Log → (List Nat × List (Nat × Nat)) → List Nat →
    Log × (List Nat × List (Nat × Nat)) × List Nat
  | [], log, ks, failed => (log, ks, failed)
  | e :: es, log, ks, failed =>
    if isPartial cfg e.tgt then
      let st := e.rcpts.map (fun p => (p.1, p.2, !refusedBy f e.tgt p.2))
      bodyNAAll cfg f es (addEv log e.idx (.bodyNA st)) (fwdPartial f e.tgt ks e.rcpts) failed
    else if f.bMask.testBit e.tgt then
      bodyNAAll cfg f es (addEv log e.idx (.body false)) (fwdAll ks (f.cls.code (60 + e.tgt)) e.rcpts) (e.idx :: failed)
    else
      bodyNAAll cfg f es (addEv log e.idx (.body true)) ks failed

def markFailed (failed : List Nat) (ents : List DEntry) : List DEntry :=
  ents.map (fun e => if failed.contains e.idx then { e with failed := true } else e)

def setStatusAll (code : Nat) : List DEntry → (List Nat × List (Nat × Nat)) → List Nat × List (Nat × Nat)
  | [], ks => ks
  | e :: es, ks => setStatusAll code es (fwdAll ks code e.rcpts)

/-- `msgpipelineDelivery.BodyNonAtomic` through the endpoint's status wrapper: returns the pipeline
delivery (with `bodyFailed` marks) and the statuses handed to go-smtp, in order -/
def pBodyNA (cfg : Cfg) (f : DataF) (pd : PDel) (keys : List Nat) (st : World) : World × PDel × List (Nat × Nat) :=
  if f.fCheck || f.fMod then
    let code := if f.fCheck then f.cls.code 81 else f.cls.code 82
    (st, { pd with ents := pd.ents.map (fun e => { e with failed := true }) },
      (setStatusAll code pd.ents (keys, [])).2)
  else
    let (st1, ord) := nextOrder st pd.ents
    let (log, ks, failed) := bodyNAAll cfg f ord st1.log (keys, []) []
    ({ st1 with log := log }, { pd with ents := markFailed failed pd.ents }, ks.2)

/-- go-smtp: one reply per recipient, in order; each address has a FIFO of statuses, an address without
a status left gets the result of LMTPData -/
def lmtpReplies : List Nat → List (Nat × Nat) → Nat → List Nat
  | [], _, _ => []
  | u :: rest, sts, fill =>
    match sts.find? (fun s => s.1 == u) with
    | some s => s.2 :: lmtpReplies rest (sts.erase s) fill
    | none => fill :: lmtpReplies rest sts fill

/-! ### maddy Session -/

/-- `cleanSession` -/
def cleanSession (st : World) : World :=
  let st1 := release st st.sess.mail.key
  { st1 with sess := {} }

/-- `abort`: `delivery.Abort`, then `cleanSession` -/
def sessAbort (st : World) (pd : PDel) : World :=
  cleanSession (pAbort pd st)

/-- `Session.Reset`: aborts the open delivery; the failure kept for a deferred MAIL (`deliveryErr`, kept without an
open delivery) belongs to the transaction that ends here (fix c94200c) -/
def sessReset (st : World) : World :=
  match st.sess.delivery with
  | some pd => sessAbort st pd
  | none => { st with sess := { st.sess with deliveryErr := none } }

/-- `startDelivery`: on success the session owns a fresh pipeline delivery -/
def startDelivery (st : World) (m : MailF) : World × Option Nat :=
  if m.kind = .nonAscii then (st, some 550)
  else
    let st1 := take st m.key
    match pStart m with
    | some c => (release st1 m.key, some c)
    | none => ({ st1 with sess := { st1.sess with mail := m, delivery := some ⟨m, []⟩ } }, none)

/-- `Session.Mail` -/
def sessMail (cfg : Cfg) (st : World) (m : MailF) : World × Option Nat :=
  if st.sess.delivery.isSome then (st, some 503)
  else if !cfg.deferred then startDelivery st m
  -- deferred: keep the argument; a failure kept for an earlier MAIL command is dropped (fix c94200c)
  else ({ st with sess := { st.sess with mail := m, deliveryErr := none } }, none)

/-- `Session.rcpt` + the bookkeeping of accepted recipients, on the open pipeline delivery `pd` -/
def sessRcptOn (cfg : Cfg) (st : World) (pd : PDel) (r : RcptF) : World × Option Nat :=
  if r.var = .nonAscii && st.sess.mail.kind ≠ .utf8 then (st, some 553)
  else
    let (pd', log', err) := pAddRcpt cfg pd r st.log
    let st2 := { st with log := log', sess := { st.sess with delivery := some pd' } }
    match err with
    | some c => (st2, some c)
    | none => ({ st2 with sess := { st2.sess with keys := st2.sess.keys ++ [r.uid] } }, none)

/-- `Session.Rcpt` -/
def sessRcpt (cfg : Cfg) (st : World) (r : RcptF) : World × Option Nat :=
  match st.sess.delivery with
  | some pd => sessRcptOn cfg st pd r
  | none =>
    match st.sess.deliveryErr with
    | some c => (st, some c)
    | none =>
      match startDelivery st st.sess.mail with
      | (st1, some c) => ({ st1 with sess := { st1.sess with deliveryErr := some c } }, some c)
      | (st1, none) => sessRcptOn cfg st1 ⟨st.sess.mail, []⟩ r

/-- result of `Data` / `LMTPData`: error (if any) and the statuses set for LMTP recipients -/
structure DataRes where
  err : Option Nat
  sts : List (Nat × Nat) := []
  panicked : Bool := false

/-- `Session.Data`, message fully read (kind plain / loop / bigHeader) -/
def sessData (st : World) (f : DataF) : World × DataRes :=
  match st.sess.delivery with
  | none => ({ st with panics := st.panics + 1 }, { err := some 421, panicked := true })   -- nil msgCtx
  | some pd =>
    if f.kind = .bigHeader then (st, { err := some 552 })
    else if f.kind = .truncated then (st, { err := some 554 })
    else if f.kind = .loop then (st, { err := some 554 })
    else
      match pBody f pd st with
      | (st1, some c) => (st1, { err := some c })
      | (st1, none) =>
        let (st2, err) := pCommit pd st1
        (cleanSession st2, { err := err })

/-- `Session.LMTPData` -/
def sessLMTPData (cfg : Cfg) (st : World) (f : DataF) : World × DataRes :=
  match st.sess.delivery with
  | none => ({ st with panics := st.panics + 1 }, { err := some 421, panicked := true })
  | some pd =>
    if f.kind = .bigHeader then (st, { err := some 552 })
    else if f.kind = .truncated then (st, { err := some 554 })
    else if f.kind = .loop then (st, { err := some 554 })
    else
      let (st1, pd1, sts) := pBodyNA cfg f pd st.sess.keys st
      let (st2, err) := pCommit pd1 st1
      (cleanSession st2, { err := err, sts := sts })

/-- `Session.Logout` -/
def sessLogout (st : World) : World :=
  match st.sess.delivery with
  | some pd => sessAbort st pd
  | none => st

/-! ### go-smtp connection -/

/-- `Conn.reset` -/
def connReset (st : St) : St :=
  { st with bdat := none, w := if st.helo then sessReset st.w else st.w, fromReceived := false, rcpts := [] }

/-- `Conn.Close` -/
def connClose (st : St) : St :=
  { st with bdat := none, w := if st.helo then sessLogout st.w else st.w, helo := false, closed := true }

def okCode (e : Option Nat) : Nat := e.getD 250

/-- run the backend's Data callback for message `f` and produce the final replies (`handleData` after the
354, `handleDataLMTP`, the LAST chunk of `handleBdat`), then `reset`; a panic closes the connection -/
def runData (cfg : Cfg) (st : St) (f : DataF) : St × List Nat :=
  if cfg.lmtp then
    let (w1, res) := sessLMTPData cfg st.w f
    let replies := lmtpReplies (st.rcpts.map (·.uid)) res.sts (okCode res.err)
    let st1 := { st with w := w1 }
    if res.panicked then (connReset (connClose st1), replies) else (connReset st1, replies)
  else
    let (w1, res) := sessData st.w f
    let st1 := { st with w := w1 }
    if res.panicked then (connReset (connClose st1), [okCode res.err]) else (connReset st1, [okCode res.err])

def protocolError (st : St) (code : Nat) : St × Out :=
  let st1 := { st with errCount := st.errCount + 1 }
  if st1.errCount > 3 then (connClose st1, .codes [code, 500]) else (st1, .codes [code])

def one (st : St) (c : Nat) : St × Out := (st, .codes [c])

/-- `Conn.handle` for one command token (and the data that follows DATA / BDAT) -/
def step (cfg : Cfg) (st : St) (t : Tok) : St × Out :=
  if st.closed then (st, .codes []) else
  match t with
  | .greet => one { st with helo := true } 250      -- NewSession keeps an existing session
  | .helo => if cfg.lmtp then one st 500 else one { st with helo := true } 250
  | .greetWrong => one st 500
  | .greetNoArg => one st 501
  | .noop => one st 250
  | .vrfy => one st 252
  | .rset => one (connReset st) 250
  | .unknown => protocolError st 500
  | .quit => (connClose st, .codes [221])
  | .drop => (connClose st, .codes [])
  | .authGood =>
    if !st.helo then one st 502 else if st.didAuth then one st 503 else one { st with didAuth := true } 235
  | .authBad =>
    if !st.helo then one st 502 else if st.didAuth then one st 503 else one st 454
  | .bdatNoArg => one st 501
  | .mail m =>
    if !st.helo then one st 502
    else if st.bdat.isSome then one st 502
    else if m.kind = .syntax then one st 501
    else if m.kind = .param then one st 500
    else if m.kind = .size then one st 552
    else
      match sessMail cfg st.w m with
      | (w1, some c) => one { st with w := w1 } c
      | (w1, none) => one { st with w := w1, fromReceived := true } 250
  | .rcpt r =>
    if !st.fromReceived then one st 502
    else if st.bdat.isSome then one st 502
    else if r.var = .syntax then one st 501
    else
      match sessRcpt cfg st.w r with
      | (w1, some c) => one { st with w := w1 } c
      | (w1, none) => one { st with w := w1, rcpts := st.rcpts ++ [r] } 250
  | .data f =>
    if f.kind = .withArg then one st 501
    else if st.bdat.isSome then one st 502
    else if !st.fromReceived || st.rcpts.isEmpty then one st 502
    else if f.kind = .truncated then
      -- the client goes away in the middle of the message: prepareBody fails, reset, then Close
      (connClose (connReset st), .codes [354])
    else
      let (st1, replies) := runData cfg st f
      (st1, .codes (354 :: replies))
  | .bdat last f =>
    if !st.fromReceived || st.rcpts.isEmpty then (st, .skipped)
    else
      match st.bdat with
      | none =>
        if f.kind = .bigHeader then
          -- the Data goroutine fails while the chunk is being copied: one reply, reset
          one (connReset st) 552
        else if last then
          let (st1, replies) := runData cfg st f
          (st1, .codes replies)
        else one { st with bdat := some f } 250
      | some f0 =>
        if last then
          let (st1, replies) := runData cfg { st with bdat := none } f0
          (st1, .codes replies)
        else one st 250

/-- a whole session: the tokens, then the connection goes away -/
def run (cfg : Cfg) : St → List Tok → St × List Out
  | st, [] => (if st.closed then st else connClose st, [])
  | st, t :: ts =>
    let (st1, o) := step cfg st t
    let (st2, os) := run cfg st1 ts
    (st2, o :: os)


/-! ## Bucket tables of the keyed limit scopes, as the sessions of one endpoint use them

Mirrors `limiters.BucketSet.take` / `untake` / `Release` (internal/limits/limiters/bucket.go) under
`limits.Group.TakeMsg` / `ReleaseMsg` for limiters that never block (the harness gives every semaphore more permits
than there are sessions): a bucket per key with its `users` count (= permits of its limiters that are out) and its
age in units of virtual time; a `take` that finds the table over `maxB` first drops every bucket nobody uses
and that is older than `reap`, and fails (ErrBucketSetFull) if the table is still over `maxB`. -/

structure Bk where
  key : Nat
  users : Nat
  age : Nat
deriving Repr, DecidableEq

structure BSet where
  on : Bool
  maxB : Nat
  reap : Nat
  m : List Bk := []
deriving Repr

def Bk.stale (reap : Nat) (b : Bk) : Bool := b.users == 0 && decide (reap < b.age)

/-- the bucket of key `k` gets one more user (and is fresh again); a key without a bucket gets a new one -/
def bkTouch (k : Nat) : List Bk → List Bk
  | [] => [⟨k, 1, 0⟩]
  | b :: bs => if b.key = k then { b with users := b.users + 1, age := 0 } :: bs else b :: bkTouch k bs

/-- `BucketSet.Release`: the bucket of key `k` (if there is one) loses a user; `true` = its limiter had no
permit out (`Semaphore.Release` panics: "mismatched Release call") -/
def bkDrop (k : Nat) : List Bk → List Bk × Bool
  | [] => ([], false)
  | b :: bs =>
    if b.key = k then ({ b with users := b.users - 1 } :: bs, b.users == 0)
    else ((b :: (bkDrop k bs).1), (bkDrop k bs).2)

/-- `BucketSet.TakeContext` with limiters that grant at once; `false` = ErrBucketSetFull (the reap pass has run) -/
def BSet.take (t : BSet) (k : Nat) : BSet × Bool :=
  if !t.on then (t, true) else
  let m := if t.maxB < t.m.length then t.m.filter (fun b => !b.stale t.reap) else t.m
  if t.maxB < m.length then ({ t with m := m }, false)
  else ({ t with m := bkTouch k m }, true)

def BSet.release (t : BSet) (k : Nat) : BSet × Bool :=
  if !t.on then (t, false) else ({ t with m := (bkDrop k t.m).1 }, (bkDrop k t.m).2)

def BSet.advance (t : BSet) (d : Nat) : BSet := { t with m := t.m.map (fun b => { b with age := b.age + d }) }

/-- permits out for key `k` -/
def usersOf (k : Nat) (m : List Bk) : Nat := ((m.filter (fun b => b.key = k)).map (·.users)).sum

def BSet.users (t : BSet) (k : Nat) : Nat := usersOf k t.m

def BSet.held (t : BSet) : Nat := (t.m.map (·.users)).sum

/-- an open transaction: session id, key of the `ip` scope, key of the `source` scope -/
structure BTx where
  id : Nat
  ip : Nat
  src : Nat
deriving Repr, DecidableEq

structure BSt where
  hasAll : Bool
  glob : Nat := 0
  ip : BSet
  src : BSet
  opens : List BTx := []   -- connected sessions with an open transaction
  idle : List Nat := []    -- connected sessions whose transaction was refused
  panics : Nat := 0
deriving Repr

inductive BOp
  | opn (i ip src : Nat)
  | cls (i : Nat) (data : Bool) (rset : Bool)
  | adv (d : Nat)
deriving Repr

def BSt.connected (s : BSt) (i : Nat) : Bool := s.opens.any (fun t => t.id = i) || s.idle.contains i

/-- the open transaction of session `i`, and the others -/
def takeTx (i : Nat) : List BTx → Option (BTx × List BTx)
  | [] => none
  | t :: ts => if t.id = i then some (t, ts) else (takeTx i ts).map (fun r => (r.1, t :: r.2))

/-- `Group.TakeMsg`: all, ip, source; what was taken is given back when a later scope refuses -/
def BSt.takeMsg (s : BSt) (ip src : Nat) : BSt × Bool :=
  if !(s.ip.take ip).2 then ({ s with ip := (s.ip.take ip).1 }, false) else
  if !((s.src.take src).2) then
    ({ s with ip := ((s.ip.take ip).1.release ip).1, src := (s.src.take src).1,
              panics := s.panics + (if ((s.ip.take ip).1.release ip).2 then 1 else 0) }, false)
  else ({ s with glob := s.glob + 1, ip := (s.ip.take ip).1, src := (s.src.take src).1 }, true)

/-- `Group.ReleaseMsg` from `cleanSession` -/
def BSt.releaseMsg (s : BSt) (tx : BTx) : BSt :=
  { s with glob := s.glob - 1, ip := (s.ip.release tx.ip).1, src := (s.src.release tx.src).1,
           panics := s.panics + (if s.glob == 0 || (s.ip.release tx.ip).2 || (s.src.release tx.src).2 then 1 else 0) }

def bFullCode : Nat := 451

/-- one step of a session history; the reply of the command that decides (0 = none) -/
def BSt.step (s : BSt) : BOp → BSt × Nat
  | .opn i ip src =>
    if s.connected i then (s, 0) else
    if (s.takeMsg ip src).2 then ({ (s.takeMsg ip src).1 with opens := s.opens ++ [⟨i, ip, src⟩] }, 250)
    else ({ (s.takeMsg ip src).1 with idle := s.idle ++ [i] }, bFullCode)
  | .cls i data rset =>
    match takeTx i s.opens with
    | none => ({ s with idle := s.idle.filter (· ≠ i) }, 0)
    | some (tx, rest) => ({ s.releaseMsg tx with opens := rest }, if data || rset then 250 else 0)
  | .adv d => ({ s with ip := s.ip.advance d, src := s.src.advance d }, 0)

def BSt.steps (s : BSt) : List BOp → BSt
  | [] => s
  | o :: os => (s.step o).1.steps os

/-! ## One accepted recipient that stands for several effective addresses (op lines `C03 x`)

Mirrors the three rewriting stages of `msgpipelineDelivery.AddRcpt`: the global modifiers turn the RCPT TO argument
into a list, the modifiers of the source block turn EACH of its members into a list (the results are concatenated,
in order), and for each member of that list the destination block is looked up, its modifiers run, and every result
is handed to every target of the block (`getDelivery` + `delivery.AddRcpt`, recorded under the ORIGINAL address).
The first failure ends the command; what was added before stays in the deliveries.  A modifier stage is a table
address ↦ addresses (an address without an entry stays as it is); an address is (id, domain index), the id is what
the scripted target prints and what selects its injected `AddRcpt` failure. -/

abbrev XA := Nat × Nat

abbrev XTab := List (XA × List XA)

def xLookup (t : XTab) (a : XA) : List XA :=
  match t.find? (fun e => e.1 == a) with
  | some e => e.2
  | none => [a]

/-- the first two loops of `AddRcpt`: global modifiers, then the source block's modifiers on every result -/
def xStage2 (g s : XTab) (a : XA) : List XA := (xLookup g a).flatMap (xLookup s)

/-- harness: ids 6 / 7 are refused by `AddRcpt` of target 0 / 1 -/
def xMask (k : Nat) : Nat := if k = 6 then 1 else if k = 7 then 2 else 0

def xEff (r : RcptF) (b : XA) : RcptF := { r with id := b.1, mask := xMask b.1 }

/-- the innermost loops: every result of the destination block's modifiers to every target of the block -/
def xAddEach (m : MailF) (r : RcptF) (tg : List Nat) : List XA → List DEntry → Log → List DEntry × Log × Option Nat
  | [], ents, log => (ents, log, none)
  | b :: bs, ents, log =>
    match addTargets m (xEff r b) tg ents log with
    | (ents', log', some c) => (ents', log', some c)
    | (ents', log', none) => xAddEach m r tg bs ents' log'

/-- the third loop of `AddRcpt`, over the addresses the first two stages produced -/
def xAddEffs (cfg : Cfg) (m : MailF) (r : RcptF) (d : XTab) : List XA → List DEntry → Log → List DEntry × Log × Option Nat
  | [], ents, log => (ents, log, none)
  | a :: rest, ents, log =>
    if a.2 ≥ 3 then (ents, log, some 557)
    else if targetsOf cfg (cfg.routes a.2) = [] then (ents, log, some 556)
    else
      match xAddEach m r (targetsOf cfg (cfg.routes a.2)) (xLookup d a) ents log with
      | (ents', log', some c) => (ents', log', some c)
      | (ents', log', none) => xAddEffs cfg m r d rest ents' log'

/-- `msgpipelineDelivery.AddRcpt` with one-to-many modifiers at the three stages -/
def xAddRcpt (cfg : Cfg) (g s d : XTab) (pd : PDel) (r : RcptF) (a : XA) (log : Log) : PDel × Log × Option Nat :=
  let res := xAddEffs cfg pd.mail r d (xStage2 g s a) pd.ents log
  ({ pd with ents := res.1 }, res.2.1, res.2.2)

/-- `Session.rcpt` on the open pipeline delivery (see `sessRcptOn`) -/
def xSessRcptOn (cfg : Cfg) (g s d : XTab) (st : World) (pd : PDel) (r : RcptF) (a : XA) : World × Option Nat :=
  let res := xAddRcpt cfg g s d pd r a st.log
  let st2 := { st with log := res.2.1, sess := { st.sess with delivery := some res.1 } }
  match res.2.2 with
  | some c => (st2, some c)
  | none => ({ st2 with sess := { st2.sess with keys := st2.sess.keys ++ [r.uid] } }, none)

/-- `Session.Rcpt` (see `sessRcpt`) -/
def xSessRcpt (cfg : Cfg) (g s d : XTab) (st : World) (r : RcptF) (a : XA) : World × Option Nat :=
  match st.sess.delivery with
  | some pd => xSessRcptOn cfg g s d st pd r a
  | none =>
    match st.sess.deliveryErr with
    | some c => (st, some c)
    | none =>
      match startDelivery st st.sess.mail with
      | (st1, some c) => ({ st1 with sess := { st1.sess with deliveryErr := some c } }, some c)
      | (st1, none) => xSessRcptOn cfg g s d st1 ⟨st.sess.mail, []⟩ r a

inductive XTok
  | plain (t : Tok)
  | rcpt (r : RcptF) (a : XA)

/-- `Conn.handle`: every command but RCPT as in `step` -/
def xStep (cfg : Cfg) (g s d : XTab) (st : St) : XTok → St × Out
  | .plain t => step cfg st t
  | .rcpt r a =>
    if st.closed then (st, .codes [])
    else if !st.fromReceived then one st 502
    else if st.bdat.isSome then one st 502
    else
      match xSessRcpt cfg g s d st.w r a with
      | (w1, some c) => one { st with w := w1 } c
      | (w1, none) => one { st with w := w1, rcpts := st.rcpts ++ [r] } 250

def xRun (cfg : Cfg) (g s d : XTab) : St → List XTok → St × List Out
  | st, [] => (if st.closed then st else connClose st, [])
  | st, t :: ts =>
    let (st1, o) := xStep cfg g s d st t
    let (st2, os) := xRun cfg g s d st1 ts
    (st2, o :: os)

end MaddyVerif.Session
