import MaddyVerif.Model.Queue
/-!
How the queue classifies a failure and what it records for the failure report
(`framework/exterrors/temporary.go`: `IsTemporaryOrUnspec`; `framework/exterrors/smtp.go`:
`SMTPError.Temporary`, `SMTPError.Fields`, `SMTPError.Unwrap`; `framework/exterrors/fields.go`:
`Fields`, `WithFields`; go-smtp `SMTPError.Temporary`; `internal/target/queue/queue.go`: `toSMTPErr`;
`internal/dsn/dsn.go`: the `Status` test of `RecipientInfo.WriteTo`).  Core Lean only.

An error is its `Unwrap` chain, outermost layer first.  The class of a failure is decided by the
first layer that has a `Temporary()` method: the BASIC reply code of an SMTP error (4yz temporary,
anything else permanent) or the marker of `exterrors.WithTemporary`; the enhanced status code is
carried along for the failure report and never looked at.
-/
namespace MaddyVerif.QueueErr
open MaddyVerif.Queue

/-- An enhanced status code as go-smtp parses it: any three integers. -/
abbrev Enh := Int × Int × Int

inductive Layer
  | smtp (code : Nat) (enh : Enh)        -- *exterrors.SMTPError (Temporary, Fields, Unwrap)
  | plainSmtp (code : Nat) (enh : Enh)   -- *smtp.SMTPError of go-smtp (Temporary; no Unwrap)
  | marker (temp : Bool)                 -- exterrors.WithTemporary
  | fields                               -- exterrors.WithFields (keys other than smtp_*)
  | wrap                                 -- fmt.Errorf("%w")
  | deadline                             -- context.DeadlineExceeded (Temporary() = true; no Unwrap)
  | leaf                                 -- errors.New, context.Canceled (no Unwrap)
deriving DecidableEq, Repr

abbrev Err := List Layer

/-- `errors.As(err, &TemporaryErr)` followed by `Temporary()`. -/
def temporaryOf : Err → Option Bool
  | [] => none
  | .smtp c _ :: _ => some (c / 100 == 4)
  | .plainSmtp c _ :: _ => some (c / 100 == 4)
  | .marker b :: _ => some b
  | .deadline :: _ => some true
  | .leaf :: _ => none
  | .fields :: rest => temporaryOf rest
  | .wrap :: rest => temporaryOf rest

/-- `exterrors.IsTemporaryOrUnspec` as the queue's three-way class. -/
def cls (e : Err) : Cls :=
  match temporaryOf e with
  | none => .unspec
  | some true => .temp
  | some false => .perm

/-- The same error with every enhanced status code removed. -/
def eraseEnh (e : Err) : Err :=
  e.map (fun l => match l with
    | .smtp c _ => .smtp c (0, 0, 0)
    | .plainSmtp c _ => .plainSmtp c (0, 0, 0)
    | l => l)

/-- The branch of `tryDelivery`: `temporary && TriesCount[rcpt]+1 < maxTries` ⇒ re-queued. -/
def retryDecision (maxTries tries : Nat) (e : Err) : Bool :=
  (cls e).retryable && !decide (tries + 1 ≥ maxTries)

/-- `exterrors.Fields(err)["smtp_code"]`, `["smtp_enchcode"]`: the outermost `*exterrors.SMTPError`
reachable through `Unwrap` (a key that is set is not overwritten by an inner layer). -/
def firstSmtp : Err → Option (Nat × Enh)
  | [] => none
  | .smtp c e :: _ => some (c, e)
  | .plainSmtp _ _ :: _ => none
  | .deadline :: _ => none
  | .leaf :: _ => none
  | .marker _ :: rest => firstSmtp rest
  | .fields :: rest => firstSmtp rest
  | .wrap :: rest => firstSmtp rest

/-- `toSMTPErr`: reply code and status recorded in `RcptErrs` (and copied into the failure report).
An enhanced code without a class (0.x.y, the unset one included) is replaced by the generic one. -/
def recorded (e : Err) : Nat × Enh :=
  let d : Nat × Enh := if (cls e).retryable then (451, (4, 0, 0)) else (554, (5, 0, 0))
  let s : Nat × Enh := match firstSmtp e with
    | some (c, x) => (c, if x.1 ≠ 0 then x else d.2)
    | none => d
  match e with
  | .plainSmtp c x :: _ => (c, if x.1 ≠ 0 then x else s.2)
  | _ => s

/-- `dsn.RecipientInfo.WriteTo`: `Status[0] == 0` ⇒ "Status is required". -/
def reportable (st : Enh) : Bool := st.1 != 0

end MaddyVerif.QueueErr
