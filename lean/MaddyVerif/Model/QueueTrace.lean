import MaddyVerif.Model.QueueDup
/-!
What the failure report says about the MTAs involved, and whether that can stop the report
(`internal/target/queue/queue.go:emitDSN` - the `mtaInfo` block - and
`internal/dsn/dsn.go:ReportingMTAInfo.WriteTo`, the `Reporting-MTA` / `Received-From-MTA` fields).
Core Lean only; C01 only.

* `emitDSN` names the server itself (`q.hostname`, configuration) and - when the sender is traced and
  the instance still has the `ConnState` of the submission (the spool copy has none) - the name the
  submitting client gave in HELO/EHLO: any string a client can send.
* `WriteTo` converts both names with `dns.SelectIDNA(utf8, ·)`, here the parameter `conv`
  (`none` = the conversion reports an error; e.g. a malformed A-label `xn--1.example`).
  `Reporting-MTA` is mandatory: an empty or inconvertible server name fails the report.
  `Received-From-MTA` is optional: an inconvertible client name is left out (fix-3) - what a client
  calls itself cannot cost a recipient its failure report.
-/
namespace MaddyVerif.QueueTrace
open MaddyVerif.Queue MaddyVerif.QueueRestart

/-- What `emitDSN` knows about where the message came from and who it is. -/
structure Origin where
  conn      : Option String   -- `MsgMeta.Conn` (`nil` once read back from the spool): `Conn.Hostname`
  dontTrace : Bool            -- `MsgMeta.DontTraceSender`
  host      : String          -- `q.hostname`

/-- `mtaInfo.ReceivedFromMTA` as `emitDSN` sets it (`""` = unset). -/
def receivedFromMTA (o : Origin) : String :=
  match o.conn with
  | some h => if o.dontTrace then "" else h
  | none => ""

/-- The MTA-name fields of `ReportingMTAInfo.WriteTo`; `none` = `WriteTo` (hence `GenerateDSN`) fails. -/
def mtaFields (conv : String → Option String) (host rcvd : String) : Option (List (String × String)) :=
  if host == "" then none
  else
    match conv host with
    | none => none
    | some h =>
      let f1 := [("Reporting-MTA", "dns; " ++ h)]
      if rcvd == "" then some f1
      else
        match conv rcvd with
        | some c => some (f1 ++ [("Received-From-MTA", "dns; " ++ c)])
        | none => some f1

/-- The MTA names do not stop the report. -/
def mtaOk (conv : String → Option String) (o : Origin) : Bool :=
  (mtaFields conv o.host (receivedFromMTA o)).isSome

/-- The server name is usable: non-empty and convertible (an assumption on the configuration). -/
def hostOk (conv : String → Option String) (host : String) : Bool :=
  host != "" && (conv host).isSome

/-- `reportDecision` with the MTA names in view: call site + head of `emitDSN` + `GenerateDSN`. -/
def reportDecisionT (conv : String → Option String) (o : Origin) (hdr : Header) (dsn : Bool)
    (env : Env) (failed : List Addr) : Bool :=
  reportDecision hdr (dsn && mtaOk conv o) env failed

end MaddyVerif.QueueTrace
