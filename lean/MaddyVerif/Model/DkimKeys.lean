import MaddyVerif.Model.DkimWire
/-!
# Model of the key store of `modify.dkim` (C08: "… verifies against the PUBLISHED key")

Mirrors `internal/modify/dkim/dkim.go` `Init` (the loop over the configured domains: expansion of
the `key_path` template, `loadOrGenerateKey`, the `signers` map keyed by `dns.ForLookup(domain)`)
and `internal/modify/dkim/keys.go` `loadOrGenerateKey`, `generateAndWrite`, `writeDNSRecord`
(which files are read, which are created, under which names).

* `expand` — `strings.NewReplacer("{domain}", domain, "{selector}", selector).Replace(template)`:
  one pass from left to right, replaced text is not scanned again; the domain and the selector are
  inserted AS WRITTEN in the configuration (no IDNA conversion, no case folding).
* `dnsPath` — name of the TXT-record file: `.key` replaced by `.dns` when `filepath.Ext` of the key
  path is `.key` (⇔ the path ends in `.key`), otherwise `.dns` appended.
* the directory is an association list path ↦ file (a later `cons` shadows: `os.Create` truncates,
  the key itself is created with `O_EXCL` after the look-up found nothing);  key pairs are symbolic
  (`id`: a fresh number per generated pair; the private key file and the record file carry it).
* `dns.ForLookup` is an oracle: the configuration is a list of (domain as written, normal form).
* a file that is not a PEM private key where the key is expected (here: a record file) makes
  `Init` fail (`invalid PEM block`); files created before the failure stay.

* (round 6) the administrator's doings between starts: `importKey` — a private key (a new pair) is
  put where no file is, WITHOUT a record file (copied from another server, made with openssl);
  `deleteFile` — a file (a record) is removed.  `Init` on such a directory: `loadOrGenerateKey`
  finds the key and returns it; nothing is written (in particular no record: the only caller of
  `writeDNSRecord` is `generateAndWrite`, which passes the `k=` name of the key it has just made).

* (round 9) `selectKey`: which key signs a message and which domain the signature names (`d=`), incl.
  the `sign_subdomains` rule — see the section at the end.

Not modelled: permissions, I/O errors, `rsa4096` vs. `rsa2048` (both are `k=rsa`), malformed keys.
-/
namespace MaddyVerif.DkimKeys
open MaddyVerif.DkimWire (Bytes)

/-- `{domain}` -/
def phDomain : Bytes := [123, 100, 111, 109, 97, 105, 110, 125]
/-- `{selector}` -/
def phSelector : Bytes := [123, 115, 101, 108, 101, 99, 116, 111, 114, 125]

/-- the generic `strings.Replacer` on two patterns none of which is a prefix of the other; the
first argument counts octets of a matched pattern still to be skipped -/
def expandGo (d s : Bytes) : Nat → Bytes → Bytes
  | _, [] => []
  | k + 1, _ :: t => expandGo d s k t
  | 0, c :: t =>
    if phDomain.isPrefixOf (c :: t) then d ++ expandGo d s 7 t
    else if phSelector.isPrefixOf (c :: t) then s ++ expandGo d s 9 t
    else c :: expandGo d s 0 t

/-- key path for a domain and a selector (both as written in the configuration) -/
def expand (d s tmpl : Bytes) : Bytes := expandGo d s 0 tmpl

/-- `.key` -/
def dotKey : Bytes := [46, 107, 101, 121]
/-- `.dns` -/
def dotDns : Bytes := [46, 100, 110, 115]

def dnsPath (p : Bytes) : Bytes :=
  if dotKey.isSuffixOf p then p.take (p.length - 4) ++ dotDns else p ++ dotDns

/-- DKIM key type (`k=`) -/
inductive Algo | rsa | ed25519
deriving DecidableEq, Repr

inductive File
  | key (id : Nat) (a : Algo)   -- PEM private key of pair `id`
  | txt (id : Nat) (a : Algo)   -- `v=DKIM1; k=…; p=…` of pair `id`
deriving DecidableEq, Repr

abbrev FS := List (Bytes × File)

inductive InitErr
  | notPEM (path : Bytes)
deriving DecidableEq, Repr

structure Loaded where
  fs : FS
  next : Nat
  id : Nat
  algo : Algo
  isNew : Bool

/-- `loadOrGenerateKey` (+ `generateAndWrite`, `writeDNSRecord`): an existing key is used whatever
`newkey_algo` says; otherwise the record file is written, then the key file. -/
def loadOrGenerate (fs : FS) (next : Nat) (p : Bytes) (a : Algo) : Except InitErr Loaded :=
  match fs.lookup p with
  | some (.key id a') => .ok ⟨fs, next, id, a', false⟩
  | some (.txt _ _) => .error (.notPEM p)
  | none => .ok ⟨(p, .key next a) :: (dnsPath p, .txt next a) :: fs, next + 1, next, a, true⟩

/-- `signers`: normal form of the domain ↦ key pair (a later entry shadows an earlier one, as the
assignment to the Go map does) -/
abbrev Signers := List (Bytes × Nat × Algo)

structure InitRes where
  fs : FS
  next : Nat
  signers : Signers
  err : Option InitErr

/-- the loop of `Init` over `domains` (pairs: as written, `dns.ForLookup`) -/
def initLoop (tmpl sel : Bytes) (a : Algo) : List (Bytes × Bytes) → FS → Nat → Signers → InitRes
  | [], fs, n, sg => ⟨fs, n, sg, none⟩
  | d :: ds, fs, n, sg =>
    match loadOrGenerate fs n (expand d.1 sel tmpl) a with
    | .error e => ⟨fs, n, sg, some e⟩
    | .ok l => initLoop tmpl sel a ds l.fs l.next ((d.2, l.id, l.algo) :: sg)

structure Cfg where
  tmpl : Bytes
  sel : Bytes
  algo : Algo                      -- newkey_algo
  domains : List (Bytes × Bytes)   -- as written, normal form

def init (c : Cfg) (fs : FS) (n : Nat) : InitRes := initLoop c.tmpl c.sel c.algo c.domains fs n []

/-- key paths of a configuration -/
def keyPaths (c : Cfg) : List Bytes := c.domains.map (fun d => expand d.1 c.sel c.tmpl)

/-- the key pair a restarted instance finds for a domain in the directory `fs` -/
def entryOf (tmpl sel : Bytes) (fs : FS) (d : Bytes × Bytes) : Bytes × Nat × Algo :=
  match fs.lookup (expand d.1 sel tmpl) with
  | some (.key id a) => (d.2, id, a)
  | _ => (d.2, 0, .rsa)

/-- any number of restarts on the same directory after a start `r`, each with its own
`newkey_algo`; a failed `Init` ends the history -/
def restarts (c : Cfg) : List Algo → InitRes → InitRes
  | [], r => r
  | a :: as, r =>
    match r.err with
    | some _ => r
    | none => restarts c as (init { c with algo := a } r.fs r.next)

/-- the administrator removes the file `q` (every entry of the association list for that path) -/
def deleteFile (fs : FS) (q : Bytes) : FS := fs.filter (fun e => !(e.1 == q))

/-- the administrator puts a private key (a new pair, number `n`) of type `a` at `p` if nothing is
there; no record file comes with it -/
def importKey (fs : FS) (n : Nat) (p : Bytes) (a : Algo) : FS × Nat :=
  match fs.lookup p with
  | none => ((p, .key n a) :: fs, n + 1)
  | some _ => (fs, n)

/-- what happens to a key directory: a start of a modifier instance, or the administrator -/
inductive Event
  | start (c : Cfg)
  | imp (p : Bytes) (a : Algo)
  | del (q : Bytes)

def step (s : FS × Nat) : Event → FS × Nat
  | .start c => ((init c s.1 s.2).fs, (init c s.1 s.2).next)
  | .imp p a => importKey s.1 s.2 p a
  | .del q => (deleteFile s.1 q, s.2)

/-- the directory (and the number of key pairs made so far) after a history of events -/
def history (es : List Event) (s : FS × Nat) : FS × Nat := es.foldl step s


/-! ## (round 9) which key signs a message, and in whose name: `RewriteBody` up to `dkim.SignOptions`

Mirrors the first half of `state.RewriteBody`: `address.Split` of the envelope sender, `domains[0]`
for the null return path and `postmaster`, the `sign_subdomains` rule (a sender domain that ends,
octet for octet, in `"." + domains[0]` is replaced by `domains[0]` AS CONFIGURED), `dns.ForLookup`,
the look-up in `signers`, and the conversion of domain and selector with `idna.ToASCII` for a
message without SMTPUTF8.  `d=` is the domain so obtained, `i=` is `"@"` + that domain, `s=` the
selector.  `dns.ForLookup` and `idna.ToASCII` are oracles (`none` = the Go function returns an
error); `domains[0]` of an empty list is the explicit outcome `panic` (`Init` refuses an empty list). -/

/-- what `RewriteBody` gets out of the envelope sender -/
inductive From
  | err               -- `address.Split` fails: `RewriteBody` returns that error
  | none              -- null return path / `postmaster`: no domain
  | dom (d : Bytes)   -- the domain as spelled in the envelope
deriving DecidableEq, Repr

structure Oracle where
  norm : Bytes → Option Bytes    -- `dns.ForLookup`
  ascii : Bytes → Option Bytes   -- `idna.ToASCII`

/-- why a message is left unsigned (`RewriteBody` returns nil without adding a field) -/
inductive Why
  | normErr            -- `dns.ForLookup` fails on the sender domain
  | noKey              -- no signer under the normal form
  | domainNotASCII     -- non-EAI message, `idna.ToASCII(domain)` fails
  | selectorNotASCII   -- non-EAI message, `idna.ToASCII(selector)` fails
deriving DecidableEq, Repr

inductive Sel
  | splitErr
  | panic
  | unsigned (w : Why)
  | signed (d s : Bytes) (id : Nat) (a : Algo)   -- `d=`, `s=`, the key pair that signs
deriving DecidableEq, Repr

/-- the `sign_subdomains` block; `none` = `domains[0]` of an empty list -/
def subRule (sub : Bool) (doms : List Bytes) (domain : Bytes) : Option Bytes :=
  if sub then
    match doms with
    | [] => none
    | top :: _ => some (if (46 :: top).isSuffixOf domain then top else domain)
  else some domain

/-- from `dns.ForLookup(domain)` to the `SignOptions` -/
def finish (O : Oracle) (sg : Signers) (sel : Bytes) (utf8 : Bool) (domain : Bytes) : Sel :=
  match O.norm domain with
  | none => .unsigned .normErr
  | some nd =>
    match sg.lookup nd with
    | none => .unsigned .noKey
    | some (id, a) =>
      if utf8 then .signed domain sel id a
      else
        match O.ascii domain with
        | none => .unsigned .domainNotASCII
        | some ad =>
          match O.ascii sel with
          | none => .unsigned .selectorNotASCII
          | some as => .signed ad as id a

def selectKey (O : Oracle) (doms : List Bytes) (sub : Bool) (sg : Signers) (sel : Bytes) (utf8 : Bool)
    (f : From) : Sel :=
  match f with
  | .err => .splitErr
  | .none =>
    match doms with
    | [] => .panic
    | d0 :: _ =>
      match subRule sub doms d0 with
      | none => .panic
      | some d => finish O sg sel utf8 d
  | .dom d =>
    match subRule sub doms d with
    | none => .panic
    | some d' => finish O sg sel utf8 d'

/-- what the seeded change C08-14 does: when no key is found under the normal form and
`sign_subdomains` is on, the key of a configured domain of which the NORMAL FORM of the sender
domain is a subdomain is taken — `d=` stays the sender domain -/
def finishC0814 (O : Oracle) (sub : Bool) (sg : Signers) (sel : Bytes) (utf8 : Bool) (domain : Bytes) : Sel :=
  match O.norm domain with
  | none => .unsigned .normErr
  | some nd =>
    let k := match sg.lookup nd with
      | some k => some k
      | none => if sub then (sg.find? (fun e => (46 :: e.1).isSuffixOf nd)).map (·.2) else none
    match k with
    | none => .unsigned .noKey
    | some (id, a) =>
      if utf8 then .signed domain sel id a
      else
        match O.ascii domain with
        | none => .unsigned .domainNotASCII
        | some ad =>
          match O.ascii sel with
          | none => .unsigned .selectorNotASCII
          | some as => .signed ad as id a

end MaddyVerif.DkimKeys
