/-!
The meta-data file of a spool entry as a JSON document, and what `Queue.readMessageMeta`
(`json.NewDecoder(file).Decode(meta)` into a fresh `QueueMetadata`) makes of it
(`internal/target/queue/queue.go`).  Core Lean only.

encoding/json, as used there: the members of the document are visited in file order; a member whose
name is not a field of the struct is SKIPPED (no `DisallowUnknownFields`); of two members with one
name the later wins; `null` leaves the field at its zero value; a field no member names keeps its
zero value.  So the entry read is a function of the known members alone - a file written by another
build of the server (more fields, another order of the keys, zero-valued fields left out) is the
same entry.  `C01 run … V=` puts such files in front of the real decoder.
-/
namespace MaddyVerif.QueueSpool

/-- a JSON value, as far as the decoder of a field cares -/
inductive JVal where
  | null
  | str (s : String)
  | num (n : Nat)
  | bool (b : Bool)
  | other (raw : String)     -- object / array, kept as its text
  deriving DecidableEq, Repr

/-- the zero value of the Go field it is decoded into (`null` leaves the field alone) -/
def JVal.zero : JVal → Bool
  | .null => true
  | .str s => s == ""
  | .num n => n == 0
  | .bool b => !b
  | .other _ => false

/-- the members of the document, in file order -/
abbrev Doc := List (String × JVal)

/-- the fields of `QueueMetadata` -/
def known : List String :=
  ["MsgMeta", "From", "To", "FailedRcpts", "TemporaryFailedRcpts", "RcptErrs", "TriesCount",
   "FirstAttempt", "LastAttempt"]

/-- the value field `k` of the fresh struct ends up with (`.null` = its zero value) -/
def field (d : Doc) (k : String) : JVal :=
  match (d.filter (fun m => m.1 == k)).getLast? with
  | some (_, v) => if v.zero then .null else v
  | none => .null

/-- `readMessageMeta`: the entry, field by field -/
def decode (d : Doc) : List JVal := known.map (field d)

/-- the decoder of the STRICT reading (`DisallowUnknownFields`), for contrast: it refuses the file -/
def decodeStrict (d : Doc) : Option (List JVal) :=
  if d.all (fun m => known.contains m.1) then some (decode d) else none

theorem field_skip (d1 d2 : Doc) (k k' : String) (v : JVal) (h : k ≠ k') :
    field (d1 ++ (k, v) :: d2) k' = field (d1 ++ d2) k' := by
  unfold field
  simp [List.filter_append, List.filter_cons, h]

end MaddyVerif.QueueSpool
