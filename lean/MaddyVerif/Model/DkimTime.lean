/-!
# Model of the time stamps of a signature made by `modify.dkim` (C08: time as an input)

Mirrors, in `internal/modify/dkim/dkim.go`, `(*state).RewriteBody`:

```go
opts := dkim.SignOptions{ … }
if s.m.sigExpiry != 0 {
    opts.Expiration = time.Now().Add(s.m.sigExpiry)
}
signer, err := dkim.NewSigner(&opts)
```

in go-msgauth `dkim/sign.go`: `"t": formatTime(now())` (evaluated while the message is signed),
`if !options.Expiration.IsZero() { params["x"] = formatTime(options.Expiration) }`,
`formatTime(t) = strconv.FormatInt(t.Unix(), 10)`; and in `dkim/verify.go`:
`if now().After(time.Unix(x, 0)) { … "signature has expired" }` (only when there is an `x=` tag).

Instants are milliseconds since the epoch (natural numbers: nothing happens before 1970); DKIM time
stamps are whole seconds (`Time.Unix` truncates).  `sig_expiry` is a duration in ms; `0` switches
the expiration off.

The life of a modifier instance has three instants that a signature could be (wrongly) tied to:
`Init`, `ModStateForMsg` and the signing itself.  The code reads the clock in `RewriteBody` only.
-/
namespace MaddyVerif.DkimTime

structure Life where
  /-- `Modifier.Init` (start-up) -/
  initAt : Nat
  /-- `ModStateForMsg` (the message enters the pipeline) -/
  stateAt : Nat
  /-- `RewriteBody` (the message is signed) -/
  signAt : Nat
deriving Repr

/-- `time.Time.Unix` of an instant given in ms -/
def unixSec (ms : Nat) : Nat := ms / 1000

/-- `t=` -/
def tagT (l : Life) : Nat := unixSec l.signAt

/-- `x=` (`none`: no tag) for `sig_expiry = expiry` ms -/
def tagX (l : Life) (expiry : Nat) : Option Nat :=
  if expiry = 0 then none else some (unixSec (l.signAt + expiry))

/-- the verifier's check at the instant `now` (ms): `now().After(time.Unix(x, 0))` -/
def expired (now : Nat) : Option Nat → Bool
  | none => false
  | some x => decide (x * 1000 < now)

/-- what the seeded change C08-7 computes: the expiration is fixed when the modifier starts -/
def tagXFromInit (l : Life) (expiry : Nat) : Option Nat :=
  if expiry = 0 then none else some (unixSec (l.initAt + expiry))

/-- default of `sig_expiry`: `5 * Day` -/
def defaultExpiry : Nat := 5 * 24 * 3600 * 1000

end MaddyVerif.DkimTime
