/-
Model of `framework/address` (norm.go, split.go, rfc6531.go, validation.go) and `framework/dns`
(norm.go, idna.go).

Strings are lists of Unicode code points (Go's `for _, ch := range s`).  The Unicode
primitives the code delegates to (x/text NFC, strings.ToLower, x/net/idna Punycode profile)
are an explicit parameter `Prims`; theorems quantify over it, correspondence runs instantiate
it with a table computed by the real libraries.
Core Lean only.
-/
namespace MaddyVerif.Address

abbrev Str := List Nat

def AT : Nat := 64        -- '@'
def DQ : Nat := 34        -- '"'
def BS : Nat := 92        -- '\\'
def DOT : Nat := 46       -- '.'

structure Prims where
  nfc   : Str → Str                 -- norm.NFC.String
  lower : Str → Str                 -- strings.ToLower
  toUnicode : Str → Str × Bool      -- idna.ToUnicode: (result, ok)
  toASCII   : Str → Str × Bool      -- idna.ToASCII:   (result, ok)

/-- `strings.EqualFold(addr, "postmaster")`: simple case folding; `ſ` (U+017F) folds to `s`. -/
def foldEqChar (c target : Nat) : Bool :=
  c == target || c + 32 == target || (target == 115 && c == 0x17F)

def postmaster : Str := [112, 111, 115, 116, 109, 97, 115, 116, 101, 114]

def isPostmaster (a : Str) : Bool :=
  a.length == postmaster.length && (a.zip postmaster).all (fun p => foldEqChar p.1 p.2)

/-- Split `a` at the last '@': `some (before, after)` or `none` when there is no '@'. -/
def splitLastAt : Str → Option (Str × Str)
  | [] => none
  | c :: rest =>
    match splitLastAt rest with
    | some (m, d) => some (c :: m, d)
    | none => if c == AT then some ([], rest) else none

inductive SplitErr | missingAt | emptyLocal | emptyDomain
deriving DecidableEq, Repr

/-- `address.Split`. -/
def split (a : Str) : Except SplitErr (Str × Str) :=
  if isPostmaster a then .ok (a, []) else
  match splitLastAt a with
  | none => .error .missingAt
  | some (m, d) =>
    if m.isEmpty then .error .emptyLocal
    else if d.isEmpty then .error .emptyDomain
    else .ok (m, d)

/-! ### QuoteMbox / UnquoteMbox -/

def isSpecial (c : Nat) : Bool :=
  c == 40 || c == 41 || c == 60 || c == 62 || c == 91 || c == 93 || c == 58 || c == 59 ||
  c == AT || c == BS || c == 44 || c == DQ || c == 32

def escapeAll : Str → Str
  | [] => []
  | c :: r => if c == BS || c == DQ then BS :: c :: escapeAll r else c :: escapeAll r

def quoteMbox (m : Str) : Str :=
  if m.any isSpecial then DQ :: (escapeAll m ++ [DQ]) else m

structure UQ where
  quoted : Bool := false
  escaped : Bool := false
  terminated : Bool := false
  out : Str := []          -- reversed

inductive UnquoteErr | afterClose | escapeOutside | extraAt | empty
deriving DecidableEq, Repr

/-- One iteration of `UnquoteMbox`'s loop. -/
def uqStep (s : UQ) (ch : Nat) : Except UnquoteErr UQ :=
  if s.terminated then .error .afterClose else
  if ch == DQ && !s.escaped then
    let q := !s.quoted
    .ok { s with quoted := q, terminated := !q }
  else if ch == BS && !s.escaped then
    if !s.quoted then .error .escapeOutside else .ok { s with escaped := true }
  else if ch == AT && !s.quoted then .error .extraAt
  else .ok { s with escaped := false, out := ch :: s.out }

def uqRun : UQ → Str → Except UnquoteErr UQ
  | s, [] => .ok s
  | s, c :: r => match uqStep s c with
    | .ok s' => uqRun s' r
    | .error e => .error e

/-- `address.UnquoteMbox`. -/
def unquoteMbox (m : Str) : Except UnquoteErr Str :=
  match uqRun {} m with
  | .error e => .error e
  | .ok s => if s.out.isEmpty then .error .empty else .ok s.out.reverse

/-! ### IsASCII, ToASCII, ToUnicode -/

/-- `address.IsASCII`. -/
def isASCII (s : Str) : Bool := s.all (fun c => c < 128)

/-! ### Go strings are BYTE strings: `for _, ch := range s` over arbitrary bytes

`decodeUtf8` mirrors Go's range-over-string decoding (`utf8.DecodeRuneInString` applied repeatedly):
a well-formed sequence yields its code point, every byte that does not start one (lone continuation
bytes, 0xC0/0xC1/0xF5..0xFF, overlong forms, surrogates, values above U+10FFFF, truncated sequences)
yields U+FFFD and is skipped alone (width 1). -/

def isCont (b : Nat) : Bool := 0x80 ≤ b && b ≤ 0xBF

/-- `utf8.DecodeRuneInString` on a non-empty byte list: `(rune, width)`. -/
def decodeOne : List Nat → Nat × Nat
  | [] => (0xFFFD, 1)
  | b0 :: r =>
    if b0 < 0x80 then (b0, 1)
    else if 0xC2 ≤ b0 && b0 ≤ 0xDF then
      match r with
      | b1 :: _ => if isCont b1 then ((b0 - 0xC0) * 64 + (b1 - 0x80), 2) else (0xFFFD, 1)
      | _ => (0xFFFD, 1)
    else if 0xE0 ≤ b0 && b0 ≤ 0xEF then
      match r with
      | b1 :: b2 :: _ =>
        if (if b0 == 0xE0 then 0xA0 else 0x80) ≤ b1 && b1 ≤ (if b0 == 0xED then 0x9F else 0xBF) && isCont b2
        then ((b0 - 0xE0) * 4096 + (b1 - 0x80) * 64 + (b2 - 0x80), 3) else (0xFFFD, 1)
      | _ => (0xFFFD, 1)
    else if 0xF0 ≤ b0 && b0 ≤ 0xF4 then
      match r with
      | b1 :: b2 :: b3 :: _ =>
        if (if b0 == 0xF0 then 0x90 else 0x80) ≤ b1 && b1 ≤ (if b0 == 0xF4 then 0x8F else 0xBF) && isCont b2 && isCont b3
        then ((b0 - 0xF0) * 262144 + (b1 - 0x80) * 4096 + (b2 - 0x80) * 64 + (b3 - 0x80), 4) else (0xFFFD, 1)
      | _ => (0xFFFD, 1)
    else (0xFFFD, 1)

def decodeFuel : Nat → List Nat → Str
  | 0, _ => []
  | _, [] => []
  | n + 1, b :: r =>
    let p := decodeOne (b :: r)
    p.1 :: decodeFuel n ((b :: r).drop p.2)

/-- the code points Go's `range` yields for the byte string `bs` -/
def decodeUtf8 (bs : List Nat) : Str := decodeFuel bs.length bs

/-- `address.IsASCII` on the bytes of a Go string. -/
def isASCIIBytes (bs : List Nat) : Bool := isASCII (decodeUtf8 bs)

/-- `address.ToASCII`: `(result, ok)`. -/
def toASCII (P : Prims) (a : Str) : Str × Bool :=
  match split a with
  | .error _ => (a, false)
  | .ok (m, d) =>
    if !isASCII m then (a, false)
    else if d.isEmpty then (m, true)
    else
      let (ad, ok) := P.toASCII d
      if ok then (m ++ AT :: ad, true) else (a, false)

/-- `address.ToUnicode`. -/
def toUnicode (P : Prims) (a : Str) : Str × Bool :=
  match split a with
  | .error _ => (P.nfc a, false)
  | .ok (m, d) =>
    if d.isEmpty then (m, true)
    else
      let (ud, ok) := P.toUnicode d
      if ok then (m ++ AT :: P.nfc ud, true) else (P.nfc a, false)

/-! ### lookup keys -/

def trimDot (s : Str) : Str :=
  match s.getLast? with
  | some c => if c == DOT then s.dropLast else s
  | none => s

/-! ### `dns.ToUnicode`: ACE prefix recognised in any letter case -/

def asciiLower (c : Nat) : Nat := if 65 ≤ c ∧ c ≤ 90 then c + 32 else c

/-- `len(label) >= 4 && strings.EqualFold(label[:4], "xn--")` -/
def isAcePrefixFold : Str → Bool
  | a :: b :: c :: d :: _ => (a == 120 || a == 88) && (b == 110 || b == 78) && c == 45 && d == 45
  | _ => false

def lowerACELabel (l : Str) : Str := if isAcePrefixFold l then l.map asciiLower else l

/-- `strings.Split(s, ".")` on code points: `cur` is the label being read (reversed). -/
def splitDotsAux : Str → Str → List Str
  | cur, [] => [cur.reverse]
  | cur, c :: r => if c == DOT then cur.reverse :: splitDotsAux [] r else splitDotsAux (c :: cur) r

def splitDots (s : Str) : List Str := splitDotsAux [] s

def joinDots : List Str → Str
  | [] => []
  | [l] => l
  | l :: r => l ++ DOT :: joinDots r

def lowerACE (d : Str) : Str := joinDots ((splitDots d).map lowerACELabel)

/-- `dns.ToUnicode`. -/
def dnsToUnicode (P : Prims) (d : Str) : Str × Bool := P.toUnicode (lowerACE d)

/-- `dns.ForLookup`. -/
def dnsForLookup (P : Prims) (d : Str) : Str × Bool :=
  let (u, ok) := dnsToUnicode P d
  if ok then (trimDot (P.lower (P.nfc u)), true) else (P.lower d, false)

/-- `dns.Equal`. -/
def dnsEqual (P : Prims) (a b : Str) : Bool :=
  a == b || (dnsForLookup P a).1 == (dnsForLookup P b).1

/-- `address.ForLookup`. -/
def forLookup (P : Prims) (a : Str) : Str × Bool :=
  if a.isEmpty then ([], true) else
  match split a with
  | .error _ => (P.lower a, false)
  | .ok (m, d) =>
    if d.isEmpty then (P.lower (P.nfc m), true)
    else
      let (dk, ok) := dnsForLookup P d
      if !ok then (P.lower a, false)
      else
        let mk := P.lower (P.nfc m)
        if dk.isEmpty then (mk, true) else (mk ++ AT :: dk, true)

/-- The lookup key of an address (what routing tables and comparisons use). -/
def key (P : Prims) (a : Str) : Str := (forLookup P a).1

/-- `address.Equal`. -/
def equal (P : Prims) (a b : Str) : Bool :=
  a == b || key P a == key P b

/-- `address.CleanDomain`. -/
def cleanDomain (P : Prims) (a : Str) : Str × Bool :=
  if a.isEmpty then ([], true) else
  match split a with
  | .error _ => (a, false)
  | .ok (m, d) =>
    let (u, ok) := dnsToUnicode P d
    if !ok then (a, false)
    else if d.isEmpty then (m, true)
    else (m ++ AT :: P.lower (P.nfc u), true)

/-! ### validation.go: `Valid`, `ValidMailboxName`, `ValidDomain` -/

/-- bytes of the UTF-8 encoding of one code point (Go's `len(s)` counts bytes) -/
def utf8Len (c : Nat) : Nat :=
  if c < 0x80 then 1 else if c < 0x800 then 2 else if c < 0x10000 then 3 else 4

/-- `len(s)` -/
def byteLen (s : Str) : Nat := s.foldl (fun n c => n + utf8Len c) 0

/-- the `validGraphic` map: the 20 ASCII graphic characters allowed in an unquoted local part -/
def validGraphic (c : Nat) : Bool :=
  c == 33 || c == 35 || c == 36 || c == 37 || c == 38 || c == 39 || c == 42 || c == 43 ||
  c == 45 || c == 47 || c == 61 || c == 63 || c == 94 || c == 95 || c == 96 || c == 123 ||
  c == 124 || c == 125 || c == 126 || c == DOT

def validMboxChar (c : Nat) : Bool :=
  validGraphic c || (48 ≤ c && c ≤ 57) || (65 ≤ c && c ≤ 90) || (97 ≤ c && c ≤ 122) || c > 127

/-- `address.ValidMailboxName`. -/
def validMailboxName (m : Str) : Bool :=
  if m.head? == some DQ then
    match unquoteMbox m with
    | .error _ => false
    | .ok raw => raw.all (fun ch => !(ch < 32 || ch == 127))
  else m.all validMboxChar

/-- `strings.Contains(s, "..")` -/
def hasDotDot : Str → Bool
  | a :: b :: r => (a == DOT && b == DOT) || hasDotDot (b :: r)
  | _ => false

/-- `address.ValidDomain` (after the fix: a domain `dns.ToUnicode` rejects is not valid). -/
def validDomain (P : Prims) (d : Str) : Bool :=
  if byteLen d > 255 || d.isEmpty then false
  else if d.head? == some DOT then false
  else if hasDotDot d then false
  else if !(dnsToUnicode P d).2 then false
  else
    let (ad, ok) := P.toASCII d
    if !ok then false else (splitDots ad).all (fun l => byteLen l ≤ 64)

/-- `address.Valid`. -/
def valid (P : Prims) (a : Str) : Bool :=
  if byteLen a > 320 then false else
  match split a with
  | .error _ => false
  | .ok (m, d) => if d.isEmpty then true else validMailboxName m && validDomain P d

/-! ### every call as ONE total function with an explicit crash outcome (round 9)

The Go functions are called by the SMTP and IMAP front ends with whatever a peer sends: none of them may
panic. `Outcome` lists what a call of the real code can do (a Go panic included); `run` is the model of a
call. The correspondence harness observes the real call under `recover` and prints `panic` for a crash, the
driver prints `run`: `C17_no_panic` says the model never has that outcome, so a crash of the code is a
divergence (and the monitor violation `C17/panic`). -/

/-- one call of a function of `framework/address` / `framework/dns` -/
inductive Call
  | split (a : Str) | unquote (m : Str) | quote (m : Str) | isascii (s : Str) | validmbox (m : Str)
  | toascii (a : Str) | tounicode (a : Str) | forlookup (a : Str) | cleandomain (a : Str) | valid (a : Str)
  | dnsforlookup (d : Str) | dnstounicode (d : Str) | validdomain (d : Str)
  | equal (a b : Str) | dnsequal (a b : Str)

/-- what a call can do: a string (`QuoteMbox`), a truth value (`IsASCII`, `Valid…`, `Equal`), a string with or
without an error (`(string, error)`: the string is meaningful on the error branch too), the two parts
(`Split`), an error alone, or a crash -/
inductive Outcome
  | str (s : Str)
  | flag (b : Bool)
  | res (s : Str) (ok : Bool)
  | parts (m d : Str)
  | err
  | panic
  deriving DecidableEq

def run (P : Prims) : Call → Outcome
  | .split a => match split a with
    | .ok (m, d) => .parts m d
    | .error _ => .err
  | .unquote m => match unquoteMbox m with
    | .ok r => .res r true
    | .error _ => .err
  | .quote m => .str (quoteMbox m)
  | .isascii s => .flag (isASCII s)
  | .validmbox m => .flag (validMailboxName m)
  | .toascii a => .res (toASCII P a).1 (toASCII P a).2
  | .tounicode a => .res (toUnicode P a).1 (toUnicode P a).2
  | .forlookup a => .res (forLookup P a).1 (forLookup P a).2
  | .cleandomain a => .res (cleanDomain P a).1 (cleanDomain P a).2
  | .valid a => .flag (valid P a)
  | .dnsforlookup d => .res (dnsForLookup P d).1 (dnsForLookup P d).2
  | .dnstounicode d => .res (dnsToUnicode P d).1 (dnsToUnicode P d).2
  | .validdomain d => .flag (validDomain P d)
  | .equal a b => .flag (equal P a b)
  | .dnsequal a b => .flag (dnsEqual P a b)

/-- the arguments of a call (what a replay needs) -/
def Call.args : Call → List Str
  | .split a | .unquote a | .quote a | .isascii a | .validmbox a | .toascii a | .tounicode a | .forlookup a
  | .cleandomain a | .valid a | .dnsforlookup a | .dnstounicode a | .validdomain a => [a]
  | .equal a b | .dnsequal a b => [a, b]

/-- the same call on other arguments (byte-level ops: the arguments are decoded first) -/
def Call.mapArgs (f : Str → Str) : Call → Call
  | .split a => .split (f a) | .unquote a => .unquote (f a) | .quote a => .quote (f a)
  | .isascii a => .isascii (f a) | .validmbox a => .validmbox (f a) | .toascii a => .toascii (f a)
  | .tounicode a => .tounicode (f a) | .forlookup a => .forlookup (f a) | .cleandomain a => .cleandomain (f a)
  | .valid a => .valid (f a) | .dnsforlookup a => .dnsforlookup (f a) | .dnstounicode a => .dnstounicode (f a)
  | .validdomain a => .validdomain (f a)
  | .equal a b => .equal (f a) (f b) | .dnsequal a b => .dnsequal (f a) (f b)

/-! ## Histories and concurrent callers (round 10)

The functions of `framework/address` / `framework/dns` keep no state between calls — no cache, no memo of the last
answer, no shared scratch buffer: `run` is a function of the call alone. A *history* (one caller, calls made one
after the other) and *concurrent callers* (several goroutines, each with its own program) are therefore answered
call by call; what was asked before, or what another goroutine is asking at the same time, does not matter. The
harness runs such histories / concurrent programs on the real code (ops `hist`, `par`); an answer that depends on the
history or on the schedule is a divergence and the monitor violations `C17/result-depends-on-history`,
`C17/concurrent-result-differs`, `C17/concurrent-panic`. -/

/-- the answers to a history of calls (one caller) -/
def runHist (P : Prims) (cs : List Call) : List Outcome := cs.map (run P)

/-- the answers seen by concurrent callers: thread `t` runs `threads[t]` in program order -/
def runPar (P : Prims) (threads : List (List Call)) : List (List Outcome) := threads.map (runHist P)

end MaddyVerif.Address
