import MaddyVerif.Model.Queue
/-!
Model of the queue's on-disk spool and of everything the queue does to it
(`internal/target/queue/queue.go`: `storeNewMessage`, `updateMetadataOnDisk`, `removeFromDisk`,
`readDiskQueue`, `openMessage`, `readMessageMeta`, `tryRemoveDanglingFile`, `discardBroken`,
and the control flow around them in `queueDelivery.Body/Commit/Abort`, `dispatch`, `tryDelivery`;
`Queue.deliver` as `deliverErrs`: the per-recipient result of one attempt from the results of the target's
`AddRcpt`, `Body`/`BodyNonAtomic` and `Commit`).
Core Lean only.

* A file is `{durable, pending}`: what an fsync has made durable and what was written since.
  Reading sees `durable ++ pending`.  `create`, `write`, `fsync`, `rename`, `remove` are the only
  operations.  Directory entries (create / rename / remove) are durable at once; file *data* is
  durable only after `fsync` (POSIX assumption named in DESIGN.md §4 C02).
* One message id owns five file names (`.header .body .meta .meta.new .meta_broken`); the spool
  directory is a function from ids to these five slots, so operations on different ids commute
  trivially (frame lemma in Props/C02).
* The queue's procedures are *lists of operations in the order the code issues them*
  (`storeOps`, `updateOps`, `removeOps`; compared with the extracted call skeleton, T1).
* `step?` is the small-step semantics of one message id: every single file-system operation is one
  step, a crash may happen before any step (`Choice.crash`), in the middle of a write
  (`Choice.tornCrash`) and may lose any suffix of the un-synced data of every file (`keep`), and
  `Choice.restart` runs the recovery scan of `readDiskQueue`, after which the same steps apply
  again — crashes inside recovery to any depth are therefore ordinary runs.
* Ghost fields (`Ghost`) record history only; no step reads them.
* The stored metadata (`SMeta`) carries, besides the pending recipients and their counters, whether
  the reverse-path is the null one (`nullFrom`; `QueueMetadata.MsgMeta.OriginalFrom == ""`): it is
  serialised with the rest, survives every rewrite (`nextMeta`) and every recovery, is NOT looked at
  by `readDiskQueue`/`openMessage` (a bounce is scheduled like any other message), and decides in
  `tryDelivery` → `emitDSN` whether the recipients that failed for good are reported
  (`reportedNow`) or given up on silently (`gaveUpNow`).  Other spellings of the envelope
  (internationalised, quoted local parts) are opaque `Addr` values to the model.

The code mirrored is the tree WITH the commit "fix: queue made the meta-data of a new message
durable before its header and body" (`storeNewMessage` fsyncs header and body before it calls
`updateMetadataOnDisk`); the old order is kept in Props/C02 as `storeOpsUnfixed` with its
counterexample.  Failing file-system calls: only transient failures of the READ-ONLY calls of the start-up scan and of
`openMessage` (`Choice.scanFault`, `Choice.openFault`: the entry is skipped and kept); failing mutating calls are
not modelled.  Not modelled: the Windows branch of
`updateMetadataOnDisk`, an `Abort` before `Body` (touches no file).

A zero-length body (header-only message): `io.Copy` issues no `Write` call for it, the body file is
created and stays empty.  `storeOps` keeps the `write .body []`; it changes nothing
(`C02.applyOp_write_nil`, `C02.C02_empty_write_stutter`), so the model has one more — equivalent —
crash point than the code and the driver takes that step silently.  `openMsg` asks whether the body
file EXISTS (`d.body.isNone`), never how long it is: an empty body file is a stored body
(`C02.C02_empty_body_recovered`).

The retry schedule (`retryDelay`, `retryDue`, `restartDue`, end of this file): the instant `tryDelivery` / `readDiskQueue`
put a message on the time wheel for, with the wrapping 64-bit product of the code.

`max_parallelism`: the steps of different ids are independent except that `dispatch` needs one of the
`max_parallelism` delivery slots, held until the attempt's last file-system call (and the
re-scheduling that goes with it) is done; see `C02.SysReachPar` in Props/C02.
-/
namespace MaddyVerif.SpoolFS
open MaddyVerif.Queue (Addr Cls Errs Acc)

abbrev Bytes := List Nat

structure File where
  durable : Bytes
  pending : Bytes
deriving DecidableEq, Repr

def File.content (f : File) : Bytes := f.durable ++ f.pending

/-- A crash keeps the durable part and the first `n` un-synced bytes; what is found on the disk
after the restart is durable. -/
def File.lose (n : Nat) (f : File) : File := ⟨f.durable ++ f.pending.take n, []⟩

inductive FKind | header | body | metaF | metaNew | broken
deriving DecidableEq, Repr

/-- The five spool files of one message id. -/
structure Disk where
  header  : Option File := none
  body    : Option File := none
  metaF    : Option File := none
  metaNew : Option File := none
  broken  : Option File := none
deriving DecidableEq, Repr

def Disk.get (d : Disk) : FKind → Option File
  | .header => d.header
  | .body => d.body
  | .metaF => d.metaF
  | .metaNew => d.metaNew
  | .broken => d.broken

def Disk.set (d : Disk) (k : FKind) (v : Option File) : Disk :=
  match k with
  | .header => { d with header := v }
  | .body => { d with body := v }
  | .metaF => { d with metaF := v }
  | .metaNew => { d with metaNew := v }
  | .broken => { d with broken := v }

inductive Op
  | create (k : FKind)
  | write (k : FKind) (b : Bytes)
  | fsync (k : FKind)
  | rename (src dst : FKind)
  | remove (k : FKind)
deriving DecidableEq, Repr

/-- Effect of one operation.  `write`/`fsync` go through an open descriptor of a file the same
procedure created, `rename`/`remove` of a missing file fail (the code logs it) and change nothing. -/
def applyOp (d : Disk) : Op → Disk
  | .create k => d.set k (some ⟨[], []⟩)
  | .write k b =>
    match d.get k with
    | some f => d.set k (some ⟨f.durable, f.pending ++ b⟩)
    | none => d
  | .fsync k =>
    match d.get k with
    | some f => d.set k (some ⟨f.durable ++ f.pending, []⟩)
    | none => d
  | .rename s t =>
    match d.get s with
    | some f => (d.set s none).set t (some f)
    | none => d
  | .remove k => d.set k none

def execOps (d : Disk) (ops : List Op) : Disk := ops.foldl applyOp d

/-- What a crash leaves of the disk: per file the first `keep k` bytes of its un-synced data.
`keep = fun _ => 0` is "all not-yet-fsynced data dropped"; `keep` ≥ the pending lengths is a
crash between two operations. -/
def Disk.lose (keep : FKind → Nat) (d : Disk) : Disk :=
  { header := d.header.map (File.lose (keep .header))
    body := d.body.map (File.lose (keep .body))
    metaF := d.metaF.map (File.lose (keep .metaF))
    metaNew := d.metaNew.map (File.lose (keep .metaNew))
    broken := d.broken.map (File.lose (keep .broken)) }

/-- Serialised queue metadata: recipients still to be tried, their attempt counters, and whether the
reverse-path the failure report would go to (`MsgMeta.OriginalFrom`) is the null one (`MAIL FROM:<>`,
a bounce): `emitDSN` returns at once for it, so a recipient the queue gives up on gets no report. -/
structure SMeta where
  to    : List Addr
  tries : List (Addr × Nat)
  nullFrom : Bool
deriving DecidableEq, Repr

def SMeta.triesFn (m : SMeta) : Addr → Nat :=
  fun r => match m.tries.find? (fun p => p.1 == r) with
    | some p => p.2
    | none => 0

/-- `encoding/json` round trip of `QueueMetadata` is a parameter with its one law. -/
structure Codec where
  ser   : SMeta → Bytes
  parse : Bytes → Option SMeta
  rt    : ∀ m, parse (ser m) = some m

structure Params where
  maxTries : Nat
  codec    : Codec
  /-- `textproto.ReadHeader` succeeds on these bytes -/
  hdrOk    : Bytes → Bool

/-! ## the procedures, as operation lists -/

/-- `updateMetadataOnDisk` (non-Windows branch): create `.meta.new`, write, fsync, rename over `.meta`. -/
def updateOps (c : Codec) (m : SMeta) : List Op :=
  [.create .metaNew, .write .metaNew (c.ser m), .fsync .metaNew, .rename .metaNew .metaF]

/-- `storeNewMessage`: header, body, their fsyncs, then the metadata (via `updateMetadataOnDisk`);
the rename of `.meta.new` is the last operation. -/
def storeOps (c : Codec) (m : SMeta) (h b : Bytes) : List Op :=
  [.create .header, .write .header h, .create .body, .write .body b, .fsync .header, .fsync .body]
  ++ updateOps c m

/-- `removeFromDisk`: header, body, metaF. -/
def removeOps : List Op := [.remove .header, .remove .body, .remove .metaF]

inductive ScanRes
  | skip                      -- no `.meta`, or unreadable: nothing is done for this id
  | clean (ops : List Op)     -- dangling files removed, nothing scheduled
  | sched                     -- a slot is added to the time wheel
deriving Repr

/-- One iteration of the loop of `readDiskQueue` (keyed on `.meta`). -/
def scanMsg (c : Codec) (d : Disk) : ScanRes :=
  match d.metaF with
  | none => .skip
  | some f =>
    match c.parse f.content with
    | none => .skip
    | some _ =>
      if d.header.isNone then .clean [.remove .metaF, .remove .body]
      else if d.body.isNone then .clean [.remove .metaF, .remove .header]
      else .sched

inductive OpenRes
  | fail                      -- error, nothing touched ("read message" is logged, slot dropped)
  | clean (ops : List Op)     -- error after removing dangling files
  | ok (m : SMeta)
deriving Repr

/-- `openMessage`. -/
def openMsg (P : Params) (d : Disk) : OpenRes :=
  match d.metaF with
  | none => .fail
  | some f =>
    match P.codec.parse f.content with
    | none => .fail
    | some m =>
      if d.body.isNone then .clean [.remove .metaF]
      else match d.header with
        | none => .clean [.remove .metaF, .remove .body]
        | some h => if P.hdrOk h.content then .ok m else .fail

/-- What a restart makes of a disk state when nothing else interferes: the metadata the first
delivery attempt after the restart is made with. -/
def recoverMeta (P : Params) (d : Disk) : Option SMeta :=
  match scanMsg P.codec d with
  | .sched => match openMsg P d with
    | .ok m => some m
    | _ => none
  | _ => none

/-- The five situations of one id on disk. -/
inductive Class | absent | stagedNoMeta | complete | removing | quarantined
deriving DecidableEq, Repr

def classOf (d : Disk) : Class :=
  if d.metaF.isSome then
    if d.header.isSome && d.body.isSome then .complete else .removing
  else if d.broken.isSome then .quarantined
  else if d.header.isSome || d.body.isSome || d.metaNew.isSome then .stagedNoMeta
  else .absent

/-! ## the transition system of one message id -/

structure Ghost where
  orig     : List Addr := []            -- recipients of the accepted transaction
  hdr      : Bytes := []
  body     : Bytes := []
  accepted : Bool := false              -- Commit returned
  aborted  : Bool := false              -- Abort returned
  removing : Bool := false              -- some removal of this id's files was begun
  quarantined : Bool := false           -- a delivery goroutine panicked (`discardBroken`)
  term     : List Addr := []            -- recipients that got a terminal outcome (delivered / reported / given up, see below)
  nullFrom : Bool := false              -- the accepted transaction had the null reverse-path
  dlv      : List Addr := []            -- … delivered by the target
  reported : List Addr := []            -- … named in a failure report handed to the bounce pipeline
  gaveUp   : List Addr := []            -- … failed for good while the reverse-path is null: no report can be sent
  commits  : List SMeta := []           -- metadata snapshots made durable by a completed rename, newest first
  attempts : List (List Addr) := []     -- recipient lists of the delivery attempts begun, newest first

inductive Pc
  | fresh
  | store (m : SMeta) (h b : Bytes) (i : Nat)   -- in `storeNewMessage`, `i` operations issued
  | stored (m : SMeta)                          -- `Body` returned; neither `Commit` nor `Abort` yet
  | abortRm (i : Nat)                           -- `Abort`: in `removeFromDisk`
  | sched (mem : Option SMeta)                  -- slot in the time wheel (`mem`: metadata kept in memory)
  | attempting (m : SMeta)                      -- `tryDelivery` → `deliver` in progress
  | update (m : SMeta) (i : Nat)                -- `tryDelivery` → `updateMetadataOnDisk m`
  | remove (i : Nat)                            -- `tryDelivery` → `removeFromDisk`
  | clean (ops : List Op)                       -- dangling-file clean-up (scan / open)
  | quarantine                                  -- panic handler of `dispatch`: `discardBroken`
  | fin                                         -- nothing in memory for this id
  | down                                        -- process stopped

structure St where
  disk : Disk := {}
  pc   : Pc := .fresh
  g    : Ghost := {}

/-- The read-only file-system calls of the start-up scan (`readDiskQueue`: open + read of `.meta` in
`readMessageMeta`, `Stat` of header and body) and of `openMessage` (the same `.meta` calls, `Stat` of the body,
open of the header) that can fail for a TRANSIENT reason (EMFILE, EIO, EACCES, …). -/
inductive FaultAt | openMeta | readMeta | statHeader | statBody | openHeader
deriving DecidableEq, Repr
-- (a failing first `Read` of the header file is swallowed by the `Peek` at the beginning of `textproto.ReadHeader`)

def Disk.metaParses (c : Codec) (d : Disk) : Bool :=
  match d.metaF with
  | some f => (c.parse f.content).isSome
  | none => false

/-- Does one iteration of `readDiskQueue` get as far as this call? -/
def scanReaches (c : Codec) (d : Disk) : FaultAt → Bool
  | .openMeta => d.metaF.isSome
  | .readMeta => d.metaF.isSome
  | .statHeader => d.metaParses c
  | .statBody => d.metaParses c && d.header.isSome
  | .openHeader => false

/-- Does `openMessage` get as far as this call? -/
def openReaches (c : Codec) (d : Disk) : FaultAt → Bool
  | .openMeta => d.metaF.isSome
  | .readMeta => d.metaF.isSome
  | .statHeader => false
  | .statBody => d.metaParses c
  | .openHeader => d.metaParses c && d.body.isSome

inductive Choice
  | accept (rcpts : List Addr) (hdr body : Bytes) (nullFrom : Bool)   -- `Body` is called: `storeNewMessage` begins
  | op                                              -- the next file-system operation is issued
  | commit
  | abort
  | dispatch                                        -- the time wheel fires the slot
  | outcome (e : Errs)                              -- the attempt ends with these per-recipient errors
  | panic                                           -- the delivery goroutine panics during the attempt
  | crash (keep : FKind → Nat)
  | tornCrash (n : Nat) (keep : FKind → Nat)         -- only the first `n` bytes of the next write reach the file
  | restart
  /-- restart whose start-up scan meets a transient fault at call `w` for this id: "failed to read meta-data,
  skipping" / "skipping nonstat'able … file" — the entry is SKIPPED AND KEPT, nothing is touched, nothing is
  scheduled in this run of the process -/
  | scanFault (w : FaultAt)
  /-- the time wheel fires the slot and `openMessage` meets a transient fault at call `w`: the error is logged
  ("read message"), the slot is dropped, nothing is touched -/
  | openFault (w : FaultAt)
  /-- `queueDelivery.Commit` on a queue whose time wheel was already stopped (`Queue.Close` raced with the open
  transaction: Start, AddRcpt, Body, Close, Commit): `TimeWheel.Add` ignores the slot, `Commit` returns nil all the
  same — the transaction IS acknowledged (acceptance = `Commit` returned nil), nothing is kept in memory, the spool
  entry written by `Body` stays as it is and the next start-up scan finds it -/
  | commitStopped

/-- Result of the classification loop of `tryDelivery` for metadata `m` and errors `e`. -/
def attemptResult (P : Params) (m : SMeta) (e : Errs) : Acc :=
  Queue.classify P.maxTries e m.to ⟨m.triesFn, [], []⟩

def delivered (m : SMeta) (e : Errs) : List Addr := m.to.filter (fun r => (e r).isNone)

/-- One delivery attempt at the target, stage by stage (`Queue.deliver`): the result of `AddRcpt` per recipient,
whether the delivery object implements `module.PartialDelivery`, the result of `Body` (plain target: one result
for everybody) or the statuses set by `BodyNonAtomic` (per recipient), and the result of `Commit`. -/
structure Staged where
  add      : Errs
  partialT : Bool
  bodyAll  : Option Cls
  bodyEach : Errs
  commit   : Option Cls

/-- Errors after the body stage: a recipient refused by `AddRcpt` keeps that error, an accepted one has the
result of `Body` / its own `BodyNonAtomic` status. -/
def Staged.afterBody (sc : Staged) : Errs :=
  fun r => if (sc.add r).isSome then sc.add r else if sc.partialT then sc.bodyEach r else sc.bodyAll

/-- The `partialError` that `Queue.deliver` returns for the recipient list `to`: nobody accepted or everybody
failed in the body stage → `Abort`, the errors so far; otherwise `Commit`, and when THAT fails every accepted
recipient gets the commit error (`expandToPartialErr`) — for both kinds of target: the message is effective at
the target only once `Commit` succeeded. -/
def deliverErrs (to : List Addr) (sc : Staged) : Errs :=
  let acc := to.filter (fun r => (sc.add r).isNone)
  if acc.isEmpty then sc.add
  else if acc.all (fun r => (sc.afterBody r).isSome) then sc.afterBody
  else match sc.commit with
    | none => sc.afterBody
    | some c => fun r => if (sc.add r).isSome then sc.add r else some c

/-- The branch `Queue.deliver` takes, as DATA (decided once per attempt; `deliverErrs` is a function of the recipient
and the compiled driver would decide it again for every recipient — cubic for messages with thousands of them). -/
inductive DeliverCase
  | nobodyAccepted | bodyFailedForAll | committed | commitFailed (c : Cls)
deriving DecidableEq, Repr

def deliverCase (to : List Addr) (sc : Staged) : DeliverCase :=
  let acc := to.filter (fun r => (sc.add r).isNone)
  if acc.isEmpty then .nobodyAccepted
  else if acc.all (fun r => (sc.afterBody r).isSome) then .bodyFailedForAll
  else match sc.commit with
    | none => .committed
    | some c => .commitFailed c

def errsOfCase (sc : Staged) : DeliverCase → Errs
  | .nobodyAccepted => sc.add
  | .bodyFailedForAll => sc.afterBody
  | .committed => sc.afterBody
  | .commitFailed c => fun r => if (sc.add r).isSome then sc.add r else some c

def nextMeta (m : SMeta) (a : Acc) : SMeta := ⟨a.newR, a.newR.map (fun r => (r, a.tries r)), m.nullFrom⟩

/-- Recipients named in the failure report of this attempt (`emitDSN`: none for the null reverse-path). -/
def reportedNow (m : SMeta) (a : Acc) : List Addr := if m.nullFrom then [] else a.failedR

/-- Recipients the queue gives up on without a report (null reverse-path). -/
def gaveUpNow (m : SMeta) (a : Acc) : List Addr := if m.nullFrom then a.failedR else []

def isRemove : Op → Bool
  | .remove _ => true
  | _ => false

def step? (P : Params) (s : St) : Choice → Option St
  | .accept rcpts h b nf =>
    match s.pc with
    | .fresh =>
      if P.hdrOk h then
        some { s with pc := .store ⟨rcpts, [], nf⟩ h b 0, g := { s.g with orig := rcpts, hdr := h, body := b, nullFrom := nf } }
      else none
    | _ => none
  | .op =>
    match s.pc with
    | .store m h b i =>
      match (storeOps P.codec m h b)[i]? with
      | some o =>
        some { disk := applyOp s.disk o
               pc := if i + 1 = (storeOps P.codec m h b).length then .stored m else .store m h b (i + 1)
               g := if o = .rename .metaNew .metaF then { s.g with commits := m :: s.g.commits } else s.g }
      | none => none
    | .abortRm i =>
      match removeOps[i]? with
      | some o =>
        if i + 1 = removeOps.length then
          some { disk := applyOp s.disk o, pc := .fin, g := { s.g with aborted := true } }
        else some { s with disk := applyOp s.disk o, pc := .abortRm (i + 1) }
      | none => none
    | .update m i =>
      match (updateOps P.codec m)[i]? with
      | some o =>
        some { disk := applyOp s.disk o
               pc := if i + 1 = (updateOps P.codec m).length then .sched none else .update m (i + 1)
               g := if o = .rename .metaNew .metaF then { s.g with commits := m :: s.g.commits } else s.g }
      | none => none
    | .remove i =>
      match removeOps[i]? with
      | some o =>
        some { s with disk := applyOp s.disk o
                      pc := if i + 1 = removeOps.length then .fin else .remove (i + 1) }
      | none => none
    | .clean (o :: rest) =>
      some { s with disk := applyOp s.disk o, pc := if rest.isEmpty then .fin else .clean rest }
    | .quarantine => some { s with disk := applyOp s.disk (.rename .metaF .broken), pc := .fin }
    | _ => none
  | .commit =>
    match s.pc with
    | .stored m => some { s with pc := .sched (some m), g := { s.g with accepted := true } }
    | _ => none
  | .abort =>
    match s.pc with
    | .stored _ => some { s with pc := .abortRm 0, g := { s.g with removing := true } }
    | _ => none
  | .dispatch =>
    match s.pc with
    | .sched (some m) => some { s with pc := .attempting m, g := { s.g with attempts := m.to :: s.g.attempts } }
    | .sched none =>
      match openMsg P s.disk with
      | .ok m => some { s with pc := .attempting m, g := { s.g with attempts := m.to :: s.g.attempts } }
      | .clean ops => some { s with pc := .clean ops, g := { s.g with removing := true } }
      | .fail => some { s with pc := .fin }
    | _ => none
  | .outcome e =>
    match s.pc with
    | .attempting m =>
      let a := attemptResult P m e
      let g' := { s.g with term := s.g.term ++ delivered m e ++ a.failedR
                           dlv := s.g.dlv ++ delivered m e
                           reported := s.g.reported ++ reportedNow m a
                           gaveUp := s.g.gaveUp ++ gaveUpNow m a }
      if a.newR.isEmpty then some { s with pc := .remove 0, g := { g' with removing := true } }
      else some { s with pc := .update (nextMeta m a) 0, g := g' }
    | _ => none
  | .panic =>
    match s.pc with
    | .attempting _ => some { s with pc := .quarantine, g := { s.g with quarantined := true } }
    | _ => none
  | .crash keep => some { s with disk := s.disk.lose keep, pc := .down }
  | .tornCrash n keep =>
    let torn : Option Op := match s.pc with
      | .store m h b i => (storeOps P.codec m h b)[i]?
      | .update m i => (updateOps P.codec m)[i]?
      | _ => none
    match torn with
    | some (.write k b) => some { s with disk := (applyOp s.disk (.write k (b.take n))).lose keep, pc := .down }
    | _ => none
  | .restart =>
    match s.pc with
    | .down =>
      match scanMsg P.codec s.disk with
      | .skip => some { s with pc := .fin }
      | .clean ops => some { s with pc := .clean ops, g := { s.g with removing := true } }
      | .sched => some { s with pc := .sched none }
    | _ => none
  | .scanFault w =>
    match s.pc with
    | .down => if scanReaches P.codec s.disk w then some { s with pc := .fin } else none
    | _ => none
  | .openFault w =>
    match s.pc with
    | .sched none => if openReaches P.codec s.disk w then some { s with pc := .fin } else none
    | _ => none
  | .commitStopped =>
    match s.pc with
    | .stored _ => some { s with pc := .fin, g := { s.g with accepted := true } }
    | _ => none

/-- States reachable from the initial one (fresh id, empty disk) by any choices. -/
inductive Reach (P : Params) : St → Prop
  | init : Reach P {}
  | step {s s' : St} (c : Choice) : Reach P s → step? P s c = some s' → Reach P s'

/-! ## a concrete codec (used by the driver; shows the `Codec` law is satisfiable) -/

def encTries : List (Addr × Nat) → Bytes
  | [] => []
  | (r, n) :: t => r :: n :: encTries t

def decTries : Bytes → List (Addr × Nat)
  | r :: n :: t => (r, n) :: decTries t
  | _ => []

theorem decTries_encTries (l : List (Addr × Nat)) : decTries (encTries l) = l := by
  induction l with
  | nil => rfl
  | cons p t ih => cases p; simp [encTries, decTries, ih]

def listSer (m : SMeta) : Bytes := (if m.nullFrom then 1 else 0) :: m.to.length :: (m.to ++ encTries m.tries)

def listParse : Bytes → Option SMeta
  | f :: n :: rest => if n ≤ rest.length then some ⟨rest.take n, decTries (rest.drop n), f == 1⟩ else none
  | _ => none

theorem listParse_listSer (m : SMeta) : listParse (listSer m) = some m := by
  cases m with
  | mk to tries nf => cases nf <;> simp [listSer, listParse, decTries_encTries]

def listCodec : Codec := ⟨listSer, listParse, listParse_listSer⟩

/-! ## the retry schedule: WHEN a stored message is due (`tryDelivery`, `readDiskQueue`)

Instants and durations are integers (nanoseconds).  `time.Duration` is a 64-bit two's complement integer, so the
product `q.initialRetryTime * scaleFactor` WRAPS (`wrap64`).  `scaleFactor := time.Duration(math.Pow(scale, tries-1))`:
the float power and the float→integer conversion are library / hardware primitives — the converted value `conv` is a
PARAMETER.  For a message without any recorded attempt `readDiskQueue` uses the sentinel 999999 as tries count: with a
scale > 1 the power is +Inf, and the conversion of +Inf is implementation-defined in Go (`-2^63` on amd64, the platform
the check runs on; `2^63-1` where the conversion saturates).  `time.Until` saturates at ±2^63 ns; for a post-init delay
`0 ≤ post < 2^63` the saturated and the exact difference are on the same side of `post`, so the comparison is modelled
on exact integers.  What the model does NOT say is how long a nanosecond takes: the tie to the code is the monitor that
reads the real time wheel (`C02/retry-never-due`) and the T1 fingerprints of `tryDelivery` / `readDiskQueue`. -/

def two63 : Int := 9223372036854775808
def two64 : Int := 18446744073709551616

/-- 64-bit two's complement wrap-around of an exact integer -/
def wrap64 (x : Int) : Int := (x + two63) % two64 - two63

/-- `q.initialRetryTime * scaleFactor` (Go: wrapping `int64` product) -/
def retryDelay (init conv : Int) : Int := wrap64 (init * conv)

/-- `tryDelivery`: `time.Now().Add(delay)` -/
def retryDue (now delay : Int) : Int := now + delay

/-- `readDiskQueue`: `meta.LastAttempt.Add(delay)`, but not before `now + postInitDelay` -/
def restartDue (now last delay post : Int) : Int :=
  if (last + delay) - now < post then now + post else last + delay

/-! ## the spool directory: all ids together -/

abbrev Dir := Nat → Disk

def Dir.apply (dir : Dir) (id : Nat) (o : Op) : Dir :=
  fun j => if j = id then applyOp (dir j) o else dir j

end MaddyVerif.SpoolFS
