/-
Model of the outbound security decisions of the remote target (C05).  Core Lean only.

Mirrored Go code (tree after the four `fix:` commits recorded in notes/C05.md):
* `framework/module/mxauth.go`            levels `TLSNone < TLSEncrypted < TLSAuthenticated`, `MXNone < MX_MTASTS < MX_DNSSEC`
* `internal/target/remote/policy_group.go` the policy list (any list here; the driver builds it in the fixed group order)
* `framework/config/map.go`               `Map.Enum` (exact match against the allowed words) as used by `localPolicy.Init`: `localInit`
* `internal/target/remote/security.go`     `CheckMX` / `CheckConn` of mtasts, sts_preload, dane, dnssec, local_policy; `discoverTLSA` (incl. the CNAME branch)
* `internal/target/remote/dane.go`         `verifyDANE` only through its verdict on the record kind (C13 models the function itself)
* `internal/target/remote/connect.go`      `connect` (verify → unauthenticated TLS → plaintext), `attemptMX`, `newConn`, `connectionForDomain`
* `internal/target/remote/remote.go`       `Start` (override ⇒ no policies), `AddRcpt`, `BodyNonAtomic` (quarantine), `Close` (return to pool)
* `internal/target/queue/queue.go`         `Start` / `deliver`: which content of the source's meta-data object reaches the target (last section)
* `internal/smtpconn/pool/pool.go`         `Get` (first usable connection of the key, FIFO) / `Return`

* `framework/dns/dnssec.go`                 `CheckCNAMEAD`, `AuthLookupCNAME`, `AuthLookupTLSA` as oracles over the per-MX facts

External behaviour is data: per-MX facts (`MX`), per-domain facts (`Domain`).  Times (idle limits) are not modelled.

DNS world assumption (resolver oracle): the AD bit of the answer to an address query for a CNAME'd host is the
conjunction over the chain (alias RRset and address RRset); the TLSA RRset at `_25._tcp.<canonical>` of a CNAME'd
MX lives in (or below) the zone of the canonical name, so it is never reported authenticated when the address
RRset of that name is not (`canonTlsaAD`).
-/
namespace MaddyVerif.RemoteSec

/-! Levels are `Nat`s: 0 none · 1 encrypted · 2 authenticated (TLS);  0 none · 1 mtasts · 2 dnssec (MX). -/

/-- Error class as `exterrors.IsTemporaryOrUnspec` sees it (what makes the queue retry). -/
inductive Cls | temp | perm
deriving DecidableEq, Repr

inductive StartTLS
  | offered    -- advertised, command accepted, handshake possible
  | stripped   -- not advertised
  | hsFail     -- advertised, handshake fails with an error that is not a certificate verification error
  | cmdFail    -- advertised, the STARTTLS command is refused
deriving DecidableEq, Repr

inductive Cert
  | valid       -- chains to a trusted root and names the MX
  | untrusted   -- unknown issuer / self-signed
  | wrongName   -- trusted issuer, other name
deriving DecidableEq, Repr

/-- What is published at `_25._tcp.<mx>` relative to the certificate CHAIN the server presents
(end-entity certificate first, then 1–2 further certificates: its issuer and / or certificates that have nothing to
do with it, e.g. the genuine MX's public certificate replayed by a server that does not hold its key):
* `eeMatch`  DANE-EE (usage 3) record matching the END-ENTITY certificate (position 0);
* `taMatch`  DANE-TA (usage 2) record matching a presented CA certificate the end-entity certificate chains to;
* `eeOther`  DANE-EE record whose digest matches a presented certificate OTHER than the end-entity one
             (`verifyDANE` compares usage-3 records with `PeerCertificates[0]` only: no match);
* `taOther`  DANE-TA record matching a presented certificate that is not on the certification path of the
             end-entity certificate (foreign CA, or a non-CA certificate: chain verification fails);
* `mismatch` usable record matching nothing that is presented; `unusable` only records of other usages. -/
inductive Tlsa
  | none | eeMatch | taMatch | mismatch | unusable | servfail | eeOther | taOther
deriving DecidableEq, Repr

inductive STS
  | absent    -- no policy / fetch failed
  | none | testing | enforce
deriving DecidableEq, Repr

/-- Is the MX host name an alias?  `secure` / `insecure`: the CNAME RRset at the MX name is / is not
DNSSEC-authenticated. -/
inductive Alias | none | secure | insecure
deriving DecidableEq, Repr

/-- For an MX whose name is a CNAME alias, `aAD` / `tlsaAD` / `tlsa` describe the CANONICAL name (address RRset,
TLSA RRset at `_25._tcp.<canonical>`), `tlsaI` / `tlsaIAD` the TLSA RRset at `_25._tcp.<MX name>` (the initial
name), `cnameErr` says that the CNAME-type query for the MX name fails (SERVFAIL).  Without an alias the three
extra fields are not looked at. -/
structure MX where
  srv      : Nat
  up       : Bool
  starttls : StartTLS
  cert     : Cert
  stsMatch : Bool   -- `policy.Match(mx)`
  aAD      : Bool   -- AD bit of the address RRset(s) of the (canonical) host: of the A answer, or of the AAAA answer
                    -- when the host has no A record (`CheckCNAMEAD` asks for A, then for AAAA)
  tlsaAD   : Bool   -- AD bit on the TLSA lookup (canonical name)
  tlsa     : Tlsa
  reqtls   : Bool   -- server implements REQUIRETLS (go-smtp advertises it on TLS sessions only)
  cname    : Alias := .none
  tlsaI    : Tlsa := .none   -- TLSA RRset at the initial name (alias only)
  tlsaIAD  : Bool := false
  cnameErr : Bool := false
deriving DecidableEq, Repr

/-- `lookupMX` never returns an empty list (falls back to the domain itself). -/
structure Domain where
  mxAD : Bool        -- AD bit on the MX lookup (`dnssecOk`)
  sts  : STS
  mx   : MX
  more : List MX
deriving Repr

def Domain.mxs (d : Domain) : List MX := d.mx :: d.more

inductive Policy
  | mtasts | stsPreload | dane | dnssec
  | localP (minTLS minMX : Nat)
deriving DecidableEq, Repr

structure Cfg where
  policies      : List Policy   -- `Target.policies`
  allowOverride : Bool          -- `requiretls_override`
  relaxed       : Bool          -- `relaxed_requiretls`
  reuseLimit    : Nat           -- `conn_reuse_limit`
deriving Repr

/-- `quarantine`: 0 never, 1 set before the recipients are added, 2 set between recipients and body. -/
structure Msg where
  requireTLS : Bool
  tlsNo      : Bool        -- `msgMeta.TLSRequireOverride` (TLS-Required: No)
  quarantine : Nat
  rcpts      : List Nat    -- recipient domains, in order
deriving Repr

/-! ## TLS -/

structure TlsState where
  tlsOn    : Bool   -- `HandshakeComplete`
  verified : Bool   -- `VerifiedChains != nil`
deriving DecidableEq, Repr

inductive HS | ok | verifyErr | otherErr
deriving DecidableEq

/-- One STARTTLS + EHLO round (crypto/tls as an oracle over the facts). -/
def handshake (mx : MX) (skipVerify : Bool) : HS :=
  match mx.starttls with
  | .hsFail => .otherErr
  | _ => if skipVerify || mx.cert == .valid then .ok else .verifyErr

def plain : TlsState := ⟨false, false⟩

/-- `remoteDelivery.connect`: the `retry:` ladder.  Result: level and TLS state, or a connection error. -/
def connect (mx : MX) : Except Cls (Nat × TlsState) :=
  if !mx.up then .error .temp                                  -- dial error (450)
  else match mx.starttls with
    | .stripped => .ok (0, plain)
    | .cmdFail => .error .temp                                 -- 454 to STARTTLS: no fallback
    | _ =>
      match handshake mx false with
      | .ok => .ok (2, ⟨true, true⟩)
      | .verifyErr =>                                          -- retry with InsecureSkipVerify
        match handshake mx true with
        | .ok => .ok (1, ⟨true, false⟩)
        | _ => .ok (0, plain)                                  -- retry in plaintext
      | .otherErr => .ok (0, plain)                            -- retry in plaintext

/-! ## DANE -/

inductive Disc
  | none             -- `(nil, nil)` or a not-found error
  | fail             -- lookup error
  | recs (t : Tlsa)  -- non-empty authenticated RRset
deriving DecidableEq, Repr

/-- the last lookup of `discoverTLSA` (TLSA at the initial name): error ⇒ failure (a not-found error is "no
records"), a non-authenticated or empty answer ⇒ no records -/
def lookupInitial (t : Tlsa) (ad : Bool) : Disc :=
  match t with
  | .servfail => .fail
  | .none => .none
  | t => if !ad then .none else .recs t

/-- AD bit the resolver reports for the TLSA RRset at the canonical name of an alias (see the file header) -/
def canonTlsaAD (mx : MX) : Bool := mx.aAD && mx.tlsaAD

/-- `daneDelivery.discoverTLSA`.
Without alias (`rname == mx`): non-authenticated address records ⇒ skip, else the TLSA RRset of the name.
With an alias: `adA` = AD of the whole chain; if it is not set the CNAME-type query decides (error ⇒ failure,
insecure alias ⇒ skip); then the canonical name is tried FIRST (error ⇒ failure; authenticated non-empty RRset ⇒
these records, no fall-back), and only then the initial name. -/
def discover (mx : MX) : Disc :=
  match mx.cname with
  | .none =>
    if !mx.aAD then .none                     -- non-authenticated A records: skip
    else lookupInitial mx.tlsa mx.tlsaAD
  | c =>
    let aliasAD := c == .secure
    let adA := aliasAD && mx.aAD              -- `CheckCNAMEAD`
    if !adA && mx.cnameErr then .fail         -- `AuthLookupCNAME` fails
    else if !adA && !aliasAD then .none       -- non-authenticated CNAME record: skip
    else match mx.tlsa with                   -- `AuthLookupTLSA(rname)`
      | .servfail => .fail
      | t =>
        if t != .none && canonTlsaAD mx then .recs t
        else lookupInitial mx.tlsaI mx.tlsaIAD

/-! ## how a lookup fails (round 10)

`ExtResolver.exchange` turns EVERY answer whose RCODE is not NOERROR into an `RCodeError{name, rcode}`; `dns.IsNotFound`
recognises NXDOMAIN (3) alone.  `discoverTLSA` hands every lookup error that is not "not found" to its caller, and
`daneDelivery.CheckConn` marks whatever error the discovery ended with as TEMPORARY (`exterrors.WithTemporary(err, true)`)
— it does not ask the error (`RCodeError.Temporary()` is true for SERVFAIL only).  So for the delivery the RCODE of a
failed lookup carries no information: FORMERR (1), SERVFAIL (2), NOTIMP (4), REFUSED (5), … are all "the lookup failed"
(the fact `Tlsa.servfail` / `cnameErr` of the MX).  `Tlsa.under` is the fact the model reads for a TLSA query answered
with a given RCODE when `t` is what the zone publishes. -/

inductive Answered | data | notFound | failed
deriving DecidableEq, Repr

/-- `exchange` + `dns.IsNotFound` on the RCODE of an answer -/
def answered (rcode : Nat) : Answered :=
  if rcode = 0 then .data else if rcode = 3 then .notFound else .failed

/-- what `AuthLookupTLSA` + the `IsNotFound` tests of `discoverTLSA` make of an answer with this RCODE -/
def Tlsa.under (t : Tlsa) (rcode : Nat) : Tlsa :=
  match answered rcode with
  | .data => t
  | .notFound => .none
  | .failed => .servfail

/-- `AuthLookupCNAME` for a name that IS an alias (an NXDOMAIN answer to the CNAME-type query of a name whose address
answer showed a CNAME is outside the generated world): the fact `cnameErr` -/
def cnameQueryFails (rcode : Nat) : Bool := answered rcode == .failed

inductive Verdict | noReq | auth | err
deriving DecidableEq

/-- `verifyDANE` on a non-empty RRset of the given kind (all its errors are 550).  DANE-EE records are compared
with the end-entity certificate only, DANE-TA records authenticate only through a verified chain from the
end-entity certificate (name check included): `eeOther` / `taOther` / `mismatch` are refused. -/
def verifyDANE (t : Tlsa) (cert : Cert) (tlsOn : Bool) : Verdict :=
  if !tlsOn then .err else
  match t with
  | .unusable => .noReq
  | .eeMatch => .auth
  | .taMatch => if cert == .wrongName then .err else .auth
  | _ => .err

/-! ## a lookup of TLSA discovery that CRASHES (round 9)

`daneDelivery.PrepareConn` runs `discoverTLSA` in a goroutine of its own and recovers a panic there; the future is then
never completed and `CheckConn` ends — with the delivery's context — in a temporary refusal: for the delivery a crashed
discovery IS a failed discovery.  The model expresses a crash as facts: the lookup that crashes is a lookup that fails.
Stages: 1 the address lookups (`CheckCNAMEAD`, always made), 2 the CNAME-type query (`AuthLookupCNAME`, made for an
alias whose address answer is not authenticated), 3 the TLSA lookups (`AuthLookupTLSA`; the first one that is made
crashes).  A stage that discovery does not reach has no effect. -/

def MX.crashedAt (mx : MX) (stage : Nat) : MX :=
  match stage with
  | 1 => { mx with aAD := true, tlsa := .servfail, cname := if mx.cname == .none then .none else .secure }
  | 2 => { mx with cnameErr := true }
  | 3 => { mx with tlsa := .servfail }
  | _ => mx

/-- The ADDRESS queries of discovery (`CheckCNAMEAD`: A, then AAAA) are answered with this RCODE.  A failed A query is
the error of `CheckCNAMEAD`; for a host without A record the failed AAAA query leaves `rname` empty ("no address
associated with the host").  Either way discovery ends in an error that is not "not found": the facts of a failure at
stage 1. -/
def MX.addrLookupAnswered (mx : MX) (rcode : Nat) : MX :=
  if answered rcode == .failed then mx.crashedAt 1 else mx

/-! ## policies -/

def checkMX (p : Policy) (lvl : Nat) (d : Domain) (mx : MX) : Except Cls Nat :=
  match p with
  | .mtasts =>
    if d.sts == .absent then .ok 0
    else if !mx.stsMatch then (if d.sts == .enforce then .error .perm else .ok 0)
    else .ok 1
  | .stsPreload => .ok lvl
  | .dane => .ok 0
  | .dnssec => if d.mxAD then .ok 2 else .ok 0
  | .localP _ minMX => if lvl < minMX then .error .temp else .ok 0

def checkConn (p : Policy) (tlsLevel : Nat) (d : Domain) (mx : MX) (s : TlsState) : Except Cls Nat :=
  match p with
  | .mtasts =>
    if d.sts != .enforce then .ok 0
    else if !s.tlsOn then .error .temp
    else if !s.verified then .error .temp
    else .ok 0
  | .stsPreload => .ok tlsLevel
  | .dane =>
    match discover mx with
    | .fail => .error .temp                   -- `WithTemporary(err, true)`: whatever the error says of itself
    | .none => .ok 0
    | .recs t =>
      match verifyDANE t mx.cert s.tlsOn with
      | .err => .error .perm
      | .auth => .ok 2
      | .noReq => .ok 0
  | .dnssec => .ok 0
  | .localP minTLS _ => if tlsLevel < minTLS then .error .temp else .ok 0

/-- the first loop of `attemptMX` -/
def checkMXs : List Policy → Nat → Domain → MX → Except Cls Nat
  | [], lvl, _, _ => .ok lvl
  | p :: r, lvl, d, mx =>
    match checkMX p lvl d mx with
    | .error e => .error e
    | .ok l => checkMXs r (max lvl l) d mx

/-- the second loop of `attemptMX` -/
def checkConns : List Policy → Nat → Domain → MX → TlsState → Except Cls Nat
  | [], lvl, _, _, _ => .ok lvl
  | p :: r, lvl, d, mx, s =>
    match checkConn p lvl d mx s with
    | .error e => .error e
    | .ok l => checkConns r (max lvl l) d mx s

structure Conn where
  mx           : MX
  tls          : TlsState
  mxLevel      : Nat
  tlsLevel     : Nat
  transactions : Nat
  secOverride  : Bool    -- opened for a delivery whose policies were overridden
deriving DecidableEq, Repr

def attemptMX (ps : List Policy) (ov : Bool) (d : Domain) (mx : MX) : Except Cls Conn :=
  match checkMXs ps 0 d mx with
  | .error e => .error e
  | .ok mxl =>
    match connect mx with
    | .error e => .error e
    | .ok (tl, s) =>
      match checkConns ps tl d mx s with
      | .error e => .error e
      | .ok tl' => .ok ⟨mx, s, mxl, tl', 0, ov⟩

/-- `lastErr` update in the MX loop of `newConn`: a temporary error is only replaced by another
temporary one (`lastErr == nil || !IsTemporaryOrUnspec(lastErr) || IsTemporaryOrUnspec(err)`). -/
def keepErr (last e : Cls) : Cls := if last == .temp then .temp else e

/-- the MX loop of `newConn` after the earlier candidates failed with (kept) error `last` -/
def tryMXs (ps : List Policy) (ov : Bool) (d : Domain) : List MX → Cls → Except Cls Conn
  | [], last => .error last
  | mx :: rest, last =>
    match attemptMX ps ov d mx with
    | .ok c => .ok c
    | .error e => tryMXs ps ov d rest (keepErr last e)

/-- `newConn`: the first usable candidate; if there is none the error is temporary as soon as one
candidate failed temporarily. -/
def newConn (ps : List Policy) (ov : Bool) (d : Domain) : Except Cls Conn :=
  match attemptMX ps ov d d.mx with
  | .ok c => .ok c
  | .error e => tryMXs ps ov d d.more e

/-! ## delivery -/

/-- `Target.Start`: the per-message policy list. -/
def overridden (cfg : Cfg) (m : Msg) : Bool := m.tlsNo && cfg.allowOverride

def startPolicies (cfg : Cfg) (m : Msg) : List Policy :=
  if overridden cfg m then [] else cfg.policies

abbrev Pool := Nat → List Conn

def Pool.set (p : Pool) (d : Nat) (l : List Conn) : Pool := fun x => if x = d then l else p x

def emptyPool : Pool := fun _ => []

/-- `mxConn.Usable` (no errored transactions and a working RSET in this model) -/
def usable (cfg : Cfg) (c : Conn) : Bool := decide (c.transactions ≤ cfg.reuseLimit)

/-- `pool.Get`: first usable connection; unusable ones in front of it are closed. -/
def poolGet (cfg : Cfg) : List Conn → Option Conn × List Conn
  | [] => (none, [])
  | c :: r => if usable cfg c then (some c, r) else poolGet cfg r

/-- a connection of the running delivery: recipient domain, connection, REQUIRETLS sent with MAIL -/
structure Used where
  dom    : Nat
  conn   : Conn
  mailRT : Bool
deriving DecidableEq, Repr

structure DState where
  conns : List Used
  pool  : Pool

def lookupConn (l : List Used) (dom : Nat) : Option Used := l.find? (fun u => u.dom == dom)

/-- server-side: the REQUIRETLS extension is advertised on this connection -/
def extREQUIRETLS (c : Conn) : Bool := c.mx.reqtls && c.tls.tlsOn

/-- `connectionForDomain` -/
def connectionForDomain (cfg : Cfg) (doms : Nat → Domain) (m : Msg) (st : DState) (dom : Nat) :
    Except Cls Unit × DState :=
  match lookupConn st.conns dom with
  | some _ => (.ok (), st)
  | none =>
    let got := poolGet cfg (st.pool dom)
    let st1 : DState := { st with pool := st.pool.set dom got.2 }
    let r : Except Cls Conn :=
      match got.1 with
      | some c => if !m.requireTLS then .ok c
                  else newConn (startPolicies cfg m) (overridden cfg m) (doms dom)   -- pool ignored
      | none => newConn (startPolicies cfg m) (overridden cfg m) (doms dom)
    match r with
    | .error e => (.error e, st1)
    | .ok c =>
      if m.requireTLS && decide (c.tlsLevel < 2) then (.error .perm, st1)
      else if m.requireTLS && decide (c.mxLevel < 1) then (.error .perm, st1)
      else
        let ext := extREQUIRETLS c
        let mailRT := m.requireTLS && !(cfg.relaxed && !ext)
        if mailRT && !ext then (.error .temp, st1)      -- go-smtp client: "server does not support REQUIRETLS"
        else (.ok (), { st1 with conns := st1.conns ++ [⟨dom, c, mailRT⟩] })

inductive RcptRes | ok | err (c : Cls)
deriving DecidableEq, Repr

/-- `AddRcpt` -/
def addRcpt (cfg : Cfg) (doms : Nat → Domain) (m : Msg) (st : DState) (dom : Nat) : RcptRes × DState :=
  if m.quarantine == 1 then (.err .perm, st)
  else match connectionForDomain cfg doms m st dom with
    | (.ok _, st') => (.ok, st')
    | (.error e, st') => (.err e, st')

def addRcpts (cfg : Cfg) (doms : Nat → Domain) (m : Msg) : List Nat → DState → List (Nat × RcptRes) × DState
  | [], st => ([], st)
  | d :: rest, st =>
    let r := addRcpt cfg doms m st d
    let rr := addRcpts cfg doms m rest r.2
    ((d, r.1) :: rr.1, rr.2)

/-- `remoteDelivery.Close`: every connection of the delivery goes back to the pool or is closed. -/
def closeConns (cfg : Cfg) : List Used → Pool → Pool
  | [], p => p
  | u :: rest, p =>
    let c := { u.conn with transactions := u.conn.transactions + 1 }
    if c.secOverride || !usable cfg c then closeConns cfg rest p
    else closeConns cfg rest (p.set u.dom (p u.dom ++ [c]))

structure MsgOut where
  rcpts : List (Nat × RcptRes)   -- final status per recipient (after the body stage)
  data  : List Used              -- connections the content was written to
deriving Repr

/-- `BodyNonAtomic`: a quarantined message gets 550 for every accepted recipient, nothing is sent -/
def bodyRes (quarantined : Bool) (r : RcptRes) : RcptRes :=
  if quarantined && r == .ok then .err .perm else r

/-- one message: Start, AddRcpt…, BodyNonAtomic (if some recipient was accepted), Commit/Abort -/
def deliverMsg (cfg : Cfg) (doms : Nat → Domain) (m : Msg) (pool : Pool) : MsgOut × Pool :=
  let r := addRcpts cfg doms m m.rcpts ⟨[], pool⟩
  let quarantined := m.quarantine != 0
  let out : MsgOut :=
    ⟨r.1.map (fun p => (p.1, bodyRes quarantined p.2)), if quarantined then [] else r.2.conns⟩
  (out, closeConns cfg r.2.conns r.2.pool)

/-- a history of consecutive messages through one target (one pool) -/
def run (cfg : Cfg) (doms : Nat → Domain) : List Msg → Pool → List MsgOut
  | [], _ => []
  | m :: rest, pool =>
    let r := deliverMsg cfg doms m pool
    r.1 :: run cfg doms rest r.2

/-! ## several deliveries at once: the policy lookups

`mtastsDelivery.PrepareDomain` / `daneDelivery.PrepareConn` create a NEW future per call, owned by the delivery
object (one object per message: `Start`), and start a goroutine that performs the lookup with the context of THAT
delivery and sets THAT future.  `CheckMX` / `CheckConn` read the delivery's current future with
`GetContext(ctx)`: the value if it is set; otherwise they wait, and return "lookup failed" when the delivery's own
context is done first (MTA-STS: treated as "no policy"; DANE: temporary refusal).  There is no state shared
between the policy objects of different deliveries (the MTA-STS cache is part of the fetcher oracle: no cached
policy here).

Model: the lookup state of ONE delivery (`LkSt`), a global state = one `LkSt` per delivery id, and steps of
several deliveries in any interleaving.  `α` is what a lookup yields (`STS` for the policy fetch, `Disc` for the
TLSA discovery), `err : α` the value the waiting code acts on when the lookup failed (`STS.absent`, `Disc.fail`). -/

structure LkSt (α : Type) where
  cancelled : Bool := false               -- the context of the delivery is done (cancelled / deadline passed)
  gen       : Nat := 0                    -- futures created so far
  cur       : Option (α × Option α) := none   -- current future: (what its lookup will find, the result once set)

inductive LkStep (α : Type)
  | prepare (i : Nat) (v : α)   -- delivery `i` calls Prepare…: new future; its lookup will find `v` (the world's facts)
  | returns (i : Nat) (g : Nat) -- the lookup goroutine of the `g`-th future of delivery `i` returns and sets ITS future
  | cancel  (i : Nat)           -- the context of delivery `i` is cancelled / times out
  | check   (i : Nat)           -- delivery `i` reads its current future (`CheckMX` / `CheckConn`)

def LkStep.who {α : Type} : LkStep α → Nat
  | .prepare i _ => i | .returns i _ => i | .cancel i => i | .check i => i

/-- what a `check` step observes -/
inductive LkObs (α : Type)
  | nilFuture          -- Prepare… was never called: `nil future used` panic
  | blocked            -- still waiting (the step is taken again later)
  | saw (r : α)        -- the value acted upon
deriving DecidableEq, Repr

/-- one step on the delivery's own state; the lookup goroutine runs with the delivery's own context, so a
lookup that returns after the context is done yields the error value -/
def lkOwn {α : Type} (err : α) (st : LkSt α) : LkStep α → LkSt α × Option (LkObs α)
  | .prepare _ v => ({ st with gen := st.gen + 1, cur := some (v, none) }, none)
  | .returns _ g =>
    match st.cur with
    | some (v, none) =>
      if g = st.gen then ({ st with cur := some (v, some (if st.cancelled then err else v)) }, none) else (st, none)
    | _ => (st, none)                      -- the future of an abandoned attempt: nobody reads it
  | .cancel _ => ({ st with cancelled := true }, none)
  | .check _ =>
    match st.cur with
    | none => (st, some .nilFuture)
    | some (_, some r) => (st, some (.saw r))
    | some (_, none) => (st, some (if st.cancelled then .saw err else .blocked))

abbrev LkWorld (α : Type) := Nat → LkSt α

def lkInit {α : Type} : LkWorld α := fun _ => {}

/-- a step of delivery `who` touches the state of that delivery only -/
def lkStep {α : Type} (err : α) (σ : LkWorld α) (s : LkStep α) : LkWorld α × Option (Nat × LkObs α) :=
  let r := lkOwn err (σ s.who) s
  (fun j => if j = s.who then r.1 else σ j, r.2.map (fun o => (s.who, o)))

/-- run an interleaving; the observations of all deliveries in order, and the final state -/
def lkExec {α : Type} (err : α) : List (LkStep α) → LkWorld α → List (Nat × LkObs α) × LkWorld α
  | [], σ => ([], σ)
  | s :: rest, σ =>
    let r := lkStep err σ s
    let rr := lkExec err rest r.1
    ((match r.2 with | some e => [e] | none => []) ++ rr.1, rr.2)

/-- what delivery `i` finally acts upon after the interleaving (`dflt` while nothing was observed) -/
def lkSeen {α : Type} (err dflt : α) (steps : List (LkStep α)) (i : Nat) : α :=
  ((lkExec err steps lkInit).1.foldl
    (fun acc e => if e.1 = i then (match e.2 with | .saw r => r | _ => acc) else acc) dflt)

/-- The schedule the harness drives (`C05 conc`): `k` deliveries to one domain whose policy is `v` start one after
the other, the `victim` (if `< k`) is cancelled while every lookup is still in flight, its lookup returns, it
checks; then the lookups of the others return and they check. -/
def lkSchedule {α : Type} (v : α) (k victim : Nat) : List (LkStep α) :=
  (List.range k).map (fun i => LkStep.prepare i v) ++
  (if victim < k then [LkStep.cancel victim, .returns victim 1, .check victim] else []) ++
  ((List.range k).filter (· ≠ victim)).flatMap (fun i => [LkStep.returns i 1, .check i])

/-- the domain as delivery `i` of a concurrent batch sees it: the MTA-STS policy it acts upon -/
def concDomain (d : Domain) (k victim i : Nat) : Domain :=
  { d with sts := lkSeen STS.absent d.sts (lkSchedule d.sts k victim) i }

/-- pool after two deliveries that started from the same pool snapshot returned their connections -/
def Pool.merge (p q : Pool) : Pool := fun d => p d ++ q d

/-- A batch of overlapping deliveries on one target, all started before any of them finished (every `pool.Get`
sees the same `pool` snapshot, here always the empty one), committed in list order; `victim` is aborted by its
caller after its context was cancelled: it has no connection (every dial happens after the cancellation). -/
def runConc (cfg : Cfg) (doms : Nat → Domain) (k victim : Nat) :
    List Msg → Nat → Pool → List (Option MsgOut) × Pool
  | [], _, acc => ([], acc)
  | m :: rest, i, acc =>
    if i = victim then
      let rr := runConc cfg doms k victim rest (i + 1) acc
      (none :: rr.1, rr.2)
    else
      let seen : Nat → Domain := fun x => if x = 0 then concDomain (doms 0) k victim i else doms x
      let r := deliverMsg cfg seen m emptyPool
      let rr := runConc cfg doms k victim rest (i + 1) (acc.merge r.2)
      (some r.1 :: rr.1, rr.2)

/-! ## the configuration words of `local_policy`

`localPolicy.Init` (security.go): `cfg.Enum("min_tls_level", …, ["none", "encrypted", "authenticated"], "encrypted", …)`,
`cfg.Enum("min_mx_level", …, ["none", "mtasts", "dnssec"], "none", …)` — `config.Map.Enum` (framework/config/map.go)
accepts the argument only when it EQUALS one of the allowed words (byte for byte) and hands it back as written; the
`switch` that follows maps the three words to the levels.  A directive that is not written yields the default word.
Anything else makes `Init` fail: the configuration is refused at start-up.  Words are byte strings (what the lexer
hands over; quoting is the lexer's business). -/

abbrev Word := List Nat

def wNone          : Word := [110, 111, 110, 101]                                              -- "none"
def wEncrypted     : Word := [101, 110, 99, 114, 121, 112, 116, 101, 100]                      -- "encrypted"
def wAuthenticated : Word := [97, 117, 116, 104, 101, 110, 116, 105, 99, 97, 116, 101, 100]    -- "authenticated"
def wMtasts        : Word := [109, 116, 97, 115, 116, 115]                                     -- "mtasts"
def wDnssec        : Word := [100, 110, 115, 115, 101, 99]                                     -- "dnssec"

/-- `Enum` + the `switch` for `min_tls_level`: total on the documented words, refused otherwise -/
def tlsLevelOfWord (w : Word) : Option Nat :=
  if w = wNone then some 0 else if w = wEncrypted then some 1 else if w = wAuthenticated then some 2 else none

/-- `Enum` + the `switch` for `min_mx_level` -/
def mxLevelOfWord (w : Word) : Option Nat :=
  if w = wNone then some 0 else if w = wMtasts then some 1 else if w = wDnssec then some 2 else none

/-- the argument of a directive; `none`: the directive is not written, `Enum` stores the default word
(`"encrypted"` / `"none"`) -/
def minTLSOf (w : Option Word) : Option Nat :=
  match w with
  | none => tlsLevelOfWord wEncrypted
  | some w => tlsLevelOfWord w

def minMXOf (w : Option Word) : Option Nat :=
  match w with
  | none => mxLevelOfWord wNone
  | some w => mxLevelOfWord w

/-- `localPolicy.Init`: the policy the block produces, `none` = `Init` returns an error (start-up refused) -/
def localInit (tlsWord mxWord : Option Word) : Option Policy :=
  match minTLSOf tlsWord, minMXOf mxWord with
  | some t, some m => some (Policy.localP t m)
  | _, _ => none

/-! ## messages that reach the target through `target.queue`

`internal/target/queue/queue.go`: `Queue.Start` stores the POINTER to the `MsgMetadata` object of the message source
(`QueueMetadata.MsgMeta`), `queueDelivery.Body` writes it to disk, `Commit` schedules the first attempt with the
in-memory object, and `deliver` hands `meta.MsgMeta.DeepCopy()` to `Target.Start`.  The source (msgpipeline, an SMTP
endpoint) goes on writing to ITS object until the body stage ends: msgpipeline starts target deliveries at the RCPT
stage and applies the check results (`Quarantine`) at the body stage, `endpoint/smtp` sets `TLSRequireOverride` after
it has read the header.  The attempt happens after `Commit`, so what the remote target is started with is the content
of the object when the body stage ended. -/

/-- the fields of `MsgMetadata` that `target.remote` (and `smtpconn.C.Mail`) read -/
structure Meta where
  requireTLS : Bool   -- `SMTPOpts.RequireTLS`
  tlsNo      : Bool   -- `TLSRequireOverride`
  quarantine : Bool   -- `Quarantine`
  utf8       : Bool   -- `SMTPOpts.UTF8`
deriving DecidableEq, Repr

/-- a message as its source hands it to the queue: content of the meta-data object at `Queue.Start` and when the body
stage ends -/
structure QMsg where
  atStart : Meta
  atBody  : Meta
  rcpts   : List Nat
deriving Repr

/-- what `Queue.deliver` starts the target with (a copy taken at the attempt of the object `Start` kept a reference to) -/
def QMsg.handedOver (m : QMsg) : Meta := m.atBody

/-- the message as the remote target sees it: a quarantined message is quarantined before the first recipient -/
def QMsg.toMsg (m : QMsg) : Msg :=
  ⟨m.handedOver.requireTLS, m.handedOver.tlsNo, if m.handedOver.quarantine then 1 else 0, m.rcpts⟩

/-- SMTPUTF8 parameter of the MAIL command on a server that implements the extension (`smtpconn.C.Mail`) -/
def QMsg.mailUTF8 (m : QMsg) : Bool := m.handedOver.utf8

/-- a history of messages through one queue in front of one remote target (first attempts, one after the other) -/
def runVia (cfg : Cfg) (doms : Nat → Domain) (ms : List QMsg) (pool : Pool) : List MsgOut :=
  run cfg doms (ms.map QMsg.toMsg) pool

/-! ### later attempts: from the spool

`tryDelivery` keeps the recipients whose error was temporary (`exterrors.IsTemporaryOrUnspec`), writes the meta-data
back with `updateMetadataOnDisk` (a deep copy of `MsgMeta`, connection state removed — every field the remote target
reads is written as it is) and schedules the next attempt, which `dispatch` makes with what `readMessageMeta` reads from
the spool; a queue instance started on an existing spool (`readDiskQueue`) does the same for its FIRST attempt. -/

/-- the recipients (their domains, in order) that are tried again -/
def retryRcpts (o : MsgOut) : List Nat :=
  (o.rcpts.filter (fun p => p.2 == RcptRes.err .temp)).map (·.1)

/-- the meta-data as read back from the spool: what the object contained when it was written, i.e. at the end of the
body stage (`storeNewMessage`) — `updateMetadataOnDisk` drops nothing the target reads -/
def QMsg.spooled (m : QMsg) : Meta := m.atBody

/-- the message of a later attempt, for the recipients `rs` -/
def QMsg.retryMsg (m : QMsg) (rs : List Nat) : Msg :=
  ⟨m.spooled.requireTLS, m.spooled.tlsNo, if m.spooled.quarantine then 1 else 0, rs⟩

/-- the messages of the second round, given the outcomes of the first attempts -/
def retryList (ms : List QMsg) (outs : List MsgOut) : List Msg :=
  (ms.zip outs).filterMap (fun p =>
    let rs := retryRcpts p.2
    if rs.isEmpty then none else some (p.1.retryMsg rs))

/-- first attempts in the world `domsA`, then — the world has changed to `domsB`, the target starts with an empty pool —
the second attempts from the spool, in message order -/
def runRetry (cfg : Cfg) (domsA domsB : Nat → Domain) (ms : List QMsg) : List MsgOut × List MsgOut :=
  let o1 := runVia cfg domsA ms emptyPool
  (o1, run cfg domsB (retryList ms o1) emptyPool)

/-- the queue went down before the first attempt: every message is attempted from the spool -/
def runFromSpool (cfg : Cfg) (doms : Nat → Domain) (ms : List QMsg) : List MsgOut :=
  run cfg doms (ms.map (fun m => m.retryMsg m.rcpts)) emptyPool

end MaddyVerif.RemoteSec
