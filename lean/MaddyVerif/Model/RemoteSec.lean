/-
Model of the outbound security decisions of the remote target (C05).  Core Lean only.

Mirrored Go code (tree after the four `fix:` commits recorded in notes/C05.md):
* `framework/module/mxauth.go`            levels `TLSNone < TLSEncrypted < TLSAuthenticated`, `MXNone < MX_MTASTS < MX_DNSSEC`
* `internal/target/remote/policy_group.go` the policy list (any list here; the driver builds it in the fixed group order)
* `internal/target/remote/security.go`     `CheckMX` / `CheckConn` of mtasts, sts_preload, dane, dnssec, local_policy; `discoverTLSA` (incl. the CNAME branch)
* `internal/target/remote/dane.go`         `verifyDANE` only through its verdict on the record kind (C13 models the function itself)
* `internal/target/remote/connect.go`      `connect` (verify → unauthenticated TLS → plaintext), `attemptMX`, `newConn`, `connectionForDomain`
* `internal/target/remote/remote.go`       `Start` (override ⇒ no policies), `AddRcpt`, `BodyNonAtomic` (quarantine), `Close` (return to pool)
* `internal/smtpconn/pool/pool.go`         `Get` (first usable connection of the key, FIFO) / `Return`

* `framework/dns/dnssec.go`                 `CheckCNAMEAD`, `AuthLookupCNAME`, `AuthLookupTLSA` as oracles over the per-MX facts

External behaviour is data: per-MX facts (`MX`), per-domain facts (`Domain`).  Times (idle limits) are not modelled.

DNS world assumption (resolver oracle): the AD bit of the answer to an address query for a CNAME'd host is the
conjunction over the chain (alias RRset and address RRset); the TLSA RRset at `_25._tcp.<canonical>` of a CNAME'd
MX lives in (or below) the zone of the canonical name, so it is never reported authenticated when the address
RRset of that name is not (`canonTlsaAD`).
-/
namespace MaddyVerif.RemoteSec

/-! Levels are `Nat`s: 0 none · 1 encrypted · 2 authenticated (TLS);  0 none · 1 mtasts · 2 dnssec (MX). -/

/-- Error class as `exterrors.IsTemporaryOrUnspec` sees it (what makes the queue retry). -/
inductive Cls | temp | perm
deriving DecidableEq, Repr

inductive StartTLS
  | offered    -- advertised, command accepted, handshake possible
  | stripped   -- not advertised
  | hsFail     -- advertised, handshake fails with an error that is not a certificate verification error
  | cmdFail    -- advertised, the STARTTLS command is refused
deriving DecidableEq, Repr

inductive Cert
  | valid       -- chains to a trusted root and names the MX
  | untrusted   -- unknown issuer / self-signed
  | wrongName   -- trusted issuer, other name
deriving DecidableEq, Repr

/-- What is published at `_25._tcp.<mx>` relative to the certificate the server presents. -/
inductive Tlsa
  | none | eeMatch | taMatch | mismatch | unusable | servfail
deriving DecidableEq, Repr

inductive STS
  | absent    -- no policy / fetch failed
  | none | testing | enforce
deriving DecidableEq, Repr

/-- Is the MX host name an alias?  `secure` / `insecure`: the CNAME RRset at the MX name is / is not
DNSSEC-authenticated. -/
inductive Alias | none | secure | insecure
deriving DecidableEq, Repr

/-- For an MX whose name is a CNAME alias, `aAD` / `tlsaAD` / `tlsa` describe the CANONICAL name (address RRset,
TLSA RRset at `_25._tcp.<canonical>`), `tlsaI` / `tlsaIAD` the TLSA RRset at `_25._tcp.<MX name>` (the initial
name), `cnameErr` says that the CNAME-type query for the MX name fails (SERVFAIL).  Without an alias the three
extra fields are not looked at. -/
structure MX where
  srv      : Nat
  up       : Bool
  starttls : StartTLS
  cert     : Cert
  stsMatch : Bool   -- `policy.Match(mx)`
  aAD      : Bool   -- AD bit of the address RRset of the (canonical) host
  tlsaAD   : Bool   -- AD bit on the TLSA lookup (canonical name)
  tlsa     : Tlsa
  reqtls   : Bool   -- server implements REQUIRETLS (go-smtp advertises it on TLS sessions only)
  cname    : Alias := .none
  tlsaI    : Tlsa := .none   -- TLSA RRset at the initial name (alias only)
  tlsaIAD  : Bool := false
  cnameErr : Bool := false
deriving DecidableEq, Repr

/-- `lookupMX` never returns an empty list (falls back to the domain itself). -/
structure Domain where
  mxAD : Bool        -- AD bit on the MX lookup (`dnssecOk`)
  sts  : STS
  mx   : MX
  more : List MX
deriving Repr

def Domain.mxs (d : Domain) : List MX := d.mx :: d.more

inductive Policy
  | mtasts | stsPreload | dane | dnssec
  | localP (minTLS minMX : Nat)
deriving DecidableEq, Repr

structure Cfg where
  policies      : List Policy   -- `Target.policies`
  allowOverride : Bool          -- `requiretls_override`
  relaxed       : Bool          -- `relaxed_requiretls`
  reuseLimit    : Nat           -- `conn_reuse_limit`
deriving Repr

/-- `quarantine`: 0 never, 1 set before the recipients are added, 2 set between recipients and body. -/
structure Msg where
  requireTLS : Bool
  tlsNo      : Bool        -- `msgMeta.TLSRequireOverride` (TLS-Required: No)
  quarantine : Nat
  rcpts      : List Nat    -- recipient domains, in order
deriving Repr

/-! ## TLS -/

structure TlsState where
  tlsOn    : Bool   -- `HandshakeComplete`
  verified : Bool   -- `VerifiedChains != nil`
deriving DecidableEq, Repr

inductive HS | ok | verifyErr | otherErr
deriving DecidableEq

/-- One STARTTLS + EHLO round (crypto/tls as an oracle over the facts). -/
def handshake (mx : MX) (skipVerify : Bool) : HS :=
  match mx.starttls with
  | .hsFail => .otherErr
  | _ => if skipVerify || mx.cert == .valid then .ok else .verifyErr

def plain : TlsState := ⟨false, false⟩

/-- `remoteDelivery.connect`: the `retry:` ladder.  Result: level and TLS state, or a connection error. -/
def connect (mx : MX) : Except Cls (Nat × TlsState) :=
  if !mx.up then .error .temp                                  -- dial error (450)
  else match mx.starttls with
    | .stripped => .ok (0, plain)
    | .cmdFail => .error .temp                                 -- 454 to STARTTLS: no fallback
    | _ =>
      match handshake mx false with
      | .ok => .ok (2, ⟨true, true⟩)
      | .verifyErr =>                                          -- retry with InsecureSkipVerify
        match handshake mx true with
        | .ok => .ok (1, ⟨true, false⟩)
        | _ => .ok (0, plain)                                  -- retry in plaintext
      | .otherErr => .ok (0, plain)                            -- retry in plaintext

/-! ## DANE -/

inductive Disc
  | none             -- `(nil, nil)` or a not-found error
  | fail             -- lookup error
  | recs (t : Tlsa)  -- non-empty authenticated RRset
deriving DecidableEq, Repr

/-- the last lookup of `discoverTLSA` (TLSA at the initial name): error ⇒ failure (a not-found error is "no
records"), a non-authenticated or empty answer ⇒ no records -/
def lookupInitial (t : Tlsa) (ad : Bool) : Disc :=
  match t with
  | .servfail => .fail
  | .none => .none
  | t => if !ad then .none else .recs t

/-- AD bit the resolver reports for the TLSA RRset at the canonical name of an alias (see the file header) -/
def canonTlsaAD (mx : MX) : Bool := mx.aAD && mx.tlsaAD

/-- `daneDelivery.discoverTLSA`.
Without alias (`rname == mx`): non-authenticated address records ⇒ skip, else the TLSA RRset of the name.
With an alias: `adA` = AD of the whole chain; if it is not set the CNAME-type query decides (error ⇒ failure,
insecure alias ⇒ skip); then the canonical name is tried FIRST (error ⇒ failure; authenticated non-empty RRset ⇒
these records, no fall-back), and only then the initial name. -/
def discover (mx : MX) : Disc :=
  match mx.cname with
  | .none =>
    if !mx.aAD then .none                     -- non-authenticated A records: skip
    else lookupInitial mx.tlsa mx.tlsaAD
  | c =>
    let aliasAD := c == .secure
    let adA := aliasAD && mx.aAD              -- `CheckCNAMEAD`
    if !adA && mx.cnameErr then .fail         -- `AuthLookupCNAME` fails
    else if !adA && !aliasAD then .none       -- non-authenticated CNAME record: skip
    else match mx.tlsa with                   -- `AuthLookupTLSA(rname)`
      | .servfail => .fail
      | t =>
        if t != .none && canonTlsaAD mx then .recs t
        else lookupInitial mx.tlsaI mx.tlsaIAD

inductive Verdict | noReq | auth | err
deriving DecidableEq

/-- `verifyDANE` on a non-empty RRset of the given kind (all its errors are 550). -/
def verifyDANE (t : Tlsa) (cert : Cert) (tlsOn : Bool) : Verdict :=
  if !tlsOn then .err else
  match t with
  | .unusable => .noReq
  | .eeMatch => .auth
  | .taMatch => if cert == .wrongName then .err else .auth
  | _ => .err

/-! ## policies -/

def checkMX (p : Policy) (lvl : Nat) (d : Domain) (mx : MX) : Except Cls Nat :=
  match p with
  | .mtasts =>
    if d.sts == .absent then .ok 0
    else if !mx.stsMatch then (if d.sts == .enforce then .error .perm else .ok 0)
    else .ok 1
  | .stsPreload => .ok lvl
  | .dane => .ok 0
  | .dnssec => if d.mxAD then .ok 2 else .ok 0
  | .localP _ minMX => if lvl < minMX then .error .temp else .ok 0

def checkConn (p : Policy) (tlsLevel : Nat) (d : Domain) (mx : MX) (s : TlsState) : Except Cls Nat :=
  match p with
  | .mtasts =>
    if d.sts != .enforce then .ok 0
    else if !s.tlsOn then .error .temp
    else if !s.verified then .error .temp
    else .ok 0
  | .stsPreload => .ok tlsLevel
  | .dane =>
    match discover mx with
    | .fail => .error .temp
    | .none => .ok 0
    | .recs t =>
      match verifyDANE t mx.cert s.tlsOn with
      | .err => .error .perm
      | .auth => .ok 2
      | .noReq => .ok 0
  | .dnssec => .ok 0
  | .localP minTLS _ => if tlsLevel < minTLS then .error .temp else .ok 0

/-- the first loop of `attemptMX` -/
def checkMXs : List Policy → Nat → Domain → MX → Except Cls Nat
  | [], lvl, _, _ => .ok lvl
  | p :: r, lvl, d, mx =>
    match checkMX p lvl d mx with
    | .error e => .error e
    | .ok l => checkMXs r (max lvl l) d mx

/-- the second loop of `attemptMX` -/
def checkConns : List Policy → Nat → Domain → MX → TlsState → Except Cls Nat
  | [], lvl, _, _, _ => .ok lvl
  | p :: r, lvl, d, mx, s =>
    match checkConn p lvl d mx s with
    | .error e => .error e
    | .ok l => checkConns r (max lvl l) d mx s

structure Conn where
  mx           : MX
  tls          : TlsState
  mxLevel      : Nat
  tlsLevel     : Nat
  transactions : Nat
  secOverride  : Bool    -- opened for a delivery whose policies were overridden
deriving DecidableEq, Repr

def attemptMX (ps : List Policy) (ov : Bool) (d : Domain) (mx : MX) : Except Cls Conn :=
  match checkMXs ps 0 d mx with
  | .error e => .error e
  | .ok mxl =>
    match connect mx with
    | .error e => .error e
    | .ok (tl, s) =>
      match checkConns ps tl d mx s with
      | .error e => .error e
      | .ok tl' => .ok ⟨mx, s, mxl, tl', 0, ov⟩

/-- `lastErr` update in the MX loop of `newConn`: a temporary error is only replaced by another
temporary one (`lastErr == nil || !IsTemporaryOrUnspec(lastErr) || IsTemporaryOrUnspec(err)`). -/
def keepErr (last e : Cls) : Cls := if last == .temp then .temp else e

/-- the MX loop of `newConn` after the earlier candidates failed with (kept) error `last` -/
def tryMXs (ps : List Policy) (ov : Bool) (d : Domain) : List MX → Cls → Except Cls Conn
  | [], last => .error last
  | mx :: rest, last =>
    match attemptMX ps ov d mx with
    | .ok c => .ok c
    | .error e => tryMXs ps ov d rest (keepErr last e)

/-- `newConn`: the first usable candidate; if there is none the error is temporary as soon as one
candidate failed temporarily. -/
def newConn (ps : List Policy) (ov : Bool) (d : Domain) : Except Cls Conn :=
  match attemptMX ps ov d d.mx with
  | .ok c => .ok c
  | .error e => tryMXs ps ov d d.more e

/-! ## delivery -/

/-- `Target.Start`: the per-message policy list. -/
def overridden (cfg : Cfg) (m : Msg) : Bool := m.tlsNo && cfg.allowOverride

def startPolicies (cfg : Cfg) (m : Msg) : List Policy :=
  if overridden cfg m then [] else cfg.policies

abbrev Pool := Nat → List Conn

def Pool.set (p : Pool) (d : Nat) (l : List Conn) : Pool := fun x => if x = d then l else p x

def emptyPool : Pool := fun _ => []

/-- `mxConn.Usable` (no errored transactions and a working RSET in this model) -/
def usable (cfg : Cfg) (c : Conn) : Bool := decide (c.transactions ≤ cfg.reuseLimit)

/-- `pool.Get`: first usable connection; unusable ones in front of it are closed. -/
def poolGet (cfg : Cfg) : List Conn → Option Conn × List Conn
  | [] => (none, [])
  | c :: r => if usable cfg c then (some c, r) else poolGet cfg r

/-- a connection of the running delivery: recipient domain, connection, REQUIRETLS sent with MAIL -/
structure Used where
  dom    : Nat
  conn   : Conn
  mailRT : Bool
deriving DecidableEq, Repr

structure DState where
  conns : List Used
  pool  : Pool

def lookupConn (l : List Used) (dom : Nat) : Option Used := l.find? (fun u => u.dom == dom)

/-- server-side: the REQUIRETLS extension is advertised on this connection -/
def extREQUIRETLS (c : Conn) : Bool := c.mx.reqtls && c.tls.tlsOn

/-- `connectionForDomain` -/
def connectionForDomain (cfg : Cfg) (doms : Nat → Domain) (m : Msg) (st : DState) (dom : Nat) :
    Except Cls Unit × DState :=
  match lookupConn st.conns dom with
  | some _ => (.ok (), st)
  | none =>
    let got := poolGet cfg (st.pool dom)
    let st1 : DState := { st with pool := st.pool.set dom got.2 }
    let r : Except Cls Conn :=
      match got.1 with
      | some c => if !m.requireTLS then .ok c
                  else newConn (startPolicies cfg m) (overridden cfg m) (doms dom)   -- pool ignored
      | none => newConn (startPolicies cfg m) (overridden cfg m) (doms dom)
    match r with
    | .error e => (.error e, st1)
    | .ok c =>
      if m.requireTLS && decide (c.tlsLevel < 2) then (.error .perm, st1)
      else if m.requireTLS && decide (c.mxLevel < 1) then (.error .perm, st1)
      else
        let ext := extREQUIRETLS c
        let mailRT := m.requireTLS && !(cfg.relaxed && !ext)
        if mailRT && !ext then (.error .temp, st1)      -- go-smtp client: "server does not support REQUIRETLS"
        else (.ok (), { st1 with conns := st1.conns ++ [⟨dom, c, mailRT⟩] })

inductive RcptRes | ok | err (c : Cls)
deriving DecidableEq, Repr

/-- `AddRcpt` -/
def addRcpt (cfg : Cfg) (doms : Nat → Domain) (m : Msg) (st : DState) (dom : Nat) : RcptRes × DState :=
  if m.quarantine == 1 then (.err .perm, st)
  else match connectionForDomain cfg doms m st dom with
    | (.ok _, st') => (.ok, st')
    | (.error e, st') => (.err e, st')

def addRcpts (cfg : Cfg) (doms : Nat → Domain) (m : Msg) : List Nat → DState → List (Nat × RcptRes) × DState
  | [], st => ([], st)
  | d :: rest, st =>
    let r := addRcpt cfg doms m st d
    let rr := addRcpts cfg doms m rest r.2
    ((d, r.1) :: rr.1, rr.2)

/-- `remoteDelivery.Close`: every connection of the delivery goes back to the pool or is closed. -/
def closeConns (cfg : Cfg) : List Used → Pool → Pool
  | [], p => p
  | u :: rest, p =>
    let c := { u.conn with transactions := u.conn.transactions + 1 }
    if c.secOverride || !usable cfg c then closeConns cfg rest p
    else closeConns cfg rest (p.set u.dom (p u.dom ++ [c]))

structure MsgOut where
  rcpts : List (Nat × RcptRes)   -- final status per recipient (after the body stage)
  data  : List Used              -- connections the content was written to
deriving Repr

/-- `BodyNonAtomic`: a quarantined message gets 550 for every accepted recipient, nothing is sent -/
def bodyRes (quarantined : Bool) (r : RcptRes) : RcptRes :=
  if quarantined && r == .ok then .err .perm else r

/-- one message: Start, AddRcpt…, BodyNonAtomic (if some recipient was accepted), Commit/Abort -/
def deliverMsg (cfg : Cfg) (doms : Nat → Domain) (m : Msg) (pool : Pool) : MsgOut × Pool :=
  let r := addRcpts cfg doms m m.rcpts ⟨[], pool⟩
  let quarantined := m.quarantine != 0
  let out : MsgOut :=
    ⟨r.1.map (fun p => (p.1, bodyRes quarantined p.2)), if quarantined then [] else r.2.conns⟩
  (out, closeConns cfg r.2.conns r.2.pool)

/-- a history of consecutive messages through one target (one pool) -/
def run (cfg : Cfg) (doms : Nat → Domain) : List Msg → Pool → List MsgOut
  | [], _ => []
  | m :: rest, pool =>
    let r := deliverMsg cfg doms m pool
    r.1 :: run cfg doms rest r.2

end MaddyVerif.RemoteSec
