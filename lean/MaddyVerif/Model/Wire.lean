/-
Wire-level model of a message header as the queue stores and re-reads it.  Core Lean only.

Mirrored Go code
* `github.com/emersion/go-message/textproto` (v0.18.2, the version pinned by /repo's go.mod):
  `WriteHeader` (raw fields in wire order, then CRLF), `ReadHeader` with its helpers
  `readLineSlice` (bufio `ReadLine`: a line ends at LF, one CR directly before that LF is dropped,
  an unterminated last line is returned as is), `hasContinuationLine`, `readContinuedLineSlice`
  (every physical line re-terminated with CRLF), `trim`, `validHeaderKeyByte`;
* called from `internal/target/queue/queue.go`: `storeNewMessage` (`textproto.WriteHeader` into
  `<id>.header`, `io.Copy` of the body into `<id>.body`) and `openMessage` (`textproto.ReadHeader`
  over `<id>.header`, `buffer.FileBuffer` over `<id>.body`), and from
  `internal/endpoint/smtp/session.go:prepareBody` (the SAME `ReadHeader` parses what a client sends).

A header is the list of its raw fields (`headerField.b`, each "Key: value CRLF" with its
continuation lines) in wire order.  Bytes are `Nat`s.  bufio's 4096-byte buffer is not modelled
(the harness sends lines longer than the buffer, also with CR at the buffer boundary).

Structure of the model vs. the Go loops: `lines` = what repeated `readLineSlice` calls return until
EOF; `groupLines` = the `readContinuedLineSlice` loop (stop at the blank line, glue every following
line that starts with SP/HT); `classify`/`parseFields` = the body of the `ReadHeader` loop.
-/
namespace MaddyVerif.Wire

abbrev Bytes := List Nat

abbrev crlf : Bytes := [13, 10]

/-- textproto `isSpace`: SP or HT. -/
def isSpace (c : Nat) : Bool := c == 32 || c == 9

/-- textproto `validHeaderKeyByte`: printable US-ASCII except ':'. -/
def validKeyByte (c : Nat) : Bool := decide (33 ≤ c) && decide (c ≤ 126) && c != 58

abbrev Field := Bytes
/-- raw fields in wire order -/
abbrev Header := List Field

/-- `textproto.WriteHeader` for a header whose fields all have raw bytes. -/
def writeHeader (h : Header) : Bytes := h.flatten ++ crlf

def cons1 (c : Nat) : List Bytes → List Bytes
  | [] => [[c]]
  | l :: ls => (c :: l) :: ls

/-- The physical lines bufio `ReadLine` yields until EOF (EOL bytes removed). -/
def lines : Bytes → List Bytes
  | [] => []
  | [c] => if c = 10 then [[]] else [[c]]
  | c :: d :: rest =>
    if c = 10 then [] :: lines (d :: rest)
    else if c = 13 ∧ d = 10 then [] :: lines rest
    else cons1 c (lines (d :: rest))

def startsWSP : Bytes → Bool
  | c :: _ => isSpace c
  | [] => false

/-- `readContinuedLineSlice` repeated until the blank line / EOF: the logical lines `kv`. -/
def groupLines : List Bytes → List Bytes
  | [] => []
  | l :: ls =>
    if l = [] then [] else
    match ls with
    | [] => [l ++ crlf]
    | l2 :: _ =>
      if startsWSP l2 then
        match groupLines ls with
        | kv :: kvs => (l ++ crlf ++ kv) :: kvs
        | [] => [l ++ crlf]
      else (l ++ crlf) :: groupLines ls

/-- bytes before the first ':' (none if there is no ':') -/
def keyPart : Bytes → Option Bytes
  | [] => none
  | c :: r => if c = 58 then some [] else (keyPart r).map (c :: ·)

def dropWSP : Bytes → Bytes
  | [] => []
  | c :: r => if isSpace c then dropWSP r else c :: r

/-- textproto `trim`: SP/HT removed at both ends. -/
def trim (s : Bytes) : Bytes := (dropWSP (dropWSP s).reverse).reverse

inductive ParseErr | initialSpace | noColon | badKey
deriving DecidableEq, Repr

inductive FieldClass | keep | skip | noColon | badKey
deriving DecidableEq, Repr

/-- the checks `ReadHeader` applies to one logical line, in its order -/
def classify (kv : Bytes) : FieldClass :=
  match keyPart kv with
  | none => .noColon
  | some k =>
    let key := trim k
    if key.all validKeyByte then (if key = [] then .skip else .keep) else .badKey

def parseFields : List Bytes → Except ParseErr Header
  | [] => .ok []
  | kv :: rest =>
    match classify kv with
    | .noColon => .error .noColon
    | .badKey => .error .badKey
    | .skip => parseFields rest
    | .keep =>
      match parseFields rest with
      | .ok h => .ok (kv :: h)
      | .error e => .error e

/-- `textproto.ReadHeader` (header part of the input only; what follows the blank line is the body). -/
def readHeader (bs : Bytes) : Except ParseErr Header :=
  if startsWSP bs then .error .initialSpace else parseFields (groupLines (lines bs))

/-- `(ls.map (· ++ CRLF)).flatten` -/
def joinLines (ls : List Bytes) : Bytes := (ls.map (· ++ crlf)).flatten

/-- An RFC 5322-shaped raw field: `name *WSP ":" text CRLF *( WSP text CRLF )` where `name` is a
non-empty string of printable US-ASCII other than ':', and no text contains LF.  (CR, NUL and
8-bit bytes are allowed in the text; so are white-space-only continuation lines.) -/
def WFField (f : Bytes) : Prop :=
  ∃ (name pad rest : Bytes) (conts : List Bytes),
    f = name ++ pad ++ 58 :: rest ++ crlf ++ joinLines conts ∧
    name ≠ [] ∧ (∀ b ∈ name, validKeyByte b = true) ∧ (∀ b ∈ pad, isSpace b = true) ∧
    10 ∉ rest ∧ ∀ c ∈ conts, 10 ∉ c ∧ startsWSP c = true

/-- Executable well-formedness test: the field alone, written and re-read, comes back unchanged.
`C10_wfFieldB_iff` proves it equivalent to `WFField`. -/
def wfFieldB (f : Bytes) : Bool :=
  match readHeader (f ++ crlf) with
  | .ok [g] => g == f
  | _ => false

/-- 32-bit FNV-1a style digest used by the driver to print long byte strings compactly -/
def digest (bs : Bytes) : Nat :=
  bs.foldl (fun h b => ((h ^^^ (b % 256)) * 16777619) % 4294967296) 2166136261

end MaddyVerif.Wire
