import MaddyVerif.Model.Queue
/-!
The life of a queued message across server restarts, and the generation of its failure reports
(`internal/target/queue/queue.go`: `Start`, `queueDelivery.Commit`, `storeNewMessage`,
`updateMetadataOnDisk`, `readMessageMeta`, `readDiskQueue`, `dispatch` with `slot.Meta == nil`,
the map accesses of `tryDelivery`, the `dsn.GenerateDSN` call of `emitDSN`).  Core Lean only.

What is added to `Model/Queue.lean`:

* `MetaN` — `QueueMetadata` with the nil-ness of its two bookkeeping maps.  `Queue.Start` makes
  `RcptErrs` (non-nil, empty) and leaves `TriesCount` nil.  `tryDelivery` makes `TriesCount` when it
  is nil, but stores `meta.RcptErrs[rcpt] = …` without a guard: a failed recipient on a nil `RcptErrs`
  is a Go panic (explicit outcome `broken`: the dispatcher's `recover` renames `.meta` to
  `.meta_broken`, nothing is reported, retried or removed).
* `Disk`, `store`, `load` — what `.meta` keeps (encoding/json: a nil map is `null` and comes back nil,
  an empty map is `{}` and comes back non-nil and empty).  The first attempt of a message runs on
  the in-memory value unless the server restarted in between (`Commit` answered by a queue whose time
  wheel is already stopped dispatches nothing); every retry runs on what `openMessage` reads.
* `Env`, `genOk` — `emitDSN` renders the report in the format given by the message's own SMTPUTF8
  flag; `dsn.GenerateDSN` fails (logged, nothing handed to the bounce pipeline, the recipients are
  dropped all the same) iff that format is the plain one and the return path or an address the
  report names (`OriginalRcpts[rcpt]`, else `rcpt`) has a non-ASCII local part
  (`address.ToASCII`: `ErrUnicodeMailbox`).  Domains are convertible in the generated input space.
-/
namespace MaddyVerif.QueueRestart
open MaddyVerif.Queue

structure MetaN where
  to       : List Addr
  tries    : Addr → Nat
  triesNil : Bool          -- TriesCount == nil
  errsNil  : Bool          -- RcptErrs == nil

/-- The content of `.meta`. -/
structure Disk where
  to        : List Addr
  tries     : Addr → Nat
  triesNull : Bool
  errsNull  : Bool

/-- `updateMetadataOnDisk` (json.Encoder). -/
def store (m : MetaN) : Disk := ⟨m.to, m.tries, m.triesNil, m.errsNil⟩

/-- `readMessageMeta` (json.Decoder into a fresh `QueueMetadata`). -/
def load (d : Disk) : MetaN := ⟨d.to, d.tries, d.triesNull, d.errsNull⟩

/-- `Queue.Start` followed by the `AddRcpt`s: the value `storeNewMessage` writes and `Commit`
hands to the time wheel. -/
def accepted (to : List Addr) : MetaN := ⟨to, fun _ => 0, true, false⟩

/-- What a failure report has to spell. -/
structure Env where
  utf8     : Bool            -- MsgMeta.SMTPOpts.UTF8 of the queued message
  senderNA : Bool            -- QueueMetadata.From has a non-ASCII local part
  namedNA  : Addr → Bool     -- the address the report names for a recipient has one

/-- `dsn.GenerateDSN(meta.MsgMeta.SMTPOpts.UTF8, …)` succeeds. -/
def genOk (e : Env) (failed : List Addr) : Bool :=
  e.utf8 || (!e.senderNA && failed.all (fun r => !e.namedNA r))

/-- An SMTP client without SMTPUTF8 cannot name a mailbox with a non-ASCII local part. -/
def Env.wellFormed (e : Env) (to : List Addr) : Prop :=
  e.utf8 = false → e.senderNA = false ∧ ∀ r ∈ to, e.namedNA r = false

/-- One attempt.  Third component: the attempt panicked (`.meta` → `.meta_broken`). -/
def tryDeliveryN (maxTries : Nat) (k : Kind) (dsn : Bool) (env : Env) (p : Plan) (m : MetaN) :
    Option MetaN × List Ev × Bool :=
  let (e, evs) := deliver k p m.to
  if m.errsNil && m.to.any (fun r => (e r).isSome) then (none, evs, true)
  else
    -- `if meta.TriesCount == nil { meta.TriesCount = make(…) }`: nil-ness of TriesCount is harmless
    let a := classify maxTries e m.to ⟨m.tries, [], []⟩
    let evR := if a.failedR.isEmpty || !dsn || !genOk env a.failedR then [] else [Ev.report a.failedR]
    if a.newR.isEmpty then (none, evs ++ evR ++ [.removed], false)
    else (some ⟨a.newR, a.tries, false, m.errsNil⟩, evs ++ evR ++ [.requeue a.newR], false)

/-- `n` restarts with no attempt in between: `readDiskQueue` only reads. -/
def reload : Nat → MetaN → MetaN
  | 0, m => m
  | n + 1, m => reload n (load (store m))

/-- The value attempt `i` runs on: the in-memory one for a first attempt that no restart preceded,
otherwise what is in the spool (`restarts i` = number of restarts between attempt `i-1`, or the
acceptance of the message, and attempt `i`). -/
def metaFor (restarts : Nat → Nat) (i : Nat) (m : MetaN) : MetaN :=
  if i = 0 ∧ restarts 0 = 0 then m else reload (restarts i + 1) m

/-- A read of the spool entry that fails once, transiently, before attempt `i` (`faults i` times):
an instance comes up and cannot load the entry (`readDiskQueue`: "failed to read meta-data,
skipping") or cannot open it for the attempt (`dispatch`: "read message" is logged, the goroutine
returns) — in both cases the entry is left exactly as it is; when the condition has cleared the next
instance loads it.  For the message that is two more restarts with no attempt in between. -/
def withReadFaults (restarts faults : Nat → Nat) : Nat → Nat :=
  fun i => restarts i + 2 * faults i

/-- The life of one message under a schedule of restarts.  Second component: the message was
left behind as `.meta_broken`. -/
def runR (maxTries : Nat) (k : Kind) (dsn : Bool) (env : Env) (plans : Nat → Plan)
    (restarts : Nat → Nat) : Nat → Nat → MetaN → List Ev × Bool
  | 0, _, _ => ([], false)
  | fuel + 1, i, m =>
    match tryDeliveryN maxTries k dsn env (plans i) (metaFor restarts i m) with
    | (_, evs, true) => (evs, true)
    | (none, evs, false) => (evs, false)
    | (some m', evs, false) =>
      let rest := runR maxTries k dsn env plans restarts fuel (i + 1) m'
      (evs ++ rest.1, rest.2)

end MaddyVerif.QueueRestart
