import MaddyVerif.Model.Errors
/-
Model of the conversions that turn what a NEXT HOP did (a reply, an I/O failure, a TLS failure) into
maddy's own error values, and of the compositions of several such failures into one:

* `internal/smtpconn/smtpconn.go: (*C).wrapClientErr`      (every error of the SMTP client),
* `internal/target/remote/connect.go: (*remoteDelivery).newConn`  (the MX loop and its
  "No usable MXs" failure), `lookupMX`, the part of `connectionForDomain`/`AddRcpt`/`BodyNonAtomic`
  after it (MAIL / RCPT / DATA replies are passed on, RCPT through `moduleError`),
* `internal/target/smtp/smtp_downstream.go: (*delivery).connect` (round 9: with its AUTH step and
  `sasl.go: saslAuthDirective`), the LMTP status conversion of `(*lmtpDelivery).BodyNonAtomic`,
* `internal/target/remote/remote.go: (*multipleErrs).Fields`    (failure of `Body` for several
  recipients).

The results are values of `Errors.Err`; what a client is told / the queue records for them is
`Errors.wrapErr` / `Errors.toSMTPErr`.  Core Lean only (linked into the driver).
-/
namespace MaddyVerif.Errors

/-- A Go value that has `Unwrap()` and neither `Temporary()` nor `Fields()` (`smtpconn.TLSError`,
`*os.SyscallError`, `fmt.Errorf("%w")`): invisible to every function of `Errors`. -/
abbrev transparent (inner : Err) : Err := .withFields none none none inner

/-- An error handed to `wrapClientErr`, by the dynamic type its type switch dispatches on. -/
inductive ClientErr
  | tls (inner : Err)                            -- smtpconn.TLSError{Err: inner}
  | op (dns : Bool) (temp : Bool) (inner : Err)  -- *net.OpError: Temporary() = temp, Unwrap() = inner;
                                                 --   dns: its Err is a *net.DNSError
  | val (e : Err)                                -- a value of any other type
deriving Repr, Inhabited

/-- `" said: "` -/
def saidInfix : List Nat := [32, 115, 97, 105, 100, 58, 32]
/-- `"DNS error"` -/
def dnsErrMsg : List Nat := [68, 78, 83, 32, 101, 114, 114, 111, 114]
/-- `"Network I/O error"` -/
def ioErrMsg : List Nat := [78, 101, 116, 119, 111, 114, 107, 32, 73, 47, 79, 32, 101, 114, 114, 111, 114]

def said (addr : Bool) (server msg : List Nat) : List Nat :=
  if addr then server ++ saidInfix ++ msg else msg

/-- RFC 5321 4.5.3.1.10: a 552 reply is treated as 452.  The code rewrites the reply IN PLACE:
basic code and class of the enhanced code together (an unset enhanced code becomes 4.0.0). -/
def rewrite552 (code : Nat) (en : Ench) : Nat × Ench :=
  if code == 552 then (452, { en with cls := 4 }) else (code, en)

/-- `(*C).wrapClientErr` (nil excluded; `addr` = `AddrInSMTPMsg`, `server` = the server name).
Only the annotations are modelled (`Misc` / `Reason` do not take part in replies). -/
def wrapClientErr (addr : Bool) (server : List Nat) : ClientErr → Err
  | .tls i => transparent i                                  -- returned as it is
  | .op true t i =>
      let o := Err.withTemp t i
      .smtpWrap (smtpCode o 450 550) (smtpEnchCode o ⟨0, 4, 4⟩) dnsErrMsg o
  | .op false t i => .smtpWrap 450 ⟨4, 4, 2⟩ ioErrMsg (.withTemp t i)
  | .val (.smtp c e m) => .smtp c e m                        -- *exterrors.SMTPError: as it is
  | .val (.smtpWrap c e m i) => .smtpWrap c e m i
  | .val (.rawSmtp c e m) =>                                 -- reply of the next hop
      let p := rewrite552 c e
      .smtpWrap p.1 p.2 (said addr server m) (.rawSmtp p.1 p.2 m)
  | .val e => transparent e                                  -- WithFields(err, remote_server)

/-- What the conversion is entitled to assume about its input: a relayed reply is class-coherent
(or has no enhanced code), annotated values are as maddy builds them.  Nothing about I/O errors. -/
def ClientOk : ClientErr → Prop
  | .tls i => LeavesCoherent i ∧ MarkersAgree i
  | .op _ _ _ => True
  | .val e => LeavesCoherent e ∧ MarkersAgree e

/-! ### `newConn`: the loop over the MX candidates -/

/-- The update of `lastErr` in the loop: a failure that is (or may be) temporary is not replaced by
a later permanent one. -/
def keepStep (last : Option Err) (e : Err) : Option Err :=
  match last with
  | none => some e
  | some l => if !isTemporaryOrUnspec l || isTemporaryOrUnspec e then some e else some l

/-- The loop: `attempts` are the results of `attemptMX` in preference order (`none` = connected).
Result `none` = connected, `some last` = every candidate failed. -/
def newConnLoop : Option Err → List (Option Err) → Option (Option Err)
  | last, [] => some last
  | _, none :: _ => none
  | last, some e :: rest => newConnLoop (keepStep last e) rest

/-- `"No usable MXs, last err: "` -/
def noMXPrefix : List Nat :=
  [78, 111, 32, 117, 115, 97, 98, 108, 101, 32, 77, 88, 115, 44, 32, 108, 97, 115, 116, 32, 101, 114, 114, 58, 32]

/-- The failure `newConn` returns when no candidate could be used (`errText` = `Error()`, a
parameter). -/
def noUsableMX (errText : Err → List Nat) (l : Err) : Err :=
  .smtpWrap (smtpCode l 451 550) (smtpEnchCode l ⟨0, 4, 0⟩) (noMXPrefix ++ errText l) l

/-- Error of `newConn` (`none` = connected; the MX list is never empty). -/
def newConnErr (errText : Err → List Nat) (attempts : List (Option Err)) : Option Err :=
  match newConnLoop none attempts with
  | some (some l) => some (noUsableMX errText l)
  | _ => none

/-- `"MX lookup error"` -/
def mxLookupMsg : List Nat := [77, 88, 32, 108, 111, 111, 107, 117, 112, 32, 101, 114, 114, 111, 114]

/-- `lookupMX`: the failure reported when the MX lookup itself fails with `e`. -/
def lookupMXErr (e : Err) : Err :=
  .smtpWrap (smtpCode e 451 554) (smtpEnchCode e ⟨0, 4, 4⟩) mxLookupMsg e

/-- What the transaction on an established connection ends with: nothing, a failure that is
passed on as it is (remote: MAIL, DATA, end of data; downstream: MAIL, an LMTP status), or one that
goes through `moduleError` (= a field wrapper without SMTP keys; remote: RCPT; downstream: RCPT,
DATA, end of data). -/
inductive After
  | ok
  | asIs (e : Err)
  | wrapped (e : Err)
deriving Repr, Inhabited

def afterErr : After → Option Err
  | .ok => none
  | .asIs e => some e
  | .wrapped e => some (transparent e)

/-- The error the transaction with the domain of a recipient ends with (`AddRcpt`, then
`BodyNonAtomic`), for a domain that has no connection yet; `none` = delivered. -/
def txErr (errText : Err → List Nat) (attempts : List (Option Err)) (after : After) : Option Err :=
  match newConnLoop none attempts with
  | some (some l) => some (noUsableMX errText l)
  | some none => none
  | none => afterErr after

/-! ### `target.smtp` / `target.lmtp` (`internal/target/smtp/smtp_downstream.go`) -/

/-- `(*delivery).connect`: the endpoints are tried in order, the failure of the LAST one is reported
(through `moduleError`). `none` = connected. -/
def downLoop : Option Err → List (Option Err) → Option (Option Err)
  | last, [] => some last
  | _, none :: _ => none
  | _, some e :: rest => downLoop (some e) rest

/-- the status `lmtpDelivery.BodyNonAtomic` reports for a recipient the LMTP server refused after
the data: a copy of the reply around the reply (no 552 rewrite, no server name). -/
def lmtpStatus (c : Nat) (en : Ench) (m : List Nat) : Err := .smtpWrap c en m (.rawSmtp c en m)

def downTxErr (attempts : List (Option Err)) (after : After) : Option Err :=
  match downLoop none attempts with
  | some (some l) => some (transparent l)
  | some none => none
  | none => afterErr after

/-! ### `target.smtp` / `target.lmtp` with `auth` (round 9): `saslAuthDirective` + the AUTH step of
`(*delivery).connect` -/

/-- the `auth` directive of the downstream target (`sasl.go: saslAuthDirective`); `forward authed`:
whether the client of the message authenticated itself (`msgMeta.Conn.AuthUser` / `AuthPassword`) -/
inductive AuthCfg
  | off
  | plain
  | forward (authed : Bool)
  | external
deriving DecidableEq, Repr, Inhabited

/-- what the next hop does with the AUTH command: accepts it (235), answers with any other reply
(`toSMTPErr` of the go-smtp client: a `*smtp.SMTPError`), or breaks the exchange (connection dropped,
a line that is no reply, a challenge the mechanism has no answer to): an error value without any
classification -/
inductive AuthAns
  | ok
  | reply (c : Nat) (en : Ench) (m : List Nat)
  | broken
deriving Repr, Inhabited

/-- `"Authentication is required"` -/
def authRequiredMsg : List Nat :=
  [65, 117, 116, 104, 101, 110, 116, 105, 99, 97, 116, 105, 111, 110, 32, 105, 115, 32, 114, 101, 113, 117, 105, 114, 101, 100]

/-- The AUTH step of `connect` on an established connection: the error of the client factory or of
`Client().Auth` is returned AS IT IS (no `moduleError`, no `wrapClientErr`: a 552 is not rewritten);
`none` = no `auth` configured or accepted. -/
def downAuthErr : AuthCfg → AuthAns → Option Err
  | .off, _ => none
  | .forward false, _ => some (.smtp 530 ⟨5, 7, 0⟩ authRequiredMsg)
  | _, .ok => none
  | _, .reply c en m => some (.rawSmtp c en m)
  | _, .broken => some .plain

/-- transaction of the downstream target with `auth`: endpoints, then AUTH, then the rest -/
def downAuthTxErr (attempts : List (Option Err)) (cfg : AuthCfg) (ans : AuthAns) (after : After) : Option Err :=
  match downLoop none attempts with
  | some (some l) => some (transparent l)
  | some none => none
  | none =>
    match downAuthErr cfg ans with
    | some e => some e
    | none => afterErr after

/-! ### `multipleErrs`: one error for several recipients -/

/-- `"Partial delivery failure, additional attempts may result in duplicates"` -/
def partialMsg : List Nat :=
  [80, 97, 114, 116, 105, 97, 108, 32, 100, 101, 108, 105, 118, 101, 114, 121, 32, 102, 97, 105, 108, 117, 114, 101, 44, 32, 97, 100, 100, 105, 116, 105, 111, 110, 97, 108, 32, 97, 116, 116, 101, 109, 112, 116, 115, 32, 109, 97, 121, 32, 114, 101, 115, 117, 108, 116, 32, 105, 110, 32, 100, 117, 112, 108, 105, 99, 97, 116, 101, 115]

/-- `(*multipleErrs).Fields`: the value has neither `Temporary()` nor `Unwrap()`. -/
def multipleErrs (errs : List Err) : Err :=
  let t := errs.any isTemporary
  .withFields (some (if t then 451 else 550)) (some (if t then ⟨4, 0, 0⟩ else ⟨5, 0, 0⟩)) (some partialMsg) .plain

end MaddyVerif.Errors
