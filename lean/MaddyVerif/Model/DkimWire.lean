/-
Byte-level model of the path a DKIM-signed message takes through maddy (property C08).

Mirrored code (all byte strings are `List Nat`, one element per octet):

* `internal/modify/dkim/dkim.go`  `fieldsToSign`, `fieldCount`          → `fieldsToSign`, `fieldCount`
* go-message `textproto.WriteHeader` / `ReadHeader` (used by the signer, by
  `queue.storeNewMessage` / `queue.openMessage` and by `smtpconn.Data`)  → `writeHeader`, `gmReadHeader`
* net/textproto `dotWriter` (go-smtp client `Data()`)                    → `dotW` (= `dotOut` ++ `dotClose`)
* `smtpconn.Data` abandoned after an I/O error (writer not closed)       → `transmitCut`, `acceptedCount`
* go-smtp server `dataReader`                                            → `dotR`
* go-msgauth `readHeader`, `headerPicker`, relaxed/simple header and body
  canonicalisers (RFC 6376 §3.4), `parseHeaderParams`, `removeSignature` → `maReadHeader`, `select`,
                                                                            `canonHeader`, `canonBody`, `verifierView`
* `queue.storeNewMessage → openMessage → smtpconn.Data`                  → `spool`, `reload`, `transmit`, `receive`, `nextHop`

Cryptography is symbolic: a signature scheme and a hash are parameters (`Crypto`); signing
returns the scheme's signature over the hash of the canonical digest input.
Library behaviour (go-message, go-msgauth, net/textproto, go-smtp) is modelled here and validated
by differential runs only (T2).  Core Lean only.
-/
namespace MaddyVerif.DkimWire

abbrev Bytes := List Nat

def crlf : Bytes := [13, 10]

/-! ### small byte helpers -/

/-- SP or HTAB (go-message `isSpace`, RFC 5322 WSP). -/
def isWsp (c : Nat) : Bool := c == 32 || c == 9

/-- ASCII part of Go's `unicode.IsSpace` / `strings.TrimSpace` cut set. -/
def isSpaceA (c : Nat) : Bool := c == 32 || (9 ≤ c && c ≤ 13)

def lowerByte (c : Nat) : Nat := if 65 ≤ c ∧ c ≤ 90 then c + 32 else c
def upperByte (c : Nat) : Nat := if 97 ≤ c ∧ c ≤ 122 then c - 32 else c

/-- `strings.ToLower` restricted to ASCII letters (field names are ASCII). -/
def lowerA (s : Bytes) : Bytes := s.map lowerByte

def trimBy (p : Nat → Bool) (s : Bytes) : Bytes :=
  ((s.dropWhile p).reverse.dropWhile p).reverse

/-- go-message `trim`: SP / HTAB on both sides. -/
def trimWsp (s : Bytes) : Bytes := trimBy isWsp s
/-- `strings.TrimSpace` (ASCII). -/
def trimSpaceA (s : Bytes) : Bytes := trimBy isSpaceA s

/-- text before the first ':' (the whole string when there is none). -/
def beforeColon (s : Bytes) : Bytes := s.takeWhile (· != 58)
/-- text after the first ':' (`none` when there is none): `strings.Cut(s, ":")`. -/
def afterColon : Bytes → Option Bytes
  | [] => none
  | c :: r => if c = 58 then some r else afterColon r

/-! ### lines -/

/-- Lossless split into lines: every element keeps its LF terminator (the last may lack it);
`(linesKeep s).flatten = s`.  This is what successive `bufio.Reader.ReadLine` calls consume. -/
def linesKeep : Bytes → List Bytes
  | [] => []
  | c :: r =>
    if c = 10 then [10] :: linesKeep r
    else match linesKeep r with
      | [] => [[c]]
      | l :: ls => (c :: l) :: ls

/-- Content of a line as `ReadLine` returns it: the LF and one CR before it are dropped; a last
line without LF is returned unchanged. -/
def chomp (l : Bytes) : Bytes :=
  match l.reverse with
  | 10 :: 13 :: r => r.reverse
  | 10 :: r => r.reverse
  | _ => l

def startsWsp : Bytes → Bool
  | c :: _ => isWsp c
  | [] => false

/-! ### go-message textproto: WriteHeader / ReadHeader

A header is the list of its raw fields, top to bottom; a raw field is `Key: value` including
folding and the final CRLF.  Fields added with `Header.Add` are formatted by go-message when the
header is written; the harness ships the formatted bytes, so the model only sees raw fields. -/

def writeHeader (h : List Bytes) : Bytes := h.flatten ++ crlf

/-- go-message `validHeaderKeyByte`. -/
def validKeyByte (c : Nat) : Bool := 33 ≤ c && c ≤ 126 && c != 58

/-- Key bytes of a raw field as go-message computes them (`trim(kv[:i])`). -/
def gmRawKey (kv : Bytes) : Bytes := trimWsp (beforeColon kv)

inductive HdrErr | initialSpace | noColon | badKey
deriving DecidableEq, Repr

/-- Validate and append the field that has just been read completely. -/
def gmFlush (cur : Option Bytes) (acc : List Bytes) : Except HdrErr (List Bytes) :=
  match cur with
  | none => .ok acc
  | some kv =>
    if !kv.contains 58 then .error .noColon
    else if !(gmRawKey kv).all validKeyByte then .error .badKey
    else if gmRawKey kv = [] then .ok acc          -- empty key: the field is skipped
    else .ok (kv :: acc)

/-- The `ReadHeader` loop over the remaining lines.  `cur` is the field being continued, `acc`
the fields read so far (reversed).  Result: fields top to bottom and the unread lines. -/
def gmLoop : List Bytes → Option Bytes → List Bytes → Except HdrErr (List Bytes × List Bytes)
  | [], cur, acc => (gmFlush cur acc).map (fun a => (a.reverse, []))
  | l :: ls, cur, acc =>
    match cur with
    | some kv =>
      if startsWsp l then gmLoop ls (some (kv ++ chomp l ++ crlf)) acc
      else match gmFlush cur acc with
        | .error e => .error e
        | .ok acc' =>
          if chomp l = [] then .ok (acc'.reverse, ls)
          else gmLoop ls (some (chomp l ++ crlf)) acc'
    | none =>
      if chomp l = [] then .ok (acc.reverse, ls)
      else gmLoop ls (some (chomp l ++ crlf)) acc

/-- `textproto.ReadHeader`: the raw fields (line ends normalised to CRLF) and the unread rest. -/
def gmReadHeader (s : Bytes) : Except HdrErr (List Bytes × Bytes) :=
  match s with
  | c :: _ =>
    if isWsp c then .error .initialSpace
    else (gmLoop (linesKeep s) none []).map (fun p => (p.1, p.2.flatten))
  | [] => .ok ([], [])

/-! ### net/textproto.CanonicalMIMEHeaderKey and maddy's fieldsToSign -/

/-- net/textproto `validHeaderFieldByte` (RFC 7230 tchar). -/
def isTokenByte (c : Nat) : Bool :=
  (48 ≤ c && c ≤ 57) || (97 ≤ c && c ≤ 122) || (65 ≤ c && c ≤ 90) ||
  c == 33 || c == 35 || c == 36 || c == 37 || c == 38 || c == 39 || c == 42 || c == 43 ||
  c == 45 || c == 46 || c == 94 || c == 95 || c == 96 || c == 124 || c == 126

def canonGo : Bool → Bytes → Bytes
  | _, [] => []
  | upper, c :: r =>
    let c' := if upper then upperByte c else lowerByte c
    c' :: canonGo (c' == 45) r

/-- `textproto.CanonicalMIMEHeaderKey`: keys that are not tokens are returned unchanged. -/
def canonKey (k : Bytes) : Bytes := if k.all isTokenByte then canonGo true k else k

/-- Key under which go-message files a raw field (`Header.m`). -/
def gmKey (kv : Bytes) : Bytes := canonKey (gmRawKey kv)

/-- `fieldCount` (dkim.go): the header fields whose name equals `key` ignoring case
(`strings.EqualFold`; field names are ASCII).  `hk` are the go-message keys of the header. -/
def fieldCount (hk : List Bytes) (key : Bytes) : Nat :=
  hk.countP (fun k => lowerA k == lowerA key)

/-- One of the two loops of `fieldsToSign`: `seen` holds the lower-cased keys met so far, `extra`
is 1 for the over-sign list and 0 for the sign list. -/
def ftsLoop (hk : List Bytes) (extra : Nat) : List Bytes → List Bytes → List Bytes × List Bytes
  | [], seen => ([], seen)
  | k :: ks, seen =>
    if seen.contains (lowerA k) then ftsLoop hk extra ks seen
    else
      let r := ftsLoop hk extra ks (lowerA k :: seen)
      (List.replicate (fieldCount hk k + extra) k ++ r.1, r.2)

/-- `(*Modifier).fieldsToSign`. -/
def fieldsToSign (oversign sign : List Bytes) (hk : List Bytes) : List Bytes :=
  let a := ftsLoop hk 1 oversign []
  let b := ftsLoop hk 0 sign a.2
  a.1 ++ b.1

/-! ### SMTP DATA: net/textproto dotWriter (client) and go-smtp dataReader (server) -/

inductive WState | begin | beginLine | data | cr
deriving DecidableEq, Repr

/-- What `dotWriter.Write` emits for the bytes, followed by what `Close` emits. -/
def dotW : WState → Bytes → Bytes
  | st, [] =>
    match st with
    | .cr => [10, 46, 13, 10]
    | .beginLine => [46, 13, 10]
    | _ => [13, 10, 46, 13, 10]
  | st, c :: r =>
    match st with
    | .cr => if c = 10 then c :: dotW .beginLine r else c :: dotW .data r
    | .data =>
      if c = 13 then c :: dotW .cr r
      else if c = 10 then 13 :: c :: dotW .beginLine r
      else c :: dotW .data r
    | _ =>   -- begin / beginLine: escape a leading dot, then as in `data`
      let pre : Bytes := if c = 46 then [46] else []
      if c = 13 then pre ++ c :: dotW .cr r
      else if c = 10 then pre ++ 13 :: c :: dotW .beginLine r
      else pre ++ c :: dotW .data r

/-- `dotWriter.Write` alone (no `Close`): the octets emitted for the bytes.  This is what is on the
connection when `smtpconn.Data` gives up part-way (the body reader or the connection failed):
`Data` returns the error without closing the DATA writer. -/
def dotOut : WState → Bytes → Bytes
  | _, [] => []
  | st, c :: r =>
    match st with
    | .cr => if c = 10 then c :: dotOut .beginLine r else c :: dotOut .data r
    | .data =>
      if c = 13 then c :: dotOut .cr r
      else if c = 10 then 13 :: c :: dotOut .beginLine r
      else c :: dotOut .data r
    | _ =>
      let pre : Bytes := if c = 46 then [46] else []
      if c = 13 then pre ++ c :: dotOut .cr r
      else if c = 10 then pre ++ 13 :: c :: dotOut .beginLine r
      else pre ++ c :: dotOut .data r

/-- The state `dotWriter.Write` leaves the writer in. -/
def dotEnd : WState → Bytes → WState
  | st, [] => st
  | st, c :: r =>
    match st with
    | .cr => if c = 10 then dotEnd .beginLine r else dotEnd .data r
    | _ =>
      if c = 13 then dotEnd .cr r
      else if c = 10 then dotEnd .beginLine r
      else dotEnd .data r

/-- What `dotWriter.Close` emits in a given state. -/
def dotClose : WState → Bytes
  | .cr => [10, 46, 13, 10]
  | .beginLine => [46, 13, 10]
  | _ => [13, 10, 46, 13, 10]

inductive RState | beginLine | dot | dotCR | cr | data
deriving DecidableEq, Repr

def consOut (c : Nat) (o : Option (Bytes × Bytes)) : Option (Bytes × Bytes) :=
  o.map (fun p => (c :: p.1, p.2))

/-- go-smtp `dataReader.Read` run to the end-of-data marker: the decoded payload and what follows
the marker on the connection; `none` when the stream ends before the marker. -/
def dotR : RState → Bytes → Option (Bytes × Bytes)
  | _, [] => none
  | st, c :: r =>
    match st with
    | .beginLine =>
      if c = 46 then dotR .dot r
      else if c = 13 then consOut c (dotR .cr r)
      else consOut c (dotR .data r)
    | .dot => if c = 13 then dotR .dotCR r else consOut c (dotR .data r)
    | .dotCR => if c = 10 then some ([], r) else consOut c (dotR .data r)
    | .cr => if c = 10 then consOut c (dotR .beginLine r) else consOut c (dotR .data r)
    | .data => if c = 13 then consOut c (dotR .cr r) else consOut c (dotR .data r)

/-! ### the transport: spool → reload → transmit → receive -/

/-- `<id>.header` as `storeNewMessage` writes it (the body file is a byte copy). -/
def spool (h : List Bytes) : Bytes := writeHeader h

/-- `openMessage`: the header is parsed back from the spool file. -/
def reload (file : Bytes) : Except HdrErr (List Bytes) := (gmReadHeader file).map (·.1)

/-- `smtpconn.Data`: header, then body, through the dot writer. -/
def transmit (h : List Bytes) (body : Bytes) : Bytes := dotW .begin (writeHeader h ++ body)

/-- What the next hop's DATA handler reads. -/
def receive (wire : Bytes) : Option Bytes := (dotR .beginLine wire).map (·.1)

/-- `smtpconn.Data` when the body reader fails after `k` octets of the body: header and the first
`k` octets went through the dot writer, the writer is NOT closed (no end-of-data marker); the
connection is then torn down — after fix 2 `C.Close` sends nothing on a connection whose DATA writer
is still open (a QUIT would make net/textproto close the dot writer first).  TCP may deliver any
prefix of this. -/
def transmitCut (h : List Bytes) (body : Bytes) (k : Nat) : Bytes :=
  dotOut .begin (writeHeader h ++ body.take k)

/-- How many of the given attempts the next hop accepts: `some k` = the body reader of that attempt
fails after `k` octets, `none` = an undisturbed attempt. -/
def acceptedCount (h : List Bytes) (body : Bytes) : List (Option Nat) → Nat
  | [] => 0
  | a :: r =>
    let wire := match a with
      | some k => transmitCut h body k
      | none => transmit h body
    (if (receive wire).isSome then 1 else 0) + acceptedCount h body r

/-- store → (restart) → reload → transmit → receive.  `viaDisk = false` is the first attempt,
which uses the header object still in memory. -/
def nextHop (viaDisk : Bool) (h : List Bytes) (body : Bytes) : Option Bytes :=
  if viaDisk then
    match reload (spool h) with
    | .ok h' => receive (transmit h' body)
    | .error _ => none
  else receive (transmit h body)

/-! ### go-msgauth: header reader and picker -/

/-- go-msgauth `readHeader` over the remaining lines; `acc` reversed, its head is the field being
continued.  `none`: the input ended before the empty line. -/
def maLoop : List Bytes → List Bytes → Option (List Bytes × List Bytes)
  | [], _ => none
  | l :: ls, acc =>
    if chomp l = [] then some (acc.reverse, ls)
    else match acc with
      | last :: acc' =>
        if startsWsp (chomp l) then maLoop ls ((last ++ chomp l ++ crlf) :: acc')
        else maLoop ls ((chomp l ++ crlf) :: acc)
      | [] => maLoop ls [chomp l ++ crlf]

def maReadHeader (s : Bytes) : Option (List Bytes × Bytes) :=
  (maLoop (linesKeep s) []).map (fun p => (p.1, p.2.flatten))

/-- Field name as the picker compares it: `strings.TrimSpace` of the text before the colon,
compared with `strings.EqualFold` (ASCII: equality of the lower-cased bytes). -/
def maKey (kv : Bytes) : Bytes := lowerA (trimSpaceA (beforeColon kv))

/-- First element satisfying `p`, and the list without it. -/
def pickFirst {α} (p : α → Bool) : List α → Option (α × List α)
  | [] => none
  | x :: xs =>
    if p x then some (x, xs)
    else match pickFirst p xs with
      | some (y, r) => some (y, x :: r)
      | none => none

/-- `headerPicker`: for every name of the `h=` list, in order, the next not yet picked field of
that name counted from the BOTTOM of the header; names without a remaining field are skipped.
`rem` is the header bottom-first with the fields already picked removed (Go keeps a per-name
counter and skips that many matches; the two formulations pick the same field). -/
def select : List Bytes → List Bytes → List Bytes
  | [], _ => []
  | k :: ks, rem =>
    match pickFirst (fun f => maKey f == lowerA k) rem with
    | some (f, rem') => f :: select ks rem'
    | none => select ks rem

/-! ### canonicalisation (RFC 6376 §3.4, as implemented by go-msgauth) -/

inductive Canon | simple | relaxed
deriving DecidableEq, Repr

/-- `strings.FieldsFunc(v, SP|HTAB|CR|LF)`: the maximal runs of other bytes. -/
def wordsAux : Bytes → Bytes → List Bytes
  | [], cur => if cur = [] then [] else [cur.reverse]
  | c :: r, cur =>
    if c == 32 || c == 9 || c == 10 || c == 13 then
      (if cur = [] then wordsAux r [] else cur.reverse :: wordsAux r [])
    else wordsAux r (c :: cur)

def joinSp : List Bytes → Bytes
  | [] => []
  | [w] => w
  | w :: ws => w ++ 32 :: joinSp ws

def canonHeader (c : Canon) (kv : Bytes) : Bytes :=
  match c with
  | .simple => kv
  | .relaxed =>
    match afterColon kv with
    | none => trimSpaceA (lowerA kv) ++ [58] ++ crlf
    | some v => trimSpaceA (lowerA (beforeColon kv)) ++ [58] ++ joinSp (wordsAux v []) ++ crlf

/-- `crlfFixer`: a CR is inserted before every LF that does not follow a CR. -/
def fixLF : Bool → Bytes → Bytes
  | _, [] => []
  | prevCR, c :: r =>
    if c = 10 ∧ prevCR = false then 13 :: 10 :: fixLF false r
    else c :: fixLF (c == 13) r

/-- drop `CRLF` pairs from the front of a REVERSED string (`LF :: CR :: …`). -/
def dropCRLFrev : Bytes → Bytes
  | 10 :: 13 :: r => dropCRLFrev r
  | l => l

def simpleBody (b : Bytes) : Bytes :=
  let f := fixLF false b
  if f.getLast? = some 13 then f ++ crlf
  else (dropCRLFrev f.reverse).reverse ++ crlf

/-- `relaxedBodyCanonicalizer.Write` byte by byte; at the end `Close` adds CRLF when anything
was written. -/
def relaxedAux : Bool → Bytes → Bool → Bytes → Bytes
  | _, _, written, [] => if written then crlf else []
  | wsp, buf, written, c :: r =>
    if c == 32 || c == 9 then relaxedAux true buf written r
    else if c == 13 || c == 10 then relaxedAux false (buf ++ [c]) written r
    else buf ++ (if wsp then [32] else []) ++ c :: relaxedAux false [] true r

def relaxedBody (b : Bytes) : Bytes := relaxedAux false [] false (fixLF false b)

def canonBody (c : Canon) (b : Bytes) : Bytes :=
  match c with
  | .simple => simpleBody b
  | .relaxed => relaxedBody b

/-! ### the DKIM-Signature field -/

def dkimSigKey : Bytes := [100, 107, 105, 109, 45, 115, 105, 103, 110, 97, 116, 117, 114, 101]  -- "dkim-signature"

/-- RE2 `\s`. -/
def isReSpace (c : Nat) : Bool := c == 9 || c == 10 || c == 12 || c == 13 || c == 32

/-- go-msgauth `removeSignature`: `regexp (b\s*=)[^;]+` replaced by `$1` everywhere.
`pend`: the text emitted so far ends in `b\s*`; `skip`: inside the `[^;]+` part of a match. -/
def removeSigAux : Bool → Bool → Bytes → Bytes
  | _, _, [] => []
  | _, true, c :: r => if c = 59 then c :: removeSigAux false false r else removeSigAux false true r
  | pend, false, c :: r =>
    if c = 61 ∧ pend = true then
      match r with
      | d :: _ => if d = 59 then c :: removeSigAux false false r else c :: removeSigAux false true r
      | [] => [c]
    else c :: removeSigAux (c == 98 || (pend && isReSpace c)) false r

def removeSig (s : Bytes) : Bytes := removeSigAux false false s

/-- `strings.TrimRight(s, "\r\n")`. -/
def trimRightCRLF (s : Bytes) : Bytes := (s.reverse.dropWhile (fun c => c == 13 || c == 10)).reverse

def splitOn (sep : Nat) : Bytes → List Bytes
  | [] => [[]]
  | c :: r =>
    if c = sep then [] :: splitOn sep r
    else match splitOn sep r with
      | [] => [[c]]
      | w :: ws => (c :: w) :: ws

def stripSpaceA (s : Bytes) : Bytes := s.filter (fun c => !isSpaceA c)

/-- `strings.Cut(s, sep)`: text before and after the first `sep`. -/
def cutAt (sep : Nat) : Bytes → Option (Bytes × Bytes)
  | [] => none
  | c :: r => if c = sep then some ([], r) else (cutAt sep r).map (fun p => (c :: p.1, p.2))

/-- `parseHeaderParams`: tag → value, later tags override earlier ones (returned in reverse
order so that `lookup` finds the last); `none` = "malformed header params". -/
def parseParams (v : Bytes) : Option (List (Bytes × Bytes)) :=
  (splitOn 59 v).foldlM (fun acc s =>
    match cutAt 61 s with
    | some (k, x) => some ((trimSpaceA k, trimSpaceA x) :: acc)
    | none => if trimSpaceA s = [] then some acc else none) []

def tag (ps : List (Bytes × Bytes)) (name : Bytes) : Option Bytes := ps.lookup name

def parseCanonName (s : Bytes) : Option Canon :=
  if s = [115, 105, 109, 112, 108, 101] then some .simple
  else if s = [114, 101, 108, 97, 120, 101, 100] then some .relaxed
  else none

/-- `parseCanonicalization` + the lookup in `canonicalizers`: `c=` tag, both default to simple;
`SplitN(…, "/", 2)`: everything after the first '/' names the body algorithm. -/
def parseC (ps : List (Bytes × Bytes)) : Option (Canon × Canon) :=
  let s := stripSpaceA ((tag ps [99]).getD [])
  let hname := match cutAt 47 s with | some (a, _) => a | none => s
  let hcan := if hname = [] then some Canon.simple else parseCanonName hname
  let bcan := match cutAt 47 s with | some (_, b) => parseCanonName b | none => some Canon.simple
  match hcan, bcan with
  | some x, some y => some (x, y)
  | _, _ => none

structure VerifierView where
  hc : Canon
  bc : Canon
  hkeys : List Bytes          -- the h= list
  picked : Nat                -- how many header fields it selected
  bodyCanon : Bytes           -- what is hashed into bh=
  digestInput : Bytes         -- what is hashed and checked against b=
  b : Bytes                   -- b= tag, whitespace removed (base64 text)
  bh : Bytes                  -- bh= tag, whitespace removed (base64 text)

/-- Digest input of a signature: the selected fields in canonical form, then the signature field
with its `b=` value removed, canonicalised, without the final CRLF.  `hdr` is top to bottom. -/
def digestInput (hc : Canon) (ks : List Bytes) (hdr : List Bytes) (sigField : Bytes) : Bytes :=
  ((select ks hdr.reverse).map (canonHeader hc)).flatten ++
    trimRightCRLF (canonHeader hc (removeSig sigField))

inductive VErr | noHeaderEnd | noSignature | badParams | badVersion | badCanon | missingTag
deriving DecidableEq, Repr

/-- go-msgauth `requiredTags`: v a b bh d h s -/
def requiredTags : List Bytes := [[118], [97], [98], [98, 104], [100], [104], [115]]

/-- What a verifier at the next hop derives from the received payload for its FIRST
DKIM-Signature field (go-msgauth `VerifyWithOptions`/`verify`, data path only). -/
def verifierView (payload : Bytes) : Except VErr VerifierView :=
  match maReadHeader payload with
  | none => .error .noHeaderEnd
  | some (hdr, body) =>
    match hdr.find? (fun f => maKey f == dkimSigKey) with
    | none => .error .noSignature
    | some sig =>
      match parseParams (trimSpaceA ((afterColon sig).getD [])) with
      | none => .error .badParams
      | some ps =>
        if tag ps [118] ≠ some [49] then .error .badVersion        -- params["v"] != "1"
        else if !requiredTags.all (fun t => (tag ps t).isSome) then .error .missingTag
        else
        match tag ps [104], tag ps [98], tag ps [98, 104] with
        | some h, some b, some bh =>
          -- (go-msgauth checks i=, From ∈ h=, t=, x=, the key record and a= here: verdicts, not data)
          match parseC ps with
          | none => .error .badCanon
          | some (hc, bc) =>
            let ks := (splitOn 58 h).map stripSpaceA
            .ok { hc := hc, bc := bc, hkeys := ks,
                  picked := (select ks hdr.reverse).length,
                  bodyCanon := canonBody bc body,
                  digestInput := digestInput hc ks hdr sig,
                  b := stripSpaceA b, bh := stripSpaceA bh }
        | _, _, _ => .error .missingTag

/-! ### symbolic signing and verification -/

/-- Hash and signature scheme are parameters. -/
structure Crypto (D S : Type) where
  hash : Bytes → D
  sign : D → S
  vrfy : D → S → Bool

/-- What the signer commits to: body hash and signature over the header digest input. -/
structure SigValue (D S : Type) where
  bodyHash : D
  sig : S

/-- What the signer hashes (go-msgauth `NewSigner`): the selected fields of the header it was
handed, canonicalised, then the signature field formatted with an EMPTY `b=` (`tmpl`),
canonicalised, without the final CRLF.  No `removeSignature` on this side. -/
def signerDigestInput (hc : Canon) (ks : List Bytes) (hdr : List Bytes) (tmpl : Bytes) : Bytes :=
  ((select ks hdr.reverse).map (canonHeader hc)).flatten ++ trimRightCRLF (canonHeader hc tmpl)

def signMsg {D S} (C : Crypto D S) (hc bc : Canon) (ks : List Bytes) (hdr : List Bytes)
    (tmpl : Bytes) (body : Bytes) : SigValue D S :=
  { bodyHash := C.hash (canonBody bc body), sig := C.sign (C.hash (signerDigestInput hc ks hdr tmpl)) }

/-- go-msgauth `verify` after tag parsing: body hash comparison, then the signature check. -/
def verifyMsg {D S} [DecidableEq D] (C : Crypto D S) (hc bc : Canon) (ks : List Bytes)
    (hdr : List Bytes) (sigField : Bytes) (body : Bytes) (v : SigValue D S) : Bool :=
  decide (C.hash (canonBody bc body) = v.bodyHash) &&
    C.vrfy (C.hash (digestInput hc ks hdr sigField)) v.sig

end MaddyVerif.DkimWire
