import MaddyVerif.Model.Errors
/-
Model of the failures the message pipeline makes out of the verdicts of checks (strengthening round 8):

* `internal/dmarc/evaluate.go: EvaluateAlignment` (which value the evaluation ends with, given what the SPF
  and DKIM results say and whether their identifiers are aligned — alignment itself is a parameter, C07 covers
  it), `internal/dmarc/verifier.go: (*Verifier).Apply` (value and policy to apply, given how the policy lookup
  ended; records without `pct`), `internal/msgpipeline/check_runner.go: (*checkRunner).applyResults` (the
  rejection error: its Code and EnhancedCode are COMPUTED from the value — one of the places in the tree where
  an `exterrors.SMTPError` is built from non-literal codes);
* `framework/config/module/check_action.go: ParseActionDirective` (on top of `ParseRejectDirective` =
  `parseReject true`), `FailAction.Apply` (the administrator's status wrapped AROUND the check's own reason,
  Code / EnhancedCode / Message copied from the parsed directive — the second such place),
  `check_runner.go: runAndMergeResults` (which of reject / quarantine / ignore the pipeline acts on).

The other places that build an `SMTPError` from computed codes are modelled in `Errors.lean` (`parseReject`:
both `reject` parsers; `milterReply`) and `ErrorsNextHop.lean` (`wrapClientErr`, `lmtpStatus`: the next hop's
reply passed on, 552 rewritten); `Generated/SmtpLits.lean` lists them all from the source tree.

Core Lean only (linked into the driver).
-/
namespace MaddyVerif.Errors

/-! ### DMARC -/

/-- `authres.ResultValue` as far as the evaluation distinguishes them. -/
inductive AuthVal
  | pass | fail | tempError | other
deriving DecidableEq, Repr, Inhabited

/-- One SPF / DKIM result handed to the evaluation: its value, and whether its identifier is aligned with
the RFC5322.From domain. -/
structure IdRes where
  val : AuthVal
  aligned : Bool
deriving DecidableEq, Repr, Inhabited

inductive DmarcVal
  | none | pass | fail | tempError | permError
deriving DecidableEq, Repr, Inhabited

inductive Policy
  | none | quarantine | reject
deriving DecidableEq, Repr, Inhabited

/-- How the policy lookup (`FetchRecord`) ended. -/
inductive RecLookup
  | tempDNS                      -- `*net.DNSError` with `Temporary()`
  | otherErr                     -- any other error: a resolver failure that is not a DNSError, a malformed record
  | noRecord                     -- no (or more than one) DMARC record at the From and at the organisational domain
  | record (atOrg : Bool) (p : Policy) (sp : Option Policy)
                                 -- found; `atOrg`: the policy domain differs from the From domain
deriving DecidableEq, Repr, Inhabited

/-- `EvaluateAlignment` (one SPF and one DKIM result at most; `none` = the check is not configured). -/
def evaluateAlignment (spf dkim : Option IdRes) : DmarcVal :=
  match spf, dkim with
  | some s, some d =>
    let spfAligned := s.aligned && s.val == .pass
    let spfTempFail := s.aligned && s.val == .tempError
    let dkimAligned := d.aligned && d.val == .pass
    let dkimTempFail := d.aligned && d.val == .tempError
    if dkimTempFail && !dkimAligned && !spfAligned then .tempError
    else if spfTempFail && !dkimAligned && !spfAligned then .tempError
    else if dkimAligned || spfAligned then .pass
    else .fail
  | _, _ => .none

/-- `(*Verifier).Apply`: the value of the evaluation and the policy the MTA has to apply. -/
def verifierApply (lk : RecLookup) (spf dkim : Option IdRes) : DmarcVal × Policy :=
  match lk with
  | .tempDNS => (.tempError, .reject)        -- 'fail closed'
  | .otherErr => (.permError, .none)
  | .noRecord => (.none, .none)
  | .record atOrg p sp =>
    let v := evaluateAlignment spf dkim
    if v == .pass || v == .none then (v, .none)
    else (v, match atOrg, sp with
             | true, some q => q
             | _, _ => p)

/-- `"DMARC check failed"` -/
def dmarcMsg : List Nat :=
  [68, 77, 65, 82, 67, 32, 99, 104, 101, 99, 107, 32, 102, 97, 105, 108, 101, 100]

/-- The computed codes of the rejection in `applyResults`: `code := 550; enchCode := {5,7,1};
if value == temperror { code = 450; enchCode[0] = 4 }`. -/
def dmarcCode (v : DmarcVal) : Nat := if v == .tempError then 450 else 550
def dmarcEnch (v : DmarcVal) : Ench := ⟨if v == .tempError then 4 else 5, 7, 1⟩

/-- What a check stage of the pipeline ends with: the message goes on (quarantined or not) or is refused
with an error value. -/
inductive Verdict
  | accepted (quarantine : Bool)
  | refused (e : Err)
deriving Repr, Inhabited

/-- `applyResults`, the DMARC part. -/
def dmarcApply (r : DmarcVal × Policy) : Verdict :=
  match r.2 with
  | .reject => .refused (.smtp (dmarcCode r.1) (dmarcEnch r.1) dmarcMsg)
  | .quarantine => .accepted true
  | .none => .accepted false

def dmarcVerdict (lk : RecLookup) (spf dkim : Option IdRes) : Verdict :=
  dmarcApply (verifierApply lk spf dkim)

/-! ### the fail action of a check -/

inductive ActKind
  | reject | quarantine | ignore | invalid
deriving DecidableEq, Repr, Inhabited

/-- `modconfig.FailAction` (the override: code, enhanced code, message). -/
structure FailAction where
  reject : Bool
  quarantine : Bool
  override : Option (Nat × Ench × List Nat)
deriving Repr, Inhabited

/-- `"Message rejected due to a local policy"` -/
def localPolicyMsg : List Nat :=
  [77, 101, 115, 115, 97, 103, 101, 32, 114, 101, 106, 101, 99, 116, 101, 100, 32, 100, 117, 101, 32, 116, 111, 32, 97,
   32, 108, 111, 99, 97, 108, 32, 112, 111, 108, 105, 99, 121]

/-- `ParseActionDirective`: `a` are the arguments AFTER the action word (`a.nargs` of them), `msg` the text
of the third one.  `none` = configuration error.  `ignore` does not look at further arguments. -/
def parseAction (k : ActKind) (a : RejectArgs) (msg : List Nat) : Option FailAction :=
  match k with
  | .invalid => none
  | .ignore => some ⟨false, false, none⟩
  | .reject | .quarantine =>
    if a.nargs == 0 then some ⟨k == .reject, k == .quarantine, none⟩ else
    match parseReject true a with
    | none => none
    | some (c, e) => some ⟨k == .reject, k == .quarantine, some (c, e, if a.nargs ≥ 3 then msg else localPolicyMsg)⟩

/-- `FailAction.Apply` on a result that carries only a reason: the reason after the call. -/
def applyOverride (ovr : Option (Nat × Ench × List Nat)) (reason : Err) : Err :=
  match ovr with
  | some (c, e, m) => .smtpWrap c e m reason          -- "wrap instead of replace"
  | none => reason

/-- `FailAction.Apply` + `runAndMergeResults` for one check (`none` = the check passes: `Apply` returns the
result untouched, nothing is set).  Quarantine wins over reject. -/
def failActionVerdict (fa : FailAction) (reason : Option Err) : Verdict :=
  match reason with
  | none => .accepted false
  | some r =>
    if fa.quarantine then .accepted true
    else if fa.reject then .refused (applyOverride fa.override r)
    else .accepted false

/-! ### check.dnsbl `checkLists` (round 10)

Every configured list is looked up concurrently (`errgroup`); a list is clean, lists the client (its
`ScoreAdj` is added to the score) or its lookup fails.  `eg.Wait()` returns the failure of ONE of the
failed lookups — which one is the scheduler's choice (`pick`); the rejection is built from that one
value by the helper pair `SMTPCode` / `SMTPEnchCode`. -/

inductive ListOut
  | clean
  | listed (score : Int)
  | failed (e : Err)
deriving Repr, Inhabited

/-- "DNS error during policy check" -/
def dnsblErrMsg : List Nat := [68, 78, 83, 32, 101, 114, 114, 111, 114, 32, 100, 117, 114, 105, 110, 103, 32, 112, 111, 108, 105, 99, 121, 32, 99, 104, 101, 99, 107]
/-- "Client identity is listed in the used DNSBL" -/
def dnsblListedMsg : List Nat := [67, 108, 105, 101, 110, 116, 32, 105, 100, 101, 110, 116, 105, 116, 121, 32, 105, 115, 32, 108, 105, 115, 116, 101, 100, 32, 105, 110, 32, 116, 104, 101, 32, 117, 115, 101, 100, 32, 68, 78, 83, 66, 76]

/-- the rejection for a failed lookup `e` -/
def dnsblLookupErr (e : Err) : Err :=
  .smtpWrap (smtpCode e 451 554) (smtpEnchCode e ⟨0, 7, 0⟩) dnsblErrMsg e

def failedLookups : List ListOut → List Err
  | [] => []
  | .failed e :: r => e :: failedLookups r
  | _ :: r => failedLookups r

def dnsblScore : List ListOut → Int
  | [] => 0
  | .listed s :: r => s + dnsblScore r
  | _ :: r => dnsblScore r

inductive DnsblVerdict
  | pass
  | quarantine
  | reject (e : Err)
deriving Repr, Inhabited

/-- the `pick`-th (cyclically) element of a non-empty list -/
def pickOf (e0 : Err) (rest : List Err) (pick : Nat) : Err :=
  match (e0 :: rest)[pick % (rest.length + 1)]? with
  | some e => e
  | none => e0

def checkLists (rejectThres quarThres : Int) (outs : List ListOut) (pick : Nat) : DnsblVerdict :=
  match failedLookups outs with
  | e0 :: rest => .reject (dnsblLookupErr (pickOf e0 rest pick))
  | [] =>
    if dnsblScore outs ≥ rejectThres then .reject (.smtp 554 ⟨5, 7, 0⟩ dnsblListedMsg)
    else if dnsblScore outs ≥ quarThres then .quarantine
    else .pass

/-- `check/dns` `requireMXRecord` (`det = 0`) / `requireMatchingRDNS` (`det = 25`): the verdict when the
lookup itself fails with `e` — the same helper pair, 450 / 550, the same text. -/
def policyLookupErr (det : Nat) (e : Err) : Err :=
  .smtpWrap (smtpCode e 450 550) (smtpEnchCode e ⟨0, 7, det⟩) dnsblErrMsg e

end MaddyVerif.Errors
