import MaddyVerif.Model.Address
/-!
Model of message routing in `internal/msgpipeline` (+ `internal/modify/replace_addr.go`, `group.go`).

Mirrored Go functions (after the `fix:` commit that makes `parseMsgPipelineRcptCfg` refuse
blocks without `deliver_to`/`reroute`/`reject`):

* `config.go`  `parseMsgPipelineRootCfg` / `parseMsgPipelineSrcCfg`  →  `loadLevel` (one generic
  function, instantiated at the source level and at the destination level: the two Go functions
  have the same shape), `parseMsgPipelineRcptCfg` → `loadRcpt`, `parseRejectDirective` /
  `parseEnhancedCode` → `parseReject` (on the argument texts of the directive);
* `msgpipeline.go` `srcBlockForAddr` / `rcptBlockForAddr` → `selectBlock`, `start` → `start`,
  `AddRcpt` (incl. `reroute` targets, which are nested pipelines) → `routeF`;
* `replace_addr.go` `rewrite`, `RewriteSender`, `RewriteRcpt`; `group.go` `groupState.Rewrite*`.

A configuration is a tree of directives.  Nesting of pipelines (`reroute { … }`) is handled by
indexing syntax and loaded configurations by their nesting depth: `Ast n` are the configuration
texts whose `reroute` nesting is at most `n`, for every `n`.  All one-level functions are
polymorphic in the type of the nested thing.

External behaviour that is a parameter: `Norm` (address.ForLookup, dns.ForLookup,
validMatchRule, address.Valid — tables computed by the real functions in correspondence runs);
table modules are finite key sets (with an answer latency nothing depends on) / finite multimaps without lookup errors; checks always pass
(`check` directives only matter for loading); delivery targets accept everything.
Not modelled: `sourceBlock.rejectErr` (never set by the parser), DMARC, body/commit stages.
Core Lean only.
-/
namespace MaddyVerif.Routing
open MaddyVerif.Address (Str AT DQ split)

/-! ## parameters -/

structure Norm where
  /-- `address.ForLookup`; `none` = error -/
  key : Str → Option Str
  /-- `dns.ForLookup`; `none` = error -/
  dkey : Str → Option Str
  /-- `validMatchRule` (applied to a normalised rule) -/
  validRule : Str → Bool
  /-- `address.Valid` (applied to replacement values) -/
  validAddr : Str → Bool

/-- table module used by `source_in` / `destination_in`: the set of keys it contains and the
(virtual) time it takes to answer a lookup.  The latency is an input of a case (the harness' table
modules answer after a scripted delay, in the order the case chooses); the selection never reads it
(`firstIn`, `Props/C04.lean` `C04_lookup_order_ignores_latency`). -/
structure Table where
  keys : List Str
  delay : Nat := 0
deriving DecidableEq, Repr

def Table.contains (t : Table) (k : Str) : Bool := t.keys.contains k
/-- table module used by `replace_rcpt` / `replace_sender`: key ↦ values -/
abbrev MTable := List (Str × List Str)

def lookupMulti (t : MTable) (k : Str) : List Str :=
  match t.find? (fun p => p.1 == k) with
  | some p => p.2
  | none => []

/-- `*exterrors.SMTPError`: basic code, the three numbers of the enhanced code (the second and third are
whatever `strconv.Atoi` made of the configured text, so they are integers) and the message.  `msg = []`
stands for the fixed text of a reply that the pipeline itself produces (501 5.1.3, 501 5.1.7, 553 5.1.2). -/
structure Reply where
  code : Nat
  e0 : Nat
  e1 : Int
  e2 : Int
  msg : Str := []
deriving DecidableEq, Repr

/-! ### `parseRejectDirective` / `parseEnhancedCode` (config.go)

The arguments of a `reject` directive are kept as the TEXT the configuration has; the functions below
turn them into the reply exactly like the Go code: `strconv.Atoi` (optional sign, decimal digits, int64
range), `strings.Split(s, ".")`, three parts, first number of the enhanced code 4 or 5, basic code with
`code/100` 4 or 5 (Go's truncating division), message not empty.  Nothing is adjusted: the basic code and
the enhanced code are independent of each other. -/

/-- "Message rejected due to a local policy" -/
def defaultRejectMsg : Str :=
  [77,101,115,115,97,103,101,32,114,101,106,101,99,116,101,100,32,100,117,101,32,116,111,32,97,32,
   108,111,99,97,108,32,112,111,108,105,99,121]

def isDigit (c : Nat) : Bool := 48 ≤ c && c ≤ 57

def digitsVal (ds : Str) : Nat := ds.foldl (fun a c => a * 10 + (c - 48)) 0

/-- `strconv.Atoi` on a 64-bit platform -/
def atoi (s : Str) : Option Int :=
  let neg := s.head? == some 45
  let ds := if s.head? == some 45 || s.head? == some 43 then s.drop 1 else s
  if ds.isEmpty || !ds.all isDigit then none else
  let v := digitsVal ds
  if neg then (if v ≤ 2 ^ 63 then some (-(v : Int)) else none)
  else (if v < 2 ^ 63 then some (v : Int) else none)

/-- `strings.Split(s, ".")` -/
def splitDots (s : Str) : List Str :=
  s.foldr (fun c acc => if c == 46 then [] :: acc else
    match acc with
    | h :: t => (c :: h) :: t
    | [] => [[c]]) [[]]

/-- `parseEnhancedCode` -/
def parseEnhanced (s : Str) : Option (Int × Int × Int) :=
  match splitDots s with
  | [a, b, c] =>
    match atoi a, atoi b, atoi c with
    | some x, some y, some z => some (x, y, z)
    | _, _, _ => none
  | _ => none

/-- the `case 1:` part of `parseRejectDirective` -/
def rejectWithCode (c : Str) (e : Nat × Int × Int) (m : Str) : Option Reply :=
  match atoi c with
  | none => none
  | some code =>
    if Int.tdiv code 100 != 4 && Int.tdiv code 100 != 5 then none
    else some ⟨code.toNat, e.1, e.2.1, e.2.2, m⟩

/-- the `case 2:` part followed by `case 1:` -/
def rejectWithEnh (c e m : Str) : Option Reply :=
  match parseEnhanced e with
  | none => none
  | some (x, y, z) =>
    if x != 4 && x != 5 then none else rejectWithCode c (x.toNat, y, z) m

/-- `parseRejectDirective`: `none` = the directive is refused -/
def parseReject (args : List Str) : Option Reply :=
  match args with
  | [] => some ⟨554, 5, 7, 0, defaultRejectMsg⟩
  | [c] => rejectWithCode c (5, 7, 0) defaultRejectMsg
  | [c, e] => rejectWithEnh c e defaultRejectMsg
  | [c, e, m] => if m.isEmpty then none else rejectWithEnh c e m
  | _ => none

/-- what `Start` / `AddRcpt` return when they fail -/
inductive Refusal
  | reply (r : Reply)      -- `*exterrors.SMTPError`
  | malformed              -- replace_addr: "malformed address"
  | badReplacement         -- replace_addr: "refusing to replace … with the invalid address"
  | panic                  -- index out of range in `results[0]` (proved unreachable)
deriving DecidableEq, Repr

inductive ModKind | sender | rcpt
deriving DecidableEq, Repr

structure Modifier where
  kind : ModKind
  tbl : MTable
deriving DecidableEq, Repr

/-! ## replace_addr.go -/

/-- `strings.Contains(r, "@") && !strings.HasPrefix(r, "\"") && !strings.HasSuffix(r, "\"")` -/
def addrLike (r : Str) : Bool :=
  r.contains AT && !(r.head? == some DQ) && !(r.getLast? == some DQ)

/-- `replaceAddr.rewrite` -/
def rewrite (N : Norm) (t : MTable) (val : Str) : Except Refusal (List Str) :=
  match N.key val with
  | none => .error .malformed
  | some k =>
    let r1 := lookupMulti t k
    if !r1.isEmpty then
      if r1.all N.validAddr then .ok r1 else .error .badReplacement
    else
      match split k with
      | .error _ => .ok [val]
      | .ok (mbox, dom) =>
        let r2 := lookupMulti t mbox
        if !r2.isEmpty then
          if r2.all (fun r => !addrLike r || N.validAddr r) then
            .ok (r2.map (fun r => if addrLike r then r else r ++ AT :: dom))
          else .error .badReplacement
        else .ok [val]

/-- `replaceAddr.RewriteSender` folded over a `modify.Group` (`groupState.RewriteSender`). -/
def rewriteSender (N : Norm) : List Modifier → Str → Except Refusal Str
  | [], a => .ok a
  | m :: ms, a =>
    match m.kind with
    | .rcpt => rewriteSender N ms a
    | .sender =>
      match rewrite N m.tbl a with
      | .error e => .error e
      | .ok [] => .error .panic
      | .ok (x :: _) => rewriteSender N ms x

/-- `replaceAddr.RewriteRcpt` -/
def rewriteRcptOne (N : Norm) (m : Modifier) (a : Str) : Except Refusal (List Str) :=
  match m.kind with
  | .rcpt => rewrite N m.tbl a
  | .sender => .ok [a]

/-- run `f` on every element in order, stop at the first error, concatenate -/
def mapCat {α β ε} (f : α → Except ε (List β)) : List α → Except ε (List β)
  | [] => .ok []
  | a :: r =>
    match f a with
    | .error e => .error e
    | .ok x =>
      match mapCat f r with
      | .error e => .error e
      | .ok y => .ok (x ++ y)

/-- `groupState.RewriteRcpt` -/
def rewriteRcpt (N : Norm) : List Modifier → List Str → Except Refusal (List Str)
  | [], res => .ok res
  | m :: ms, res =>
    match mapCat (rewriteRcptOne N m) res with
    | .error e => .error e
    | .ok r => rewriteRcpt N ms r

/-! ## loaded configuration (what `parseMsgPipeline*Cfg` builds) -/

/-- a delivery target of a block: a module instance or a nested pipeline (`reroute`) -/
inductive Tgt (σ : Type)
  | named (id : Nat)
  | pipe (p : σ)
deriving DecidableEq, Repr

/-- `rcptBlock` -/
structure RcptBlk (σ : Type) where
  mods : List Modifier := []
  reject : Option Reply := none
  targets : List (Tgt σ) := []
deriving DecidableEq, Repr

/-- `sourceBlock` (Blk = rcptBlock) and `msgpipelineCfg` (Blk = sourceBlock): modifiers, table
blocks in order, the rule map (association list: insertion only when the key is absent, lookup
by key — Go's `map[string]…` as far as routing uses it) and the default block. -/
structure Level (Blk : Type) where
  mods : List Modifier
  ins : List (Table × Blk)
  per : List (Str × Blk)
  dflt : Blk
deriving DecidableEq, Repr

abbrev SrcBlk (σ : Type) := Level (RcptBlk σ)
abbrev Cfg (σ : Type) := Level (SrcBlk σ)

def lookup {β} (m : List (Str × β)) (k : Str) : Option β :=
  match m.find? (fun p => p.1 == k) with
  | some p => some p.2
  | none => none

def firstIn {β} (l : List (Table × β)) (k : Str) : Option β :=
  match l.find? (fun p => p.1.contains k) with
  | some p => some p.2
  | none => none

/-- the loops over `sourceIn` / `rcptIn` in `srcBlockForAddr` / `rcptBlockForAddr` with the time they
take: one lookup after the other in declaration order, each one waited for; returns the block and
the virtual time spent in lookups. -/
def firstInTimed {β} : List (Table × β) → Str → Option β × Nat
  | [], _ => (none, 0)
  | (t, b) :: r, k =>
    if t.contains k then (some b, t.delay)
    else ((firstInTimed r k).1, t.delay + (firstInTimed r k).2)

/-- the same tables with other latencies -/
def retime {β} (f : Table → Nat) (l : List (Table × β)) : List (Table × β) :=
  l.map fun p => ({ p.1 with delay := f p.1 }, p.2)

/-- NOT what the code does (contrast for `Props/C04.lean`): all lookups started together, the block of
the matching table that answers first (ties: declaration order). -/
def firstAnswering {β} : List (Table × β) → Str → Option (Nat × β)
  | [], _ => none
  | (t, b) :: r, k =>
    match firstAnswering r k with
    | none => if t.contains k then some (t.delay, b) else none
    | some (d, b') => if t.contains k && t.delay ≤ d then some (t.delay, b) else some (d, b')

def r501_513 : Refusal := .reply ⟨501, 5, 1, 3, []⟩
def r501_517 : Refusal := .reply ⟨501, 5, 1, 7, []⟩
def r553_512 : Refusal := .reply ⟨553, 5, 1, 2, []⟩

/-- `srcBlockForAddr` (nullOk = true) / `rcptBlockForAddr` (nullOk = false) after the key has been
computed: tables in order, then the whole key, then the domain part, then the default. -/
def selectBlock {β} (L : Level β) (k : Str) (nullOk : Bool) : Except Refusal β :=
  match firstIn L.ins k with
  | some b => .ok b
  | none =>
    match lookup L.per k with
    | some b => .ok b
    | none =>
      match split k with
      | .error _ =>
        if nullOk && k.isEmpty then
          match lookup L.per [] with
          | some b => .ok b
          | none => .ok L.dflt
        else .error r501_513
      | .ok (_, dom) =>
        match lookup L.per dom with
        | some b => .ok b
        | none => .ok L.dflt

/-- `cleanFrom` of `srcBlockForAddr` -/
def srcKey (N : Norm) (a : Str) : Option Str := if a.isEmpty then some [] else N.key a

/-! ## routing -/

/-- a recipient handed to a delivery target (`Delivery.AddRcpt`), with the sender the target was
started with -/
structure Deliv where
  tgt : Nat
  sender : Str
  rcpt : Str
deriving DecidableEq, Repr

/-- deliveries made, in order, and the error returned (if any) -/
abbrev Out := List Deliv × Option Refusal

def refuse (e : Refusal) : Out := ([], some e)

/-- run `f` on the elements in order; stop at the first error, keeping what was already done -/
def seqOut {α} (f : α → Out) : List α → Out
  | [] => ([], none)
  | a :: r =>
    match f a with
    | (d, some e) => (d, some e)
    | (d, none) => let o := seqOut f r; (d ++ o.1, o.2)

/-- `msgpipelineDelivery.start`: the selected source block and the sender the targets see -/
def start {σ} (N : Norm) (c : Cfg σ) (sender : Str) : Except Refusal (SrcBlk σ × Str) :=
  match rewriteSender N c.mods sender with
  | .error e => .error e
  | .ok f1 =>
    match srcKey N f1 with
    | none => .error r501_517
    | some k =>
      match selectBlock c k true with
      | .error e => .error e
      | .ok sb =>
        match rewriteSender N sb.mods f1 with
        | .error e => .error e
        | .ok f2 => .ok (sb, f2)

def deliverOne {σ} (sub : σ → Str → Str → Out) (sender to : Str) : Tgt σ → Out
  | .named id => ([⟨id, sender, to⟩], none)
  | .pipe p => sub p sender to

/-- what a destination block does with an address: its reply, or its targets get every address
its own modifiers produce -/
def runBlock {σ} (N : Norm) (sub : σ → Str → Str → Out) (blk : RcptBlk σ) (sender to : Str) : Out :=
  match blk.reject with
  | some r => refuse (.reply r)
  | none =>
    match rewriteRcpt N blk.mods [to] with
    | .error e => refuse e
    | .ok tos => seqOut (fun t => seqOut (deliverOne sub sender t) blk.targets) tos

/-- body of the `for _, to = range resultTo` loop of `AddRcpt` -/
def handleRcpt {σ} (N : Norm) (sub : σ → Str → Str → Out) (sb : SrcBlk σ) (sender to : Str) : Out :=
  match N.key to with
  | none => refuse r553_512
  | some k =>
    match selectBlock sb k false with
    | .error e => refuse e
    | .ok blk => runBlock N sub blk sender to

/-- global, then per-source recipient modifiers -/
def rewriteRcpt2 (N : Norm) (g s : List Modifier) (to : Str) : Except Refusal (List Str) :=
  match rewriteRcpt N g [to] with
  | .error e => .error e
  | .ok l1 => mapCat (fun t => rewriteRcpt N s [t]) l1

/-- One pipeline, one sender, one recipient: `Start` (when it fails inside a nested pipeline the
error comes back from the enclosing `AddRcpt`) followed by `AddRcpt`.
`sub` is the behaviour of nested pipelines. -/
def routeF {σ} (N : Norm) (sub : σ → Str → Str → Out) (c : Cfg σ) (sender to : Str) : Out :=
  match start N c sender with
  | .error e => refuse e
  | .ok (sb, f2) =>
    match rewriteRcpt2 N c.mods sb.mods to with
    | .error e => refuse e
    | .ok l2 => seqOut (handleRcpt N sub sb f2) l2

/-! ## configuration syntax -/

inductive DeliverArg
  | noArgs            -- `deliver_to` without arguments
  | unknown           -- reference to a module that does not exist
  | target (id : Nat)
deriving DecidableEq, Repr

/-- a directive inside a destination block (the switch of `parseMsgPipelineRcptCfg`); ρ is what a
non-empty `reroute { … }` body is -/
inductive Item (ρ : Type)
  | check (ok : Bool)                       -- false: the check module cannot be created
  | modify (ms : Option (List Modifier))    -- none: the modifier module cannot be created
  | deliverTo (a : DeliverArg)
  | reroute (body : Option ρ)               -- none: `reroute { }`
  | reject (r : Option Reply)               -- none: arguments refused by parseRejectDirective
  | other                                   -- any other directive name
deriving DecidableEq, Repr

/-- a directive at a level that has match rules (pipeline root: H = source-level directive;
source block: H = `Item`) -/
inductive LNode (H : Type)
  | tbl (t : Option Table) (body : List H)  -- source_in / destination_in; none: unknown table
  | rules (rs : List Str) (body : List H)   -- source / destination
  | dflt (body : List H)                    -- default_source / default_destination  { … }
  | sub (h : H)                             -- anything else
deriving DecidableEq, Repr

abbrev SrcN (ρ : Type) := LNode (Item ρ)
abbrev RootN (ρ : Type) := LNode (SrcN ρ)

inductive Lvl | src | dst
deriving DecidableEq, Repr

inductive LoadErr
  | unknownDirective
  | moduleErr
  | emptyLevel (l : Lvl)            -- "empty pipeline configuration" / "empty source block"
  | handlingWithRules (l : Lvl)     -- "can't put handling directives together with … rules"
  | missingDefault (l : Lvl)
  | dupDefault (l : Lvl)
  | noRule (l : Lvl)                -- "expected at least one … rule"
  | invalidRule (l : Lvl)
  | rejectAndDeliver
  | deliverNoArgs
  | emptyReroute
  | badReject
  | noDecision                      -- block without deliver_to / reroute / reject
deriving DecidableEq, Repr

/-- how the switch of a level treats a directive that is not one of its own three block kinds -/
inductive HKind
  | check (ok : Bool)
  | modify (ms : Option (List Modifier))
  | other
  | handling
deriving DecidableEq, Repr

def Item.kind {ρ} : Item ρ → HKind
  | .check ok => .check ok
  | .modify ms => .modify ms
  | .other => .other
  | _ => .handling

def LNode.kind {H} (k : H → HKind) : LNode H → HKind
  | .sub h => k h
  | _ => .handling

/-! ## loading -/

/-- loop of `parseMsgPipelineRcptCfg` -/
def loadItems {ρ σ} (sub : ρ → Except LoadErr σ) : List (Item ρ) → RcptBlk σ → Except LoadErr (RcptBlk σ)
  | [], b => .ok b
  | it :: r, b =>
    match it with
    | .check ok => if ok then loadItems sub r b else .error .moduleErr
    | .modify none => .error .moduleErr
    | .modify (some ms) => loadItems sub r { b with mods := b.mods ++ ms }
    | .deliverTo a =>
      if b.reject.isSome then .error .rejectAndDeliver else
      match a with
      | .noArgs => .error .deliverNoArgs
      | .unknown => .error .moduleErr
      | .target id => loadItems sub r { b with targets := b.targets ++ [.named id] }
    | .reroute none => .error .emptyReroute
    | .reroute (some body) =>
      match sub body with
      | .error e => .error e
      | .ok p => loadItems sub r { b with targets := b.targets ++ [.pipe p] }
    | .reject rr =>
      if !b.targets.isEmpty then .error .rejectAndDeliver else
      match rr with
      | none => .error .badReject
      | some rep => loadItems sub r { b with reject := some rep }
    | .other => .error .unknownDirective

/-- `parseMsgPipelineRcptCfg` -/
def loadRcpt {ρ σ} (sub : ρ → Except LoadErr σ) (items : List (Item ρ)) : Except LoadErr (RcptBlk σ) :=
  match loadItems sub items {} with
  | .error e => .error e
  | .ok b => if b.targets.isEmpty && b.reject.isNone then .error .noDecision else .ok b

/-- `address.ForLookup` for rules containing '@', `dns.ForLookup` otherwise -/
def normRule (N : Norm) (r : Str) : Option Str := if r.contains AT then N.key r else N.dkey r

/-- the `for _, rule := range node.Args` loop: first declaration wins -/
def insertRules {β} (N : Norm) (l : Lvl) (blk : β) : List Str → List (Str × β) → Except LoadErr (List (Str × β))
  | [], m => .ok m
  | r :: rs, m =>
    match normRule N r with
    | none => .error (.invalidRule l)
    | some k =>
      if !N.validRule k then .error (.invalidRule l)
      else if (lookup m k).isSome then insertRules N l blk rs m
      else insertRules N l blk rs (m ++ [(k, blk)])

/-- loop state of `parseMsgPipelineRootCfg` / `parseMsgPipelineSrcCfg` -/
structure Acc (H Blk : Type) where
  mods : List Modifier := []
  ins : List (Table × Blk) := []
  per : List (Str × Blk) := []
  dflt : Option (List H) := none     -- `defaultSrcRaw` / `defaultRcptRaw` (nil until seen)
  others : List H := []              -- `othersRaw`

/-- the loop of `parseMsgPipelineRootCfg` / `parseMsgPipelineSrcCfg` -/
def loadNodes {H Blk} (N : Norm) (l : Lvl) (kind : H → HKind) (loadBody : List H → Except LoadErr Blk) :
    List (LNode H) → Acc H Blk → Except LoadErr (Acc H Blk)
  | [], a => .ok a
  | nd :: r, a =>
    match nd with
    | .tbl none _ => .error .moduleErr
    | .tbl (some t) body =>
      match loadBody body with
      | .error e => .error e
      | .ok b => loadNodes N l kind loadBody r { a with ins := a.ins ++ [(t, b)] }
    | .rules rs body =>
      match loadBody body with
      | .error e => .error e
      | .ok b =>
        if rs.isEmpty then .error (.noRule l) else
        match insertRules N l b rs a.per with
        | .error e => .error e
        | .ok per => loadNodes N l kind loadBody r { a with per := per }
    | .dflt body =>
      if a.dflt.isSome then .error (.dupDefault l)
      else loadNodes N l kind loadBody r { a with dflt := some body }
    | .sub h =>
      match kind h with
      | .check ok => if ok then loadNodes N l kind loadBody r a else .error .moduleErr
      | .modify none => .error .moduleErr
      | .modify (some ms) => loadNodes N l kind loadBody r { a with mods := a.mods ++ ms }
      | .other => .error .unknownDirective
      | .handling => loadNodes N l kind loadBody r { a with others := a.others ++ [h] }

/-- the part of `parseMsgPipelineRootCfg` / `SrcCfg` after the loop -/
def finishLevel {H Blk} (l : Lvl) (loadBody : List H → Except LoadErr Blk) (a : Acc H Blk) :
    Except LoadErr (Level Blk) :=
  let d := a.dflt.getD []
  if a.per.isEmpty && d.isEmpty then
    if a.others.isEmpty then .error (.emptyLevel l)
    else match loadBody a.others with
      | .error e => .error e
      | .ok b => .ok ⟨a.mods, a.ins, a.per, b⟩
  else if !a.others.isEmpty then .error (.handlingWithRules l)
  else if d.isEmpty then .error (.missingDefault l)
  else match loadBody d with
    | .error e => .error e
    | .ok b => .ok ⟨a.mods, a.ins, a.per, b⟩

def loadLevel {H Blk} (N : Norm) (l : Lvl) (kind : H → HKind) (loadBody : List H → Except LoadErr Blk)
    (nodes : List (LNode H)) : Except LoadErr (Level Blk) :=
  match loadNodes N l kind loadBody nodes {} with
  | .error e => .error e
  | .ok a => finishLevel l loadBody a

/-- `parseMsgPipelineSrcCfg` -/
def loadSrc {ρ σ} (N : Norm) (sub : ρ → Except LoadErr σ) (nodes : List (SrcN ρ)) : Except LoadErr (SrcBlk σ) :=
  loadLevel N .dst Item.kind (loadRcpt sub) nodes

/-- `parseMsgPipelineRootCfg` -/
def loadRoot {ρ σ} (N : Norm) (sub : ρ → Except LoadErr σ) (nodes : List (RootN ρ)) : Except LoadErr (Cfg σ) :=
  loadLevel N .src (LNode.kind Item.kind) (loadSrc N sub) nodes

/-! ## any nesting depth -/

/-- configuration texts with `reroute` nesting ≤ n -/
def Ast : Nat → Type
  | 0 => List (RootN Empty)
  | n + 1 => List (RootN (Ast n))

/-- loaded pipelines with nesting ≤ n -/
def Loaded : Nat → Type
  | 0 => Cfg Empty
  | n + 1 => Cfg (Loaded n)

def Ast.isEmpty : (n : Nat) → Ast n → Bool
  | 0, a => List.isEmpty (α := RootN Empty) a
  | n + 1, a => List.isEmpty (α := RootN (Ast n)) a

/-- `msgpipeline.New`; a `reroute` whose braces are empty is refused before `New` is called -/
def load (N : Norm) : (n : Nat) → Ast n → Except LoadErr (Loaded n)
  | 0, a => loadRoot N (fun e => nomatch e) a
  | n + 1, a => loadRoot N (fun b => if Ast.isEmpty n b then .error .emptyReroute else load N n b) a

/-- `MsgPipeline.Start` + `AddRcpt` for one sender and one recipient -/
def route (N : Norm) : (n : Nat) → Loaded n → Str → Str → Out
  | 0, c => routeF N (fun e _ _ => nomatch e) c
  | n + 1, c => routeF N (route N n) c

/-- `Start` alone (the reply to MAIL FROM) -/
def mailRefusal (N : Norm) : (n : Nat) → Loaded n → Str → Option Refusal
  | 0, c, s => match start N c s with | .error e => some e | .ok _ => none
  | _ + 1, c, s => match start N c s with | .error e => some e | .ok _ => none

end MaddyVerif.Routing
