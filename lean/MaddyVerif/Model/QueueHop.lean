import MaddyVerif.Model.Queue
/-
Model of one delivery attempt of the three forwarding targets the queue is deployed on, against a
next hop that misbehaves in the middle of a session, and of the queue's life on top of them.

Mirrored Go code (as it is after the `fix:` commits):
* `internal/target/remote/remote.go`: `remoteDelivery.AddRcpt` (one connection per recipient
  domain, opened lazily by `connectionForDomain` = connect + `MAIL`; a failed `MAIL` leaves no
  connection behind, a failed `RCPT` keeps the connection in `rd.connections`),
  `BodyNonAtomic` (`DATA` on every connection of the map, one status per `conn.Rcpts()`),
  `Commit`/`Abort` = `Close` (errors of `RSET`/`QUIT` are logged, never returned);
* `internal/target/smtp/smtp_downstream.go`: `Downstream.Start` (connect + `MAIL`), `AddRcpt`,
  `Body` (target.smtp), `BodyNonAtomic` (target.lmtp: one status per reply, the I/O error for
  the recipients left without a reply), `Commit` = `smtpconn.C.Close` (returns nil whatever `QUIT`
  does), `Abort` = `smtpconn.C.Close`;
* `internal/smtpconn/smtpconn.go`: `C.Rcpt` (local 553 for an unconvertible address before anything
  is sent; `rcpts` grows only on 250), `C.Data` / `C.LMTPData` (header, then `io.Copy` of the body
  reader, then the final dot: a failing reader ends them before the final dot), `C.Close` (a
  connection left in the middle of the message data is dropped, never sent another command).

The spooled body is an input of the attempt as well: `bodyOpenF` = `buffer.Buffer.Open` fails (all
three targets open the body before the `DATA` command; target.remote once per connection),
`bodyReadF` = the reader fails before EOF (after any number of octets, also after the last one).
Either way the final dot is never sent, the hop acknowledges nothing, every accepted recipient gets
the unclassified I/O error.

The next hop (harness `vc01hop`) is scripted per attempt.  A `Fault` is what the client sees for
the command that hit it (`cls`) and whether the session is unusable afterwards (`dies`: 421 and
close, connection closed or reset without an answer, silence until the time-out).  Every command
on a dead session fails with an I/O error (retryable).  The hop's ground truth is the list of
recipients of the transactions it acknowledged with 250 after the final dot (`acked`).

Core Lean only.
-/
namespace MaddyVerif.QueueHop
open MaddyVerif.Queue

/-- Class of a failure (never success). -/
inductive FCls | temp | perm | unspec
deriving DecidableEq, Repr, Inhabited

def FCls.toCls : FCls → Cls
  | .temp => .temp
  | .perm => .perm
  | .unspec => .unspec

def optCls : Option FCls → Cls
  | none => .ok
  | some f => f.toCls

structure Fault where
  cls  : FCls
  dies : Bool
deriving Repr, Inhabited

inductive TKind | remote | smtp | lmtp
deriving DecidableEq, Repr

def TKind.kind : TKind → Kind
  | .smtp => .atomic
  | _ => .partialD

/-- Behaviour of the next hop(s) during one attempt. -/
structure Script where
  mailN    : Nat              -- the first `mailN` MAIL commands (per hop) are answered with `mailF`
  mailF    : Fault
  limit    : Option Nat       -- per-transaction recipient limit
  limF     : Fault            -- what RCPT gets once `limit` recipients were accepted
  rej      : Addr → Option FCls   -- per-recipient answer to RCPT (450 / 550)
  dataCmd  : Option FCls      -- answer to the DATA command itself (instead of 354)
  dataEnd  : Option Fault     -- answer after the final dot (SMTP)
  lmtpSt   : Addr → Option FCls   -- LMTP per-recipient answer after the final dot
  lmtpDrop : Option Nat       -- LMTP: number of answers sent before the connection is dropped
  bodyOpenF : Bool := false   -- the spooled body cannot be opened in this attempt
  bodyReadF : Bool := false   -- the body reader fails before EOF in this attempt

/-- One client connection (`smtpconn.C`) as the target sees it. -/
structure Sess where
  alive : Bool
  acc   : List Addr           -- `C.Rcpts()`: accepted in this transaction, in order
deriving Repr

/-- What a target holds for one next hop: the number of MAIL commands sent to it in this attempt
and the connection kept for the transaction (`rd.connections[domain]` / `delivery.conn`). -/
structure DState where
  mails : Nat
  sess  : Option Sess
deriving Repr

def limitHit (s : Script) (c : Sess) : Bool :=
  match s.limit with
  | some k => decide (k ≤ c.acc.length)
  | none => false

/-- `smtpconn.C.Rcpt` on an open transaction. `lr r` = the address cannot be sent to this hop
(non-ASCII local part without SMTPUTF8): refused locally with 553, nothing is sent. -/
def rcptOn (s : Script) (lr : Addr → Bool) (c : Sess) (r : Addr) : Cls × Sess :=
  if lr r then (.perm, c)
  else if !c.alive then (.unspec, c)
  else if limitHit s c then (s.limF.cls.toCls, { c with alive := !s.limF.dies })
  else match s.rej r with
    | some f => (f.toCls, c)
    | none => (.ok, { c with acc := c.acc ++ [r] })

/-- `AddRcpt` for a recipient of this hop. -/
def stepRcpt (s : Script) (lr : Addr → Bool) (st : DState) (r : Addr) : Cls × DState :=
  match st.sess with
  | some c =>
    let (cl, c') := rcptOn s lr c r
    (cl, { st with sess := some c' })
  | none =>
    -- `connectionForDomain`: new connection, MAIL; on failure nothing is kept
    if st.mails < s.mailN then (s.mailF.cls.toCls, { st with mails := st.mails + 1 })
    else
      let (cl, c') := rcptOn s lr ⟨true, []⟩ r
      (cl, { mails := st.mails + 1, sess := some c' })

/-- The RCPT phase of one hop: results in order and the final state. -/
def rcptPhase (s : Script) (lr : Addr → Bool) : DState → List Addr → DState × List (Addr × Cls)
  | st, [] => (st, [])
  | st, r :: rest =>
    let (cl, st') := stepRcpt s lr st r
    let (stF, res) := rcptPhase s lr st' rest
    (stF, (r, cl) :: res)

def lookupCls (l : List (Addr × Cls)) (r : Addr) : Cls :=
  match l.find? (fun p => p.1 == r) with
  | some p => p.2
  | none => .ok

/-- LMTP replies after the final dot: `n` = replies still to be sent before the drop
(`none` = no drop).  Returns the status of every accepted recipient and the acknowledged ones. -/
def lmtpWalk (s : Script) : Option Nat → List Addr → List (Addr × Cls) × List Addr
  | _, [] => ([], [])
  | some 0, r :: rest =>
    let (st, ak) := lmtpWalk s (some 0) rest
    ((r, .unspec) :: st, ak)
  | n, r :: rest =>
    let (st, ak) := lmtpWalk s (n.map (· - 1)) rest
    match s.lmtpSt r with
    | none => ((r, .ok) :: st, r :: ak)
    | some f => ((r, f.toCls) :: st, ak)

/-- Result of DATA on a connection for the whole transaction (SMTP). -/
def dataCls (s : Script) (c : Sess) : Cls :=
  if s.bodyOpenF || !c.alive then .unspec
  else match s.dataCmd with
    | some f => f.toCls
    | none =>
      if s.bodyReadF then .unspec
      else match s.dataEnd with
        | some f => f.cls.toCls
        | none => .ok

/-- The DATA phase on one connection: status per accepted recipient, acknowledged recipients. -/
def dataPhase (tk : TKind) (s : Script) (c : Sess) : List (Addr × Cls) × List Addr :=
  match tk with
  | .lmtp =>
    if s.bodyOpenF || !c.alive then (c.acc.map (fun r => (r, Cls.unspec)), [])
    else match s.dataCmd with
      | some f => (c.acc.map (fun r => (r, f.toCls)), [])
      | none =>
        if s.bodyReadF then (c.acc.map (fun r => (r, Cls.unspec)), [])
        else lmtpWalk s s.lmtpDrop c.acc
  | _ =>
    let cl := dataCls s c
    (c.acc.map (fun r => (r, cl)), if cl.isOk then c.acc else [])

def sessOf (st : DState) : Sess := st.sess.getD ⟨true, []⟩

/-- Initial state of a hop in an attempt. target.remote connects lazily; target.smtp/lmtp
connect and send MAIL in `Start`. -/
def initState : TKind → DState
  | .remote => ⟨0, none⟩
  | _ => ⟨1, some ⟨true, []⟩⟩

/-- One attempt against hop `d`: the recipients routed to it, in queue order. -/
def hopRun (tk : TKind) (s : Script) (lr : Addr → Bool) (dom : Addr → Nat) (to : List Addr) (d : Nat) :
    DState × List (Addr × Cls) :=
  rcptPhase s lr (initState tk) (to.filter (fun r => dom r == d))

def hopAcked (tk : TKind) (s : Script) (lr : Addr → Bool) (dom : Addr → Nat) (to : List Addr) (d : Nat) :
    List Addr :=
  (dataPhase tk s (sessOf (hopRun tk s lr dom to d).1)).2

/-- `Start` of target.smtp / target.lmtp fails when MAIL does. -/
def startCls (tk : TKind) (s : Script) : Cls :=
  match tk with
  | .remote => .ok
  | _ => if 0 < s.mailN then s.mailF.cls.toCls else .ok

/-- The attempt as the queue sees it: a fault plan in the sense of `Model/Queue.lean`. -/
def hopPlan (tk : TKind) (s : Script) (lr : Addr → Bool) (dom : Addr → Nat) (to : List Addr) : Plan :=
  { start := startCls tk s
    rcpt := fun r => lookupCls (hopRun tk s lr dom to (dom r)).2 r
    body := dataCls s (sessOf (hopRun tk s lr dom to 0).1)
    bodyRc := fun r => lookupCls (dataPhase tk s (sessOf (hopRun tk s lr dom to (dom r)).1)).1 r
    commit := .ok }

/-- Ground truth of the attempt: everything the `nd` next hops acknowledged. -/
def attemptAcked (tk : TKind) (s : Script) (lr : Addr → Bool) (dom : Addr → Nat) (nd : Nat)
    (to : List Addr) : List Addr :=
  if (startCls tk s).isOk then (List.range nd).flatMap (hopAcked tk s lr dom to) else []

/-- The queue's life of one message on top of a forwarding target; attempt `i` meets `scripts i`.
Events as in `Queue.run`; the second component is the hops' ground truth. -/
def runHop (maxTries : Nat) (tk : TKind) (dsn : Bool) (scripts : Nat → Script) (lr : Addr → Bool)
    (dom : Addr → Nat) (nd : Nat) : Nat → Nat → Meta → List Ev × List Addr
  | 0, _, _ => ([], [])
  | fuel + 1, i, m =>
    let ak := attemptAcked tk (scripts i) lr dom nd m.to
    match tryDelivery maxTries tk.kind dsn (hopPlan tk (scripts i) lr dom m.to) m with
    | (none, evs) => (evs, ak)
    | (some m', evs) =>
      let rest := runHop maxTries tk dsn scripts lr dom nd fuel (i + 1) m'
      (evs ++ rest.1, ak ++ rest.2)

end MaddyVerif.QueueHop
