/-
Model of password authentication (property C14).  Core Lean only.

Mirrored Go code (tree after the `fix:` commit recorded in notes/C14.md):
* `internal/auth/pass_table/table.go`: `Auth.AuthPlain`, `CreateUserHash`, `SetUserPassword`,
  `DeleteUser`  (`tableAuthPlain`, `createUserHash`, `setUserPassword`, `deleteUser`);
* `internal/auth/pass_table/hash.go`: `HashCompute` / `HashVerify` (`hashable`, `pwEq` — symbolic:
  a stored row is `(scheme, password it was computed from)`, see below);
* `internal/auth/sasl.go`: `SASLAuth.usernameForAuth`, `SASLAuth.AuthPlain` (one provider),
  the PLAIN and LOGIN closures of `CreateSASL` (`usernameForAuth`, `saslAuthPlain`, `plain`, `login`);
* `internal/auth/sasllogin/sasllogin.go`: `loginServer.Next` (`LoginSrv.next`, `loginExchange`, `loginVia`): the
  responses are handed to the closure unchanged;
* `internal/authz/normalization.go`: `NormalizeAuto`, the table `NormalizeFuncs` (`normalizeAuto`, `normalizeFunc`,
  `Cfg.ofConfig`) over the library primitives `NormPrims`;
* overlapping logins: `Auth.AuthPlain` is two steps — the row is read (`table.Lookup`), later the hash
  verification of the row that was read returns (`Ev.fetch` / `Ev.finish`, `evStep`);
* `internal/endpoint/smtp/session.go`: `Session.Auth` (success callback), `Session.Mail` (gate) together with
  the command sequencing of go-smtp's `Conn` (`handleGreet/handleAuth/handleMail/handleRcpt/handleData/reset`)
  (`connStep`); `Endpoint.NewSession`: the early checks are run by the greeting that creates the session, a failure
  means no session (`Cmd.ehlo v`).

External behaviour is a parameter:
* `Cfg.norm`  = `precis.UsernameCaseMapped.CompareKey` (`none` = error),
* `Cfg.anorm` = `SASLAuth.AuthNormalize` (`none` = nil func), `Cfg.amap` = `SASLAuth.AuthMap.Lookup`
  (`none` = nil table; inner `none` = key not found),
* the hash functions are symbolic: verifying `p` against a row computed from `q` under scheme `s`
  succeeds iff `pwEq s p q`.  For argon2 / salted sha256 this is byte equality (collision freedom is
  assumed, not proved).  For bcrypt it is equality of the Blowfish key material: x/crypto/bcrypt appends
  a NUL byte to the password and `blowfish.ExpandKey` consumes the key cyclically for 18 words = 72
  bytes (`bcryptKey`); `GenerateFromPassword` refuses passwords longer than 72 bytes (`hashable`).

Names are lists of code points, passwords lists of bytes.
-/
namespace MaddyVerif.Auth

abbrev Name := List Nat
abbrev Pw := List Nat

inductive Scheme | bcrypt | argon2 | sha256
deriving DecidableEq, Repr

/-- first `n` bytes of the endless repetition of `k` (`blowfish.ExpandKey`'s `j` index). -/
def cyclic (k : List Nat) (n : Nat) : List Nat :=
  (List.range n).map (fun i => k.getD (i % k.length) 0)

/-- key material bcrypt derives the hash from: `password ++ [0]`, cyclically, 72 bytes. -/
def bcryptKey (p : Pw) : List Nat := cyclic (p ++ [0]) 72

/-- `HashVerify[s](p, HashCompute[s](q)) == nil` (symbolic hash). -/
def pwEq (s : Scheme) (p q : Pw) : Bool :=
  match s with
  | .bcrypt => bcryptKey p == bcryptKey q
  | _ => p == q

/-- `HashCompute[s](opts, p)` succeeds. -/
def hashable (s : Scheme) (p : Pw) : Bool :=
  match s with
  | .bcrypt => decide (p.length ≤ 72)
  | _ => true

/-- The credentials table: normalised key ↦ "scheme:hash(q)". -/
abbrev Tbl := Name → Option (Scheme × Pw)

def Tbl.empty : Tbl := fun _ => none
def Tbl.set (t : Tbl) (k : Name) (v : Scheme × Pw) : Tbl := fun k' => if k' = k then some v else t k'
def Tbl.del (t : Tbl) (k : Name) : Tbl := fun k' => if k' = k then none else t k'

structure Cfg where
  norm : Name → Option Name
  anorm : Option (Name → Option Name)
  amap : Option (Name → Option Name)
  loginEnabled : Bool

inductive MgmtRes | ok | errAlgo | errName | errExists | errHash
deriving DecidableEq, Repr

/-- `Auth.CreateUserHash(username, password, hashAlgo, opts)`; `s = none`: algorithm not in `HashCompute`. -/
def createUserHash (c : Cfg) (t : Tbl) (u : Name) (p : Pw) (s : Option Scheme) : Tbl × MgmtRes :=
  match s with
  | none => (t, .errAlgo)
  | some s =>
    match c.norm u with
    | none => (t, .errName)
    | some k =>
      match t k with
      | some _ => (t, .errExists)
      | none => if hashable s p then (t.set k (s, p), .ok) else (t, .errHash)

/-- `Auth.SetUserPassword`: always bcrypt; no existence check (the row is written unconditionally). -/
def setUserPassword (c : Cfg) (t : Tbl) (u : Name) (p : Pw) : Tbl × MgmtRes :=
  match c.norm u with
  | none => (t, .errName)
  | some k => if hashable .bcrypt p then (t.set k (.bcrypt, p), .ok) else (t, .errHash)

/-- `Auth.DeleteUser`. -/
def deleteUser (c : Cfg) (t : Tbl) (u : Name) : Tbl × MgmtRes :=
  match c.norm u with
  | none => (t, .errName)
  | some k => (t.del k, .ok)

/-- `pass_table.Auth.AuthPlain(username, password) == nil`. -/
def tableAuthPlain (c : Cfg) (t : Tbl) (u : Name) (p : Pw) : Bool :=
  match c.norm u with
  | none => false
  | some k =>
    match t k with
    | none => false
    | some (s, q) => pwEq s p q

/-- `SASLAuth.usernameForAuth` (`none` = any error). -/
def usernameForAuth (c : Cfg) (u : Name) : Option Name :=
  let n := match c.anorm with
    | none => some u
    | some f => f u
  match n with
  | none => none
  | some n =>
    match c.amap with
    | none => some n
    | some m => m n

/-- `SASLAuth.AuthPlain(username, password) == nil` with a single provider (the credentials table). -/
def saslAuthPlain (c : Cfg) (t : Tbl) (u : Name) (p : Pw) : Bool :=
  match usernameForAuth c u with
  | none => false
  | some m => tableAuthPlain c t m p

inductive AuthRes
  | ok (identity : Name)   -- success callback invoked with this identity
  | fail                    -- `ErrInvalidAuthCred`
  | unsupported             -- `ErrUnsupportedMech`
deriving DecidableEq, Repr

/-- PLAIN closure of `CreateSASL`. -/
def plain (c : Cfg) (t : Tbl) (authzid u : Name) (p : Pw) : AuthRes :=
  let identity := if authzid = [] then u else authzid
  if identity ≠ u then .fail
  else if saslAuthPlain c t u p then .ok identity else .fail

/-- LOGIN closure of `CreateSASL`. -/
def login (c : Cfg) (t : Tbl) (u : Name) (p : Pw) : AuthRes :=
  if !c.loginEnabled then .unsupported
  else if saslAuthPlain c t u p then .ok u else .fail

/-! ### the LOGIN server (`internal/auth/sasllogin/sasllogin.go`): what the LOGIN closure is called with

`loginServer.Next` keeps the first response as the user name and hands it, with the second response as the password,
to the authenticator — the byte slices are converted with `string(response)` and nothing else is done to them.
`none` is Go's nil response (an exchange that starts without an initial response). -/

inductive LoginState | notStarted | waitingUsername | waitingPassword | finished
deriving DecidableEq, Repr

structure LoginSrv where
  state : LoginState := .notStarted
  username : Name := []
deriving DecidableEq, Repr

inductive LoginStep
  | challenge                          -- "Username:" / "Password:", done = false
  | authenticate (u : Name) (p : Pw)   -- done = true: the authenticator is called with exactly these
  | unexpected                         -- sasl.ErrUnexpectedClientResponse
deriving DecidableEq, Repr

def LoginSrv.next (a : LoginSrv) (resp : Option (List Nat)) : LoginSrv × LoginStep :=
  match a.state, resp with
  | .notStarted, none => ({ a with state := .waitingUsername }, .challenge)
  | .notStarted, some r => ({ state := .waitingPassword, username := r }, .challenge)   -- `fallthrough`
  | .waitingUsername, r => ({ state := .waitingPassword, username := r.getD [] }, .challenge)
  | .waitingPassword, r => ({ a with state := .finished }, .authenticate a.username (r.getD []))
  | .finished, _ => (a, .unexpected)

/-- the exchange as the SMTP/IMAP server drives it (`Next` per response until done or error): the credentials the
authenticator is called with, if it is called -/
def loginExchangeFrom (a : LoginSrv) : List (Option (List Nat)) → Option (Name × Pw)
  | [] => none
  | r :: rest =>
    match a.next r with
    | (_, .authenticate u p) => some (u, p)
    | (a', .challenge) => loginExchangeFrom a' rest
    | (_, .unexpected) => none

def loginExchange : List (Option (List Nat)) → Option (Name × Pw) := loginExchangeFrom {}

/-- LOGIN through the server: `CreateSASL(sasl.Login, …)` and the client's responses `u`, `p` with (`ir`) or without
an initial response. -/
def loginVia (c : Cfg) (t : Tbl) (ir : Bool) (u : Name) (p : Pw) : AuthRes :=
  if !c.loginEnabled then .unsupported      -- FailingSASLServ
  else match loginExchange (if ir then [some u, some p] else [none, some u, some p]) with
    | some (u', p') => if saslAuthPlain c t u' p' then .ok u' else .fail
    | none => .fail

/-! ### histories -/

inductive Op
  | create (u : Name) (p : Pw) (s : Option Scheme)
  | setPw (u : Name) (p : Pw)
  | delete (u : Name)
  | plain (authzid u : Name) (p : Pw)
  | login (u : Name) (p : Pw)
  | direct (u : Name) (p : Pw)        -- pass_table.Auth.AuthPlain called directly
deriving Repr

inductive Out
  | mgmt (r : MgmtRes)
  | auth (r : AuthRes)
  | direct (ok : Bool)
deriving DecidableEq, Repr

def step (c : Cfg) (t : Tbl) : Op → Tbl × Out
  | .create u p s => let r := createUserHash c t u p s; (r.1, .mgmt r.2)
  | .setPw u p => let r := setUserPassword c t u p; (r.1, .mgmt r.2)
  | .delete u => let r := deleteUser c t u; (r.1, .mgmt r.2)
  | .plain a u p => (t, .auth (plain c t a u p))
  | .login u p => (t, .auth (login c t u p))
  | .direct u p => (t, .direct (tableAuthPlain c t u p))

/-- outcomes of a history run from table `t`. -/
def run (c : Cfg) : Tbl → List Op → List Out
  | _, [] => []
  | t, op :: rest => (step c t op).2 :: run c (step c t op).1 rest

/-- the credentials table after a history (chronological order) starting from the empty table. -/
def tableAfter (c : Cfg) (h : List Op) : Tbl :=
  h.foldl (fun t op => (step c t op).1) Tbl.empty

/-! ### `auth_map_normalize`: `authz.NormalizeFuncs` and `NormalizeAuto` (internal/authz/normalization.go)

The library functions the table is built from are parameters (`NormPrims`); what is mirrored is WHICH of them
each configuration value applies — in particular that `auto` on a name that is not an e-mail address and
`precis_casefold` apply the very function `pass_table` derives its keys with (`ucm`). -/

structure NormPrims where
  ucm : Name → Option Name          -- precis.UsernameCaseMapped.CompareKey (`none` = error); also pass_table's key function
  ucp : Name → Option Name          -- precis.UsernameCasePreserved.CompareKey
  emailFold : Name → Option Name    -- address.PRECISFold
  emailPres : Name → Option Name    -- address.PRECIS
  lower : Name → Name               -- strings.ToLower
  validEmail : Name → Bool          -- address.Valid

/-- the keys of `authz.NormalizeFuncs`. -/
inductive NormKind
  | auto | precisCasefoldEmail | precisCasefold | precisEmail | precis | casefold | noop
deriving DecidableEq, Repr

/-- `authz.NormalizeAuto`. -/
def normalizeAuto (P : NormPrims) (u : Name) : Option Name :=
  if P.validEmail u then P.emailFold u else P.ucm u

/-- `authz.NormalizeFuncs[kind]`. -/
def normalizeFunc (P : NormPrims) : NormKind → Name → Option Name
  | .auto => normalizeAuto P
  | .precisCasefoldEmail => P.emailFold
  | .precisCasefold => P.ucm
  | .precisEmail => P.emailPres
  | .precis => P.ucp
  | .casefold => fun u => some (P.lower u)
  | .noop => some

/-- the configuration of one endpoint: `auth_map_normalize` (`none`: the field is nil, as in a hand-built `SASLAuth`),
`auth_map`, LOGIN on/off, over the credentials table keyed by `ucm`. -/
def Cfg.ofConfig (P : NormPrims) (an : Option NormKind) (amap : Option (Name → Option Name)) (login : Bool) : Cfg :=
  { norm := P.ucm, anorm := an.map (normalizeFunc P), amap := amap, loginEnabled := login }

/-! ### overlapping logins

`pass_table.Auth.AuthPlain` reads the row of the account (`table.Lookup`) and then verifies the supplied password
against the row it has read; nothing is shared between two calls.  A login is therefore two events: `fetch i o`
(everything up to and including the read: the outcome is already determined, since the verification is a pure
function of the supplied password and the row) and `finish i` (the verification returns and the verdict is
reported).  Management operations and non-overlapping logins are atomic (`Ev.op`).  `Ev.yield` has no effect in
the model (the harness uses it to let pending verifications run in parallel). -/

inductive Ev
  | op (o : Op)
  | fetch (i : Nat) (o : Op)     -- `o` is a login (`plain`/`login`/`direct`)
  | finish (i : Nat)
  | yield
deriving Repr

inductive EvOut
  | out (o : Out)
  | begun          -- answer to `fetch` / `yield`: nothing is reported yet
  | noLogin        -- `finish` of a login that is not pending
deriving DecidableEq, Repr

structure ConcState where
  tbl : Tbl
  pending : List (Nat × Out) := []

def pendGet (i : Nat) : List (Nat × Out) → Option Out
  | [] => none
  | (j, r) :: rest => if j = i then some r else pendGet i rest

def pendDrop (i : Nat) : List (Nat × Out) → List (Nat × Out)
  | [] => []
  | (j, r) :: rest => if j = i then pendDrop i rest else (j, r) :: pendDrop i rest

def evStep (c : Cfg) (s : ConcState) : Ev → ConcState × EvOut
  | .op o => ({ s with tbl := (step c s.tbl o).1 }, .out (step c s.tbl o).2)
  | .fetch i o => ({ s with pending := (i, (step c s.tbl o).2) :: s.pending }, .begun)
  | .finish i =>
    match pendGet i s.pending with
    | some r => ({ s with pending := pendDrop i s.pending }, .out r)
    | none => (s, .noLogin)
  | .yield => (s, .begun)

def runEv (c : Cfg) : ConcState → List Ev → List EvOut
  | _, [] => []
  | s, e :: rest => (evStep c s e).2 :: runEv c (evStep c s e).1 rest

def stateAfterEv (c : Cfg) (s : ConcState) (evs : List Ev) : ConcState :=
  evs.foldl (fun s e => (evStep c s e).1) s

/-- the atomic operations of a schedule, in order (the only events that can write the table). -/
def mgmtOf : List Ev → List Op
  | [] => []
  | .op o :: rest => o :: mgmtOf rest
  | _ :: rest => mgmtOf rest

/-! ### stored hashes with their parameters (`hash.go`: `HashOpts`, `computeBcrypt/Argon2/SHA256`, `verifyBcrypt/Argon2/SHA256`)

A stored row is `<scheme>:<parameters>:<salt>:<key>` where `key = KDF_scheme(parameters, salt, password)`:
bcrypt `$2a$<cost>$<salt><key>`, argon2 `<time>:<memory>:<threads>:<salt>:<key>` (argon2id, 64 bytes), sha256 `<salt>:<key>`.
The key derivation functions stay symbolic: the key is represented by the inputs it was derived from (`KdfIn`), and two
derivations give the same key iff ALL their inputs agree (`sameKey`: collision freedom in every input, for bcrypt modulo
its 72-byte key rule).  What is mirrored is which inputs `HashCompute` uses (the `HashOpts` of the call, a fresh salt)
and which inputs `HashVerify` uses: every one of them is read from the stored row, none from the options of the
running process or from its environment (`procs` = `runtime.GOMAXPROCS(0)` is an argument of `hashVerify` only so
that this can be stated). -/

/-- `pass_table.HashOpts`. -/
structure HashOpts where
  bcryptCost : Nat := 4
  argonTime : Nat := 1
  argonMemory : Nat := 8
  argonThreads : Nat := 1
deriving DecidableEq, Repr

/-- the parameters written into the hash string: bcrypt `[cost]`, argon2 `[time, memory, threads]`, sha256 `[]`. -/
abbrev Params := List Nat

/-- the inputs of one key derivation. -/
structure KdfIn where
  params : Params
  salt : List Nat
  pw : Pw
deriving DecidableEq, Repr

/-- two key derivations under scheme `s` give the same key. -/
def sameKey (s : Scheme) (a b : KdfIn) : Bool :=
  a.params == b.params && a.salt == b.salt && pwEq s a.pw b.pw

/-- a stored row; its key is `KDF_scheme(params, salt, pw)`. -/
structure Stored where
  scheme : Scheme
  params : Params
  salt : List Nat
  pw : Pw
deriving DecidableEq, Repr

/-- the derivation the stored key came from. -/
def Stored.keyOf (st : Stored) : KdfIn := ⟨st.params, st.salt, st.pw⟩

inductive HashRes
  | ok (st : Stored)
  | err        -- HashCompute returns an error
  | panic      -- argon2.IDKey panics ("number of rounds too small" / "parallelism degree too low")
deriving DecidableEq, Repr

/-- `bcrypt.newFromPassword`: a cost below `MinCost` (4) becomes `DefaultCost` (10). -/
def bcryptEffCost (cost : Nat) : Nat := if cost < 4 then 10 else cost

/-- `HashCompute[s](opts, p)` with the salt drawn by the call. -/
def hashCompute (s : Scheme) (o : HashOpts) (salt : List Nat) (p : Pw) : HashRes :=
  match s with
  | .bcrypt =>
    if p.length > 72 then .err                       -- bcrypt.ErrPasswordTooLong
    else if bcryptEffCost o.bcryptCost > 31 then .err  -- bcrypt.InvalidCostError
    else .ok ⟨.bcrypt, [bcryptEffCost o.bcryptCost], salt, p⟩
  | .argon2 =>
    if o.argonTime = 0 ∨ o.argonThreads = 0 then .panic
    else .ok ⟨.argon2, [o.argonTime, o.argonMemory, o.argonThreads], salt, p⟩
  | .sha256 => .ok ⟨.sha256, [], salt, p⟩

/-- `HashVerify[st.scheme](p, row) == nil` in a process with `runtime.GOMAXPROCS(0) = procs`: the key is derived again
from the supplied password with the parameters and the salt READ FROM THE ROW and compared with the stored key. -/
def hashVerify (_procs : Nat) (p : Pw) (st : Stored) : Bool :=
  sameKey st.scheme ⟨st.params, st.salt, p⟩ st.keyOf

/-- the credentials table with full rows. -/
abbrev CTbl := Name → Option Stored

def CTbl.empty : CTbl := fun _ => none
def CTbl.set (t : CTbl) (k : Name) (v : Stored) : CTbl := fun k' => if k' = k then some v else t k'
def CTbl.del (t : CTbl) (k : Name) : CTbl := fun k' => if k' = k then none else t k'

/-- what the abstract table remembers of a row. -/
def Stored.abs (st : Stored) : Scheme × Pw := (st.scheme, st.pw)
def CTbl.abs (t : CTbl) : Tbl := fun k => (t k).map Stored.abs

inductive COut
  | out (o : Out)
  | panic
deriving DecidableEq, Repr

/-- operations with everything that determines the stored row. -/
inductive COp
  | create (u : Name) (p : Pw) (s : Option Scheme) (o : HashOpts) (salt : List Nat)   -- CreateUserHash(u, p, s, o)
  | setPw (u : Name) (p : Pw) (salt : List Nat)                                        -- SetUserPassword: bcrypt, DefaultCost
  | put (u : Name) (p : Pw) (s : Scheme) (o : HashOpts) (salt : List Nat)
      -- a row computed by another implementation of the documented format is written for account `u` (SetKey)
  | delete (u : Name)
  | plain (authzid u : Name) (p : Pw)
  | login (u : Name) (p : Pw)
  | direct (u : Name) (p : Pw)
deriving Repr

/-- `pass_table.Auth.AuthPlain` on full rows. -/
def ctableAuthPlain (c : Cfg) (procs : Nat) (t : CTbl) (u : Name) (p : Pw) : Bool :=
  match c.norm u with
  | none => false
  | some k =>
    match t k with
    | none => false
    | some st => hashVerify procs p st

def csaslAuthPlain (c : Cfg) (procs : Nat) (t : CTbl) (u : Name) (p : Pw) : Bool :=
  match usernameForAuth c u with
  | none => false
  | some m => ctableAuthPlain c procs t m p

def cplain (c : Cfg) (procs : Nat) (t : CTbl) (authzid u : Name) (p : Pw) : AuthRes :=
  let identity := if authzid = [] then u else authzid
  if identity ≠ u then .fail
  else if csaslAuthPlain c procs t u p then .ok identity else .fail

def clogin (c : Cfg) (procs : Nat) (t : CTbl) (u : Name) (p : Pw) : AuthRes :=
  if !c.loginEnabled then .unsupported
  else if csaslAuthPlain c procs t u p then .ok u else .fail

def cstep (c : Cfg) (procs : Nat) (t : CTbl) : COp → CTbl × COut
  | .create u p s o salt =>
    match s with
    | none => (t, .out (.mgmt .errAlgo))
    | some s =>
      match c.norm u with
      | none => (t, .out (.mgmt .errName))
      | some k =>
        match t k with
        | some _ => (t, .out (.mgmt .errExists))
        | none =>
          match hashCompute s o salt p with
          | .ok st => (t.set k st, .out (.mgmt .ok))
          | .err => (t, .out (.mgmt .errHash))
          | .panic => (t, .panic)
  | .setPw u p salt =>
    match c.norm u with
    | none => (t, .out (.mgmt .errName))
    | some k =>
      match hashCompute .bcrypt { bcryptCost := 10 } salt p with
      | .ok st => (t.set k st, .out (.mgmt .ok))
      | _ => (t, .out (.mgmt .errHash))
  | .put u p s o salt =>
    match hashCompute s o salt p with
    | .ok st =>
      match c.norm u with
      | none => (t, .out (.mgmt .errName))
      | some k => (t.set k st, .out (.mgmt .ok))
    | .err => (t, .out (.mgmt .errHash))
    | .panic => (t, .panic)
  | .delete u =>
    match c.norm u with
    | none => (t, .out (.mgmt .errName))
    | some k => (t.del k, .out (.mgmt .ok))
  | .plain a u p => (t, .out (.auth (cplain c procs t a u p)))
  | .login u p => (t, .out (.auth (clogin c procs t u p)))
  | .direct u p => (t, .out (.direct (ctableAuthPlain c procs t u p)))

/-- the abstract operations a concrete one stands for, as far as the table is concerned (a panicking or refused
`HashCompute` writes nothing; a row written over whatever was there is a deletion followed by a creation). -/
def COp.forget : COp → List Op
  | .create u p s o salt =>
    match s with
    | none => [.create u p none]
    | some s =>
      match hashCompute s o salt p with
      | .ok _ => [.create u p (some s)]
      | _ => []
  | .setPw u p _ => [.setPw u p]
  | .put u p s o salt =>
    match hashCompute s o salt p with
    | .ok _ => [.delete u, .create u p (some s)]
    | _ => []
  | .delete u => [.delete u]
  | .plain a u p => [.plain a u p]
  | .login u p => [.login u p]
  | .direct u p => [.direct u p]

def crun (c : Cfg) (procs : Nat) : CTbl → List COp → List COut
  | _, [] => []
  | t, op :: rest => (cstep c procs t op).2 :: crun c procs (cstep c procs t op).1 rest

def ctableAfter (c : Cfg) (procs : Nat) (h : List COp) : CTbl :=
  h.foldl (fun t op => (cstep c procs t op).1) CTbl.empty

/-! overlapping logins over full rows (same two-step reading as `Ev`) -/

inductive CEv
  | op (o : COp)
  | fetch (i : Nat) (o : COp)
  | finish (i : Nat)
  | yield
deriving Repr

inductive CEvOut
  | out (o : COut)
  | begun
  | noLogin
deriving DecidableEq, Repr

structure CConcState where
  tbl : CTbl
  pending : List (Nat × COut) := []

def cpendGet (i : Nat) : List (Nat × COut) → Option COut
  | [] => none
  | (j, r) :: rest => if j = i then some r else cpendGet i rest

def cpendDrop (i : Nat) : List (Nat × COut) → List (Nat × COut)
  | [] => []
  | (j, r) :: rest => if j = i then cpendDrop i rest else (j, r) :: cpendDrop i rest

def cevStep (c : Cfg) (procs : Nat) (s : CConcState) : CEv → CConcState × CEvOut
  | .op o => ({ s with tbl := (cstep c procs s.tbl o).1 }, .out (cstep c procs s.tbl o).2)
  | .fetch i o => ({ s with pending := (i, (cstep c procs s.tbl o).2) :: s.pending }, .begun)
  | .finish i =>
    match cpendGet i s.pending with
    | some r => ({ s with pending := cpendDrop i s.pending }, .out r)
    | none => (s, .noLogin)
  | .yield => (s, .begun)

def crunEv (c : Cfg) (procs : Nat) : CConcState → List CEv → List CEvOut
  | _, [] => []
  | s, e :: rest => (cevStep c procs s e).2 :: crunEv c procs (cevStep c procs s e).1 rest

/-! ### submission gate: go-smtp `Conn` + maddy `Session` -/

structure Conn where
  helo : Bool := false          -- c.helo != ""
  didAuth : Bool := false       -- c.didAuth
  authUser : Name := []         -- connState.AuthUser of the CURRENT Session object
  fromReceived : Bool := false  -- c.fromReceived
  rcpts : Nat := 0              -- len(c.recipients)
deriving DecidableEq, Repr

/-- What the pipeline's early (connection-level) checks answer if they are run (`MsgPipeline.RunEarlyChecks`), as the
reply code `Endpoint.wrapErr` derives from the error: `none` = they pass. -/
abbrev EarlyVerdict := Option Nat

inductive Cmd
  | ehlo (v : EarlyVerdict)   -- EHLO/HELO; `v`: what the early checks answer IF this greeting makes `NewSession` run them
  | noop | rset | mail | rcpt | data
  | auth (r : AuthRes)   -- AUTH whose SASL exchange, if reached, ends with `r` (decided by the credential model)
deriving DecidableEq, Repr

/-- One SMTP command against an endpoint with `authAlwaysRequired = required`; reply code
(final reply for DATA, whose body is always well-formed and accepted by the pipeline). -/
def connStep (required : Bool) (s : Conn) : Cmd → Conn × Nat
  | .ehlo v =>
    -- handleGreet: NewSession hands back the session the connection already has (fix e064dc2) — the early checks are run only
    -- for the greeting that creates the session; when they fail there is no session, `c.helo` is cleared again and the
    -- reply is the error as wrapped by `wrapErr`. (`helo` = "the connection has its Session".)
    if s.helo then (s, 250)
    else match v with
      | none => ({ s with helo := true }, 250)
      | some code => (s, code)
  | .noop => (s, 250)
  | .rset => ({ s with fromReceived := false, rcpts := 0 }, 250)
  | .auth r =>
    if !s.helo then (s, 502)
    else if s.didAuth then (s, 503)
    else match r with
      | .ok identity => ({ s with didAuth := true, authUser := identity }, 235)
      | _ => (s, 454)
  | .mail =>
    if !s.helo then (s, 502)
    else if required && s.authUser = [] then (s, 502)             -- Session.Mail: smtp.ErrAuthRequired
    else if s.rcpts > 0 then (s, 503)                             -- Session.Mail: s.delivery != nil, "Nested MAIL command" (fix 621600d;
                                                                  -- with defer_sender_reject the delivery starts at the first RCPT)
    else ({ s with fromReceived := true }, 250)
  | .rcpt =>
    if !s.fromReceived then (s, 502)
    else ({ s with rcpts := s.rcpts + 1 }, 250)
  | .data =>
    if !s.fromReceived || s.rcpts == 0 then (s, 502)
    else ({ s with fromReceived := false, rcpts := 0 }, 250)

def connAfter (required : Bool) (cmds : List Cmd) : Conn :=
  cmds.foldl (fun s c => (connStep required s c).1) {}

def connRun (required : Bool) : Conn → List Cmd → List Nat
  | _, [] => []
  | s, c :: rest => (connStep required s c).2 :: connRun required (connStep required s c).1 rest

end MaddyVerif.Auth
