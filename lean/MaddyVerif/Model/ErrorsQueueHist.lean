import MaddyVerif.Model.Errors
/-
Model of what the queue keeps, and finally reports, for ONE recipient over a HISTORY of delivery
attempts (strengthening round 5):

* `internal/target/queue/queue.go: (*Queue).tryDelivery`  — the per-recipient part of the loop over
  `meta.To`: `meta.RcptErrs[rcpt] = toSMTPErr(rcptErr)` on EVERY failed attempt, the retry decision
  `!IsTemporaryOrUnspec(rcptErr) || TriesCount[rcpt]+1 >= maxTries`, `TriesCount[rcpt]++`;
* `(*Queue).deliver` — whatever stage of the transaction fails for the recipient (`Start`, `AddRcpt`,
  `Body`, a `BodyNonAtomic` status, `Commit`) the error lands in `partialErr.Errs[rcpt]` unchanged;
* `(*Queue).emitDSN` — `RecipientInfo{Action: failed, Status: RcptErrs[r].EnhancedCode,
  DiagnosticCode: RcptErrs[r]}`;
* `internal/dsn/dsn.go: RecipientInfo.WriteTo` — the `Status:` and `Diagnostic-Code:` fields, and
  `writeHumanReadablePart` ("failed with error: SMTP error <code>: <text>").

Round 9: the loop over ALL recipients of the message in one attempt (`attemptLoop`: `meta.To`,
`newRcpts`, `failedRcpts`, the maps `TriesCount` / `RcptErrs`), one report for the recipients given up
in that attempt (`attemptAll`), the attempts of a message with several recipients (`runMulti`).

Between two attempts the state lives in the `.meta` file only (`Meta: nil` in the re-queued slot), so a
restart between attempts is invisible: the model has no restart step, the harness plays restarts and
compares with the same model run.  Core Lean only (linked into the driver).
-/
namespace MaddyVerif.Errors

/-- what `tryDelivery` does with one recipient in one attempt -/
inductive Decision
  | delivered
  | retry
  | giveUp
deriving DecidableEq, Repr, Inhabited

/-- `QueueMetadata.TriesCount[r]` and `QueueMetadata.RcptErrs[r]` -/
structure RcptState where
  tries : Nat
  stored : Option Reply
deriving DecidableEq, Repr, Inhabited

def RcptState.init : RcptState := ⟨0, none⟩

/-- One attempt for one recipient; `none` = the target accepted it.  The stored error is overwritten
by the conversion of THIS attempt's error whatever was stored before. -/
def attemptStep (maxTries : Nat) (s : RcptState) : Option Err → RcptState × Decision
  | none => (s, .delivered)
  | some e =>
    if !isTemporaryOrUnspec e || s.tries + 1 ≥ maxTries then
      (⟨0, some (toSMTPErr e)⟩, .giveUp)              -- delete(meta.TriesCount, rcpt)
    else
      (⟨s.tries + 1, some (toSMTPErr e)⟩, .retry)

/-- `partialError.SetStatus` over the statuses a partial-delivery target reports for ONE recipient
within one attempt, in order (`none` = a success status: ignored): `Errs[rcpt]` is overwritten every
time, nothing else is kept — `tryDelivery` classifies and records the entry that is left. -/
def setStatuses : Option Err → List (Option Err) → Option Err
  | cur, [] => cur
  | cur, none :: r => setStatuses cur r
  | _, some e :: r => setStatuses (some e) r

def lastStatus (sts : List (Option Err)) : Option Err := setStatuses none sts

/-- "Internal server error" -/
def genericText : List Nat :=
  [73, 110, 116, 101, 114, 110, 97, 108, 32, 115, 101, 114, 118, 101, 114, 32, 101, 114, 114, 111, 114]
/-- "High load, try again later" -/
def highLoadText : List Nat :=
  [72, 105, 103, 104, 32, 108, 111, 97, 100, 44, 32, 116, 114, 121, 32, 97, 103, 97, 105, 110, 32, 108, 97, 116, 101, 114]

def msgText : Msg → List Nat
  | .generic => genericText
  | .highLoad => highLoadText
  | .text cps => cps

/-- text of a `Diagnostic-Code`: CR and LF become spaces; in a report about a message that is not
an SMTPUTF8 one every non-ASCII character becomes `?` -/
def diagText (utf8 : Bool) (cps : List Nat) : List Nat :=
  let t := cps.map (fun ch => if ch == 10 || ch == 13 then 32 else ch)
  if utf8 then t else mangle t

/-- the per-recipient part of a failure report, as far as it shows codes -/
structure ReportLine where
  status    : Ench        -- `Status:`
  diagCode  : Nat         -- `Diagnostic-Code: smtp; <code> <a.b.c> <text>`
  diagEnch  : Ench
  diagMsg   : List Nat
  humanCode : Nat         -- "failed with error: SMTP error <code>" of the human-readable part
deriving DecidableEq, Repr, Inhabited

/-- `RecipientInfo.WriteTo` on what `emitDSN` hands over for a stored error; `none` = "dsn: Status
is required" (the whole report is then not generated). -/
def reportLine (utf8 : Bool) (r : Reply) : Option ReportLine :=
  match r.ench with
  | none => none
  | some en =>
    if en.cls == 0 then none
    else some ⟨en, r.code, en, diagText utf8 (msgText r.msg), r.code⟩

/-- one observation per attempt: the decision, the state kept afterwards, the report on giving up -/
structure Obs where
  dec    : Decision
  state  : RcptState
  report : Option ReportLine
deriving DecidableEq, Repr, Inhabited

/-- The attempts of one recipient, from state `s`, under a plan of per-attempt outcomes.  The
history ends with the first attempt that delivers or gives up (later planned outcomes never
happen), or when the plan is exhausted. -/
def runHist (maxTries : Nat) (utf8 : Bool) : RcptState → List (Option Err) → List Obs
  | _, [] => []
  | s, a :: rest =>
    match attemptStep maxTries s a with
    | (s', .retry) => ⟨.retry, s', none⟩ :: runHist maxTries utf8 s' rest
    | (s', .giveUp) => [⟨.giveUp, s', s'.stored.bind (reportLine utf8)⟩]
    | (s', .delivered) => [⟨.delivered, s', none⟩]

/-- `dsn.GenerateDSN` for a list of stored errors (one recipient group each): all lines, or no
report at all when one of them cannot be written. -/
def reportLines (utf8 : Bool) (rs : List Reply) : Option (List ReportLine) :=
  rs.mapM (reportLine utf8)

/-! ### one attempt for SEVERAL recipients (round 9): the loop over `meta.To` in `tryDelivery` -/

/-- `QueueMetadata.TriesCount` / `RcptErrs`: maps keyed by the recipient (a number here) -/
structure AttMeta where
  tries  : Nat → Nat
  stored : Nat → Option Reply

def AttMeta.init : AttMeta := ⟨fun _ => 0, fun _ => none⟩

def AttMeta.get (m : AttMeta) (r : Nat) : RcptState := ⟨m.tries r, m.stored r⟩

def AttMeta.set (m : AttMeta) (r : Nat) (s : RcptState) : AttMeta :=
  ⟨fun x => if x = r then s.tries else m.tries x, fun x => if x = r then s.stored else m.stored x⟩

/-- The loop `for _, rcpt := range meta.To` of `tryDelivery`: `errs` = `partialErr.Errs`, the
accumulators are `newRcpts` (retried) and `failedRcpts` (reported), both in envelope order.  Each
recipient is handled by `attemptStep` on ITS entry of the maps and ITS error. -/
def attemptLoop (maxTries : Nat) (errs : Nat → Option Err) :
    List Nat → AttMeta → List Nat → List Nat → AttMeta × List Nat × List Nat
  | [], m, new, failed => (m, new, failed)
  | r :: rest, m, new, failed =>
    match errs r with
    | none => attemptLoop maxTries errs rest m new failed
    | some e =>
      match attemptStep maxTries (m.get r) (some e) with
      | (s', .retry) => attemptLoop maxTries errs rest (m.set r s') (new ++ [r]) failed
      | (s', _) => attemptLoop maxTries errs rest (m.set r s') new (failed ++ [r])

/-- what is seen of one recipient after one attempt of the message -/
structure RcptObs where
  rcpt  : Nat
  dec   : Decision
  state : RcptState
  report : Option ReportLine
deriving DecidableEq, Repr, Inhabited

/-- One attempt of the message: the loop, then `emitDSN` for `failedRcpts` (ONE report for all of
them: all lines or none, `reportLines`).  Result: the observations in envelope order, the
recipients that stay, the maps. -/
def attemptAll (maxTries : Nat) (utf8 : Bool) (errs : Nat → Option Err) (to : List Nat) (m : AttMeta) :
    List RcptObs × List Nat × AttMeta :=
  let (m', new, failed) := attemptLoop maxTries errs to m [] []
  let lines := reportLines utf8 (failed.filterMap m'.stored)
  let lineOf (r : Nat) : Option ReportLine :=
    match lines with
    | none => none
    | some _ => (m'.stored r).bind (reportLine utf8)
  let obs := to.map fun r =>
    if new.contains r then (⟨r, .retry, m'.get r, none⟩ : RcptObs)
    else if failed.contains r then ⟨r, .giveUp, m'.get r, lineOf r⟩
    else ⟨r, .delivered, m'.get r, none⟩
  (obs, new, m')

/-- The attempts of a message with several recipients: `plans r` = the outcomes the target has for
recipient `r`, by attempt of the message (beyond the plan: accepted).  `fuel` bounds the number of
attempts played. -/
def runMulti (maxTries : Nat) (utf8 : Bool) (plans : Nat → List (Option Err)) :
    Nat → Nat → List Nat → AttMeta → List (List RcptObs)
  | 0, _, _, _ => []
  | _, _, [], _ => []
  | fuel + 1, k, to, m =>
    let errs := fun r => ((plans r)[k]?).getD none
    let (obs, new, m') := attemptAll maxTries utf8 errs to m
    obs :: runMulti maxTries utf8 plans fuel (k + 1) new m'

end MaddyVerif.Errors
