import MaddyVerif.Generated.FuncSkelC08
import MaddyVerif.Expect.FuncSkelC08
/-! T1 for C08: the tie between the hand-written model and the text of the code it mirrors. -/
namespace MaddyVerif.T1

/-- Every Go declaration the C08 model mirrors (tools/extract/funcskel_spec.json) has, in the CURRENT
tree, the normalised text (comments, layout, local names, log/trace statements removed) the model was
written from and validated against by the differential runs.  `decide` over the regenerated
finite table. -/
theorem C08_T1_mirrored_code_unchanged :
    Generated.FuncSkelC08.funcs = Expect.FuncSkelC08.funcs := by decide +kernel

end MaddyVerif.T1
