import MaddyVerif.Generated.FuncSkelC04
import MaddyVerif.Expect.FuncSkelC04
/-! T1 for C04: the tie between the hand-written model and the text of the code it mirrors. -/
namespace MaddyVerif.T1

/-- Every Go declaration the C04 model mirrors (tools/extract/funcskel_spec.json) has, in the CURRENT
tree, the normalised text (comments, layout, local names, log/trace statements removed) the model was
written from and validated against by the differential runs.  `decide` over the regenerated
finite table. -/
theorem C04_T1_mirrored_code_unchanged :
    Generated.FuncSkelC04.funcs = Expect.FuncSkelC04.funcs := by decide +kernel

end MaddyVerif.T1
