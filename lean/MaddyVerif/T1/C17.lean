import MaddyVerif.Generated.FuncSkelC17
import MaddyVerif.Expect.FuncSkelC17
/-! T1 for C17: the tie between the hand-written model and the text of the code it mirrors. -/
namespace MaddyVerif.T1

/-- Every Go declaration the C17 model mirrors (tools/extract/funcskel_spec.json) has, in the CURRENT
tree, the normalised text (comments, layout, local names, log/trace statements removed) the model was
written from and validated against by the differential runs.  `decide` over the regenerated
finite table. -/
theorem C17_T1_mirrored_code_unchanged :
    Generated.FuncSkelC17.funcs = Expect.FuncSkelC17.funcs := by decide +kernel

end MaddyVerif.T1
