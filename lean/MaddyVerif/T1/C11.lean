import MaddyVerif.Generated.FuncSkelC11
import MaddyVerif.Expect.FuncSkelC11
/-! T1 for C11: the tie between the hand-written model and the text of the code it mirrors. -/
namespace MaddyVerif.T1

/-- Every Go declaration the C11 model mirrors (tools/extract/funcskel_spec.json) has, in the CURRENT
tree, the normalised text (comments, layout, local names, log/trace statements removed) the model was
written from and validated against by the differential runs.  `decide` over the regenerated
finite table. -/
theorem C11_T1_mirrored_code_unchanged :
    Generated.FuncSkelC11.funcs = Expect.FuncSkelC11.funcs := by decide +kernel

end MaddyVerif.T1
