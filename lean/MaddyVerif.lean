import MaddyVerif.Props.C16
