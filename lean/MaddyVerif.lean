import MaddyVerif.Props.C01
import MaddyVerif.Props.C09
import MaddyVerif.Props.C16
import MaddyVerif.Props.C17
