import MaddyVerif.Props.C01
import MaddyVerif.Props.C09
import MaddyVerif.Props.C16
import MaddyVerif.Props.C17
import MaddyVerif.Props.C14
import MaddyVerif.Props.C15
import MaddyVerif.Props.C13
import MaddyVerif.Props.C07
