import MaddyVerif.Props.C16
import MaddyVerif.Props.C17
