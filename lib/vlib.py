"""Shared machinery of the maddy verification checks (see /verif/DESIGN.md §2).

One check run = extract (T1) -> prove (Lean) -> correspondence (T2) -> monitor (T3) -> decide -> evidence.
"""
import fcntl
import hashlib
import json
import os
import re
import shutil
import subprocess
import sys
import time

VERIF = os.path.dirname(os.path.dirname(os.path.abspath(__file__)))
REPO = os.environ.get("VERIF_REPO", "/repo")
LEAN = os.environ.get("VERIF_LEAN") or os.path.join(VERIF, "lean")
HARNESS = os.path.join(VERIF, "harness")
WORK = os.environ.get("VERIF_WORK") or os.path.join(VERIF, ".work")
DRIVER = os.path.join(LEAN, ".lake", "build", "bin", "driver")
EXTRACT_BIN = os.path.join(WORK, "bin", "extract")

ALLOWED_AXIOMS = {"propext", "Classical.choice", "Quot.sound"}
FORBIDDEN = re.compile(
    r"\bsorry\b|\badmit\b|^\s*axiom\s|native_decide|bv_decide|implemented_by|\bunsafe\s|maxHeartbeats\s+0|ofReduceBool|ofReduceNat"
)

GOENV = dict(
    GOFLAGS="-mod=mod",
    GOPROXY="off",
    GOSUMDB="off",
    GOTOOLCHAIN="local",
    CGO_ENABLED=os.environ.get("CGO_ENABLED", "1"),
)


def goenv(extra=None):
    e = dict(os.environ)
    e.update(GOENV)
    if extra:
        e.update(extra)
    return e


def sh(cmd, cwd=None, env=None, timeout=None, inp=None):
    t0 = time.time()
    p = subprocess.run(
        cmd,
        cwd=cwd,
        env=env,
        input=inp,
        stdout=subprocess.PIPE,
        stderr=subprocess.STDOUT,
        timeout=timeout,
        text=True,
        errors="replace",
    )
    return p.returncode, p.stdout, time.time() - t0


class Lock:
    def __init__(self, name):
        os.makedirs(WORK, exist_ok=True)
        self.path = os.path.join(WORK, name + ".lock")

    def __enter__(self):
        self.f = open(self.path, "w")
        fcntl.flock(self.f, fcntl.LOCK_EX)
        return self

    def __exit__(self, *a):
        fcntl.flock(self.f, fcntl.LOCK_UN)
        self.f.close()


def write_if_changed(path, content):
    try:
        if open(path).read() == content:
            return False
    except OSError:
        pass
    os.makedirs(os.path.dirname(path), exist_ok=True)
    tmp = path + ".tmp%d" % os.getpid()
    with open(tmp, "w") as f:
        f.write(content)
    os.replace(tmp, path)
    return True


def lean_comment_strip(src):
    # remove /- ... -/ (nested) and -- comments, keep string literals intact enough for token grep
    out = []
    i, depth = 0, 0
    n = len(src)
    while i < n:
        if src.startswith("/-", i):
            depth += 1
            i += 2
            continue
        if depth > 0:
            if src.startswith("-/", i):
                depth -= 1
                i += 2
            else:
                i += 1
            continue
        if src.startswith("--", i):
            j = src.find("\n", i)
            i = n if j < 0 else j
            continue
        out.append(src[i])
        i += 1
    return "".join(out)


class Check:
    def __init__(self, prop, tier="quick", seed=None, replay=None):
        self.prop = prop
        self.tier = tier
        self.seed = int(seed if seed is not None else os.environ.get("VERIF_SEED", "1") or 1)
        self.replay = replay
        self.t0 = time.time()
        self.work = os.path.join(WORK, prop, tier)
        shutil.rmtree(self.work, ignore_errors=True)
        os.makedirs(self.work, exist_ok=True)
        rdir = os.path.join(VERIF, "replays", prop)
        if os.path.isdir(rdir) and not replay:
            for fn in os.listdir(rdir):
                if fn.startswith(tier + "_"):
                    os.unlink(os.path.join(rdir, fn))
        self.obligations = []  # list of dict(name, kind, ok, detail)
        self.corr_cases = 0
        self.corr_ops = set()
        self.divergences = []  # dict(op, impl, model, source)
        self.violations = []  # dict(sig, op, detail, source)
        self.stats = {}
        self.samples = []
        self.notes = []
        self.assumptions = []
        self.trusted_base = [
            "Lean 4.33.0 kernel; axioms limited to propext, Classical.choice, Quot.sound (audited per theorem with #print axioms)",
            "hand-written Lean model tied to /repo by differential correspondence (T2) and regenerated facts (T1); see DESIGN.md",
            "Go harness injected via go test -overlay; /verif/tools/extract",
        ]
        self.proof_broken = []  # names
        self.harness_failed = []
        self.checker_cmds = []
        self.thorough = tier == "thorough"

    # ---------------------------------------------------------------- T1
    def extract(self, cmd, outname):
        """Run the fact extractor on the current /repo tree -> lean/MaddyVerif/Generated/<outname>."""
        with Lock("extract-build"):
            src = os.path.join(VERIF, "tools", "extract")
            stamp = os.path.join(WORK, "bin", "extract.stamp")
            h = hashlib.sha256()
            for fn in sorted(os.listdir(src)):
                if fn.endswith(".go") or fn == "go.mod":
                    h.update(open(os.path.join(src, fn), "rb").read())
            dig = h.hexdigest()
            cur = open(stamp).read() if os.path.exists(stamp) else ""
            if cur != dig or not os.path.exists(EXTRACT_BIN):
                os.makedirs(os.path.dirname(EXTRACT_BIN), exist_ok=True)
                rc, out, _ = sh(["go", "build", "-o", EXTRACT_BIN, "."], cwd=src, env=goenv({"GOFLAGS": ""}))
                if rc != 0:
                    raise RuntimeError("cannot build extractor:\n" + out)
                open(stamp, "w").write(dig)
        target = os.path.join(LEAN, "MaddyVerif", "Generated", outname)
        with Lock("lean"):
            rc, out, _ = sh([EXTRACT_BIN, cmd, REPO, target])
        if rc != 0:
            self.obligations.append(dict(name="extract:" + cmd, kind="T1", ok=False, detail=out[-2000:]))
            self.proof_broken.append("extract:" + cmd)
            return False
        return True

    # ---------------------------------------------------------------- proof
    def theorems_of(self, relpath):
        src = lean_comment_strip(open(os.path.join(LEAN, relpath)).read())
        ns = re.search(r"^namespace\s+(\S+)", src, re.M)
        prefix = ns.group(1) + "." if ns else ""
        return [prefix + m.group(1) for m in re.finditer(r"^(?:private\s+)?theorem\s+([^\s:({\[]+)", src, re.M)]

    def forbidden_scan(self, relpaths):
        bad = []
        for rp in relpaths:
            src = lean_comment_strip(open(os.path.join(LEAN, rp)).read())
            for ln, line in enumerate(src.split("\n"), 1):
                if FORBIDDEN.search(line):
                    bad.append("%s:%d: %s" % (rp, ln, line.strip()[:120]))
        return bad

    def lean(self, props_module, extra_sources=()):
        """Build MaddyVerif.Props.<props_module>, audit axioms of every theorem in it."""
        rel = "MaddyVerif/Props/%s.lean" % props_module
        thms = self.theorems_of(rel)
        audit_rel = "MaddyVerif/Audit/%s.lean" % props_module
        audit_src = "import MaddyVerif.Props.%s\n" % props_module + "".join(
            "#print axioms %s\n" % t for t in thms
        )
        with Lock("lean"):
            write_if_changed(os.path.join(LEAN, audit_rel), audit_src)
            cmd = ["lake", "build", "MaddyVerif.Props." + props_module]
            self.checker_cmds.append("cd /verif/lean && " + " ".join(cmd) + " && lake env lean " + audit_rel)
            rc, out, dt = sh(cmd, cwd=LEAN, timeout=3000)
            self.stats["lean_build_s"] = round(dt, 1)
            audit_out = ""
            if rc == 0:
                rc2, audit_out, _ = sh(["lake", "env", "lean", audit_rel], cwd=LEAN, timeout=1200)
                if rc2 != 0:
                    rc, out = rc2, out + audit_out
            if rc == 0 and self.thorough:
                rc3, lc_out, dt3 = sh(["lake", "env", "leanchecker", "MaddyVerif.Props." + props_module], cwd=LEAN, timeout=3000)
                self.stats["leanchecker_s"] = round(dt3, 1)
                self.checker_cmds.append("lake env leanchecker MaddyVerif.Props." + props_module)
                if rc3 != 0:
                    rc, out = rc3, out + "\nleanchecker:\n" + lc_out
        if rc != 0:
            # which theorems failed?  find error lines and map them to the enclosing theorem
            failed = set()
            for m in re.finditer(r"error: (\S+?\.lean):(\d+):\d+", out):
                f, ln = m.group(1), int(m.group(2))
                try:
                    lines = open(os.path.join(LEAN, f)).read().split("\n")
                except OSError:
                    continue
                name = None
                for i in range(min(ln, len(lines)) - 1, -1, -1):
                    mm = re.match(r"^(?:private\s+)?(?:theorem|def|example|instance|abbrev|lemma)\s*([^\s:({\[]*)", lines[i])
                    if mm:
                        name = "%s:%s" % (f, mm.group(1) or "example@%d" % (i + 1))
                        break
                failed.add(name or "%s:%d" % (f, ln))
            if not failed:
                failed.add("lake build MaddyVerif.Props." + props_module)
            for t in thms:
                self.obligations.append(dict(name=t, kind="theorem", ok=False, detail="build failed"))
            self.proof_broken.extend(sorted(failed))
            self.notes.append("lean build failed:\n" + out[-3000:])
            return False
        # parse audit
        axioms = {}
        cur = None
        for m in re.finditer(r"'([^']+)' (depends on axioms: \[([^\]]*)\]|does not depend on any axioms)", audit_out.replace("\n", " ")):
            name = m.group(1)
            axs = [a.strip() for a in (m.group(3) or "").split(",") if a.strip()]
            axioms[name] = axs
        srcs = [rel] + list(extra_sources)
        # all model / lemma files transitively imported from this package
        srcs = sorted(set(srcs + self.local_imports(rel)))
        bad_tokens = self.forbidden_scan(srcs)
        for t in thms:
            if t not in axioms:
                self.obligations.append(dict(name=t, kind="theorem", ok=False, detail="no #print axioms output"))
                self.proof_broken.append(t)
                continue
            extra = [a for a in axioms[t] if a not in ALLOWED_AXIOMS]
            ok = not extra
            self.obligations.append(dict(name=t, kind="theorem", ok=ok, axioms=axioms[t]))
            if not ok:
                self.proof_broken.append(t + " uses " + ",".join(extra))
        if bad_tokens:
            self.obligations.append(dict(name="forbidden-token scan", kind="audit", ok=False, detail=bad_tokens[:10]))
            self.proof_broken.append("forbidden tokens: " + "; ".join(bad_tokens[:5]))
        else:
            self.obligations.append(dict(name="forbidden-token scan over %d files" % len(srcs), kind="audit", ok=True))
        self.t1_mirrored_code(props_module)
        return not self.proof_broken

    def t1_mirrored_code(self, prop):
        """T1 for every property: fingerprints of the Go declarations the model mirrors, regenerated from the
        current tree (tools/extract funcskel:<Cxx>), must equal the blessed ones (theorem MaddyVerif.T1.<Cxx>)."""
        t1_rel = "MaddyVerif/T1/%s.lean" % prop
        if not os.path.exists(os.path.join(LEAN, t1_rel)):
            return
        thm = "MaddyVerif.T1.%s_T1_mirrored_code_unchanged" % prop
        gen = "FuncSkel%s.lean" % prop
        if not self.extract("funcskel:" + prop, gen):
            return
        with Lock("lean"):
            rc, out, dt = sh(["lake", "build", "MaddyVerif.T1." + prop], cwd=LEAN, timeout=1200)
            audit = ""
            if rc == 0:
                a_rel = os.path.join(self.work, "audit_t1.lean")
                open(a_rel, "w").write("import MaddyVerif.T1.%s\n#print axioms %s\n" % (prop, thm))
                rc2, audit, _ = sh(["lake", "env", "lean", a_rel], cwd=LEAN, timeout=600)
                if rc2 != 0:
                    rc, out = rc2, out + audit
        self.checker_cmds.append("lake build MaddyVerif.T1." + prop)

        def table(path):
            try:
                return dict(re.findall(r'\("([^"]+)", "([0-9a-f]+)"\)', open(path).read()))
            except OSError:
                return {}

        g = table(os.path.join(LEAN, "MaddyVerif", "Generated", gen))
        e = table(os.path.join(LEAN, "MaddyVerif", "Expect", gen))
        self.stats["t1_mirrored_declarations"] = len(e)
        if rc == 0:
            m = re.search(r"depends on axioms: \[([^\]]*)\]", audit.replace("\n", " "))
            axs = [a.strip() for a in (m.group(1) if m else "").split(",") if a.strip()]
            extra = [a for a in axs if a not in ALLOWED_AXIOMS]
            self.obligations.append(dict(name=thm, kind="theorem", ok=not extra, axioms=axs))
            if extra:
                self.proof_broken.append(thm + " uses " + ",".join(extra))
            return
        changed = sorted(k for k in set(g) | set(e) if g.get(k) != e.get(k))
        # textual diff of the normalised declarations, for the replay file
        diff = ""
        try:
            import difflib

            def blocks(path):
                d, cur = {}, None
                for line in open(path).read().split("\n"):
                    if line.startswith("==== "):
                        cur = line[5:]
                        d[cur] = []
                    elif cur is not None:
                        d[cur].append(line)
                return d

            gb = blocks(os.path.join(LEAN, "MaddyVerif", "Generated", gen + ".txt"))
            eb = blocks(os.path.join(LEAN, "MaddyVerif", "Expect", gen[:-5] + ".txt"))
            for k in changed[:4]:
                diff += "\n".join(list(difflib.unified_diff(eb.get(k, []), gb.get(k, []), "blessed " + k, "current " + k, lineterm="", n=2))[:60]) + "\n"
        except OSError:
            pass
        self.obligations.append(dict(name=thm, kind="theorem", ok=False, detail="declarations whose normalised text differs from the blessed one: " + ", ".join(changed)))
        self.proof_broken.append(thm + " [" + ", ".join(changed) + "]")
        self.notes.append("T1 mirrored code changed:\n" + (diff or out[-1500:])[:6000])

    def local_imports(self, rel, seen=None):
        seen = seen if seen is not None else set()
        if rel in seen:
            return []
        seen.add(rel)
        out = [rel]
        try:
            src = open(os.path.join(LEAN, rel)).read()
        except OSError:
            return []
        for m in re.finditer(r"^import\s+(MaddyVerif\.[\w.]+)", src, re.M):
            out += self.local_imports(m.group(1).replace(".", "/") + ".lean", seen)
        return out

    # ---------------------------------------------------------------- T2/T3 harness
    def overlay(self, tags):
        """overlay json adding /verif/harness/** files (shared ones + those tagged for this property)."""
        repl = {}
        for root, _, files in os.walk(HARNESS):
            for fn in files:
                if not fn.endswith(".go"):
                    continue
                full = os.path.join(root, fn)
                relp = os.path.relpath(full, HARNESS)
                shared = relp.startswith("internal/verifshim/")
                tagged = any(("_%s_" % t) in fn or ("_%s." % t) in fn for t in tags)
                if shared or tagged:
                    repl[os.path.join(REPO, relp)] = full
        p = os.path.join(self.work, "overlay.json")
        json.dump({"Replace": repl}, open(p, "w"), indent=1)
        return p

    def go_harness(self, pkgs, run, n=None, tags=None, env=None, timeout=1500, replay_ops=None, extra_overlay=None, race=False, name=None):
        tags = tags or [self.prop.lower()]
        ov = self.overlay(tags)
        if extra_overlay:
            d = json.load(open(ov))
            d["Replace"].update(extra_overlay)
            json.dump(d, open(ov, "w"), indent=1)
        outdir = os.path.join(self.work, "out")
        os.makedirs(outdir, exist_ok=True)
        e = {"VERIF_OUT": outdir, "VERIF_SEED": str(self.seed), "VERIF_TIER": self.tier}
        if n:
            e["VERIF_N"] = str(n)
        if replay_ops is not None:
            rp = os.path.join(self.work, "replay_ops.txt")
            open(rp, "w").write("\n".join(replay_ops) + "\n")
            e["VERIF_REPLAY_OPS"] = rp
        if env:
            e.update(env)
        cmd = ["go", "test", "-vet=off", "-count=1", "-overlay", ov, "-run", run, "-timeout", "%ds" % timeout]
        if race:
            cmd.append("-race")
        cmd += pkgs
        rc, out, dt = sh(cmd, cwd=REPO, env=goenv(e), timeout=timeout + 120)
        self.stats.setdefault("go_harness_s", 0)
        self.stats["go_harness_s"] = round(self.stats["go_harness_s"] + dt, 1)
        log = os.path.join(self.work, "go_%s.log" % (name or re.sub(r"\W+", "_", run)))
        open(log, "w").write(out)
        if rc != 0:
            self.harness_failed.append(dict(cmd=" ".join(cmd), rc=rc, tail=out[-3000:], log=log))
        return rc, out, outdir

    def collect(self, outdir, names=None):
        """Read harness .out files: correspondence cases, monitor violations, stats."""
        corr = []
        complete = True
        for fn in sorted(os.listdir(outdir)):
            if not fn.endswith(".out"):
                continue
            if names and fn[:-4] not in names:
                continue
            ended = False
            for line in open(os.path.join(outdir, fn), errors="replace"):
                parts = line.rstrip("\n").split("\t")
                if parts[0] == "C" and len(parts) >= 3:
                    corr.append((parts[1], parts[2], fn))
                elif parts[0] == "V" and len(parts) >= 4:
                    self.violations.append(dict(sig=parts[1], op=parts[2], detail=parts[3], source=fn))
                elif parts[0] == "S" and len(parts) >= 3:
                    self.stats[parts[1]] = self.stats.get(parts[1], 0) + int(parts[2])
                elif parts[0] == "N":
                    self.notes.append(parts[1] if len(parts) > 1 else "")
                elif parts[0] == "E":
                    ended = True
            if not ended:
                complete = False
                self.harness_failed.append(dict(cmd="harness output " + fn, rc=-1, tail="output file not terminated (harness crashed?)"))
        return corr, complete

    def ensure_driver(self):
        with Lock("lean"):
            rc, out, dt = sh(["lake", "build", "driver"], cwd=LEAN, timeout=3000)
        if rc != 0:
            self.proof_broken.append("lake build driver")
            self.notes.append("driver build failed:\n" + out[-3000:])
            return False
        return True

    def run_driver(self, ops):
        if not ops:
            return []
        if not self.ensure_driver():
            return None
        inp = "\n".join(ops) + "\n"
        p = subprocess.run([DRIVER], input=inp, stdout=subprocess.PIPE, stderr=subprocess.PIPE, text=True, timeout=3000)
        outs = p.stdout.split("\n")
        if outs and outs[-1] == "":
            outs.pop()
        if p.returncode != 0 or len(outs) != len(ops):
            self.notes.append("driver failed rc=%s lines=%d/%d stderr=%s" % (p.returncode, len(outs), len(ops), p.stderr[-500:]))
            return None
        return outs

    def correspond(self, corr, label="T2"):
        """Pipe the op lines to the Lean model and diff with what the real code did."""
        ops = [c[0] for c in corr]
        outs = self.run_driver(ops)
        if outs is None:
            self.divergences.append(dict(op="(driver)", impl="", model="driver failed", source=label))
            return
        for (op, impl, src), model in zip(corr, outs):
            self.corr_cases += 1
            self.corr_ops.add(op)
            if impl != model:
                self.divergences.append(dict(op=op, impl=impl, model=model, source=src))
        if corr and len(self.samples) < 6:
            step = max(1, len(corr) // 3)
            for i in range(0, len(corr), step):
                if len(self.samples) < 6:
                    self.samples.append(dict(op=corr[i][0], impl=corr[i][1], model=outs[i]))

    # ---------------------------------------------------------------- decide
    def known_findings(self):
        out = []
        for p in [os.path.join(VERIF, "known_findings.json"), os.environ.get("VERIF_KNOWN_EXTRA")]:
            if not p:
                continue
            try:
                d = json.load(open(p))
            except OSError:
                continue
            out += [f for f in d.get("findings", []) if f.get("property") == self.prop and f.get("status") == "open"]
        return out

    def write_replay(self, kind, payload):
        d = os.path.join(VERIF, "replays", self.prop)
        os.makedirs(d, exist_ok=True)
        key = hashlib.sha1(json.dumps(payload, sort_keys=True).encode()).hexdigest()[:10]
        p = os.path.join(d, "%s_%s_%s.json" % (self.tier, kind, key))
        payload = dict(payload)
        payload.update(property=self.prop, kind=kind, seed=self.seed, tier=self.tier)
        json.dump(payload, open(p, "w"), indent=1, ensure_ascii=False)
        return p

    def finish(self, level="proof", rule="", explanation="", extra_cov=None, search=None):
        known = self.known_findings()
        is_broken = bool(self.proof_broken or self.divergences or self.harness_failed)
        if is_broken and search is not None and not self.replay:
            def unexplained():
                for v in self.violations:
                    if not any(f.get("sig") == v["sig"] and ((not f.get("op_regex")) or re.search(f["op_regex"], v["op"])) for f in known):
                        return True
                return False
            if not unexplained():
                self.notes.append("proof/correspondence broke without a monitor hit: intensified search for a failing input")
                try:
                    search()
                except Exception as ex:  # the search is best effort
                    self.notes.append("search failed: %r" % (ex,))
                self.stats["search_mode_runs"] = self.stats.get("search_mode_runs", 0) + 1
        lines = []
        nviol = 0
        reported_known = set()
        # 1. monitor violations (concrete failing inputs on the real code)
        by_sig = {}
        for v in self.violations:
            by_sig.setdefault(v["sig"], []).append(v)
        unexplained_sigs = []
        for sig, vs in sorted(by_sig.items()):
            kf = None
            for f in known:
                if f.get("sig") == sig and (not f.get("op_regex") or re.search(f["op_regex"], vs[0]["op"])):
                    # every violation of this signature must match the finding's input class
                    if all((not f.get("op_regex")) or re.search(f["op_regex"], v["op"]) for v in vs):
                        kf = f
                        break
            if kf:
                if kf["id"] not in reported_known:
                    reported_known.add(kf["id"])
                    lines.append("KNOWN-FINDING: property=%s %s (%d occurrences this run, e.g. %s)" % (self.prop, kf["what"], len(vs), vs[0]["op"][:160]))
                continue
            unexplained_sigs.append(sig)
            vs_sorted = sorted(vs, key=lambda v: len(v["op"]))
            rp = self.write_replay("monitor", dict(sig=sig, op=vs_sorted[0]["op"], detail=vs_sorted[0]["detail"], count=len(vs), replay_ops=[vs_sorted[0]["op"]]))
            lines.append("VIOLATION property=%s replay=%s" % (self.prop, rp))
            nviol += 1
        # 2. broken proof / correspondence / harness without a concrete failing input
        broken = []
        if self.proof_broken:
            broken.append(("proof", dict(theorems=self.proof_broken, notes=self.notes[-2:])))
        if self.divergences:
            d0 = sorted(self.divergences, key=lambda d: len(d["op"]))[0]
            broken.append(("correspondence", dict(divergences=len(self.divergences), first=d0, replay_ops=[d0["op"]])))
        if self.harness_failed:
            broken.append(("harness", dict(failures=self.harness_failed[:3])))
        if broken and nviol == 0:
            for kind, payload in broken:
                payload["what_no_longer_checks"] = kind
                rp = self.write_replay(kind, payload)
                lines.append("VIOLATION property=%s replay=%s no-failing-input-found" % (self.prop, rp))
                nviol += 1
        elif broken:
            for kind, payload in broken:
                self.notes.append("also broken: %s %s" % (kind, json.dumps(payload)[:500]))
        # evidence
        nob = len(self.obligations)
        ndis = sum(1 for o in self.obligations if o.get("ok"))
        cov = dict(
            obligations=max(nob, 1) if nob else 0,
            discharged=ndis,
            checker_cmd=" ; ".join(self.checker_cmds) or "n/a",
            trusted_base=self.trusted_base,
            evaluations=self.corr_cases,
            distinct_nontrivial=len(self.corr_ops),
            traces_validated_against_impl=self.corr_cases - len(self.divergences),
            rule=rule,
            samples=self.samples[:6] or [dict(note="no correspondence cases in this run")],
            theorems=[o["name"] for o in self.obligations if o.get("kind") == "theorem"],
            obligations_failed=[o for o in self.obligations if not o.get("ok")][:20],
            divergences=len(self.divergences),
            monitor_violations=len(self.violations),
            known_findings_reported=sorted(reported_known),
            distribution={k: v for k, v in sorted(self.stats.items())},
            explanation=explanation,
        )
        if extra_cov:
            cov.update(extra_cov)
        ev = dict(
            property_id=self.prop,
            tier=self.tier,
            seed=self.seed,
            level=level,
            coverage=cov,
            assumptions=self.assumptions,
            wall_s=round(time.time() - self.t0, 2),
            violations=nviol,
        )
        os.makedirs(os.path.join(VERIF, "evidence"), exist_ok=True)
        json.dump(ev, open(os.path.join(VERIF, "evidence", self.prop + ".json"), "w"), indent=1, ensure_ascii=False)
        for l in lines:
            print(l)
        print(
            "%s %s: obligations %d/%d, correspondence %d cases (%d distinct, %d divergences), monitor violations %d, %.1fs"
            % (self.prop, self.tier, ndis, nob, self.corr_cases, len(self.corr_ops), len(self.divergences), len(self.violations), time.time() - self.t0)
        )
        if nviol:
            for n in self.notes[-3:]:
                print("note:", n[:1500])
        sys.stdout.flush()
        return 1 if nviol else 0
