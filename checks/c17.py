"""C17 — address normalisation (DESIGN.md §4 C17)."""

PKGS = ["./framework/address/"]


def harness(c, n, replay_ops=None):
    rc, out, outdir = c.go_harness(PKGS, "^TestVerifC17", n=n, replay_ops=replay_ops)
    corr, _ = c.collect(outdir)
    c.correspond(corr)


def run(c):
    c.lean("C17")
    if c.replay:
        harness(c, 1, replay_ops=c.replay.get("replay_ops") or [])
    else:
        harness(c, 40000 if c.thorough else 3000)

    def search():
        c.seed += 1000
        harness(c, 30000)

    c.assumptions += [
        "Unicode NFC, strings.ToLower and x/net/idna are parameters of the model; their laws (idempotence of NFC∘lower, A-label/U-label/case/NFD variants mapping to one DNS key) are sampled on the real libraries, not proved",
        "concurrent callers: the schedule is whatever the Go scheduler does with 2..8 goroutines started together on this machine (sampled, not enumerated); an unrecoverable runtime fault (concurrent map writes) ends the harness and is reported as a harness failure, not as a monitor violation",
        "ill-formed UTF-8: the model runs on the code points Go's range yields (decodeUtf8, proved equivalent to the byte test for IsASCII); that the library primitives commute with this decoding is sampled (primitive tables are keyed by decoded code points), not proved",
    ]
    return c.finish(
        rule="strings over the property's alphabet (ASCII specials, quotes, '@', combining marks, case-sensitive letters, fullwidth forms, punycode labels), "
        "valid addresses (IDN labels incl. Greek sigma at word-final / pre-hyphen / pre-digit positions, final sigma, dotless i, Lithuanian/Dutch special-casing letters, "
        "right-to-left labels, joiners; quoted local parts spelled by the harness itself (specials, redundant quotes and escapes, escapes in front of combining marks, "
        "sequences for which NFC changes whether quotes are needed: '<' '>' '=' + U+0338, U+226E/F, U+037E, U+1FEF, U+212A); non-ASCII white space, C1 controls, BOM, zero-width and other "
        "default-ignorable code points at the start / end of local parts and domain labels; labels maddy accepts that are no STD3 host names: underscores, '--' in positions 3-4, leading/trailing hyphens, digits only, a 64-byte label; address literals) "
        "with their spelling variants (whole-string upper/title case, word-final upper case, random simple case mappings, NFD, NFC, combinations; A-labels in lower/upper/random letter case, "
        "per-label mixes, trailing dot; a respelling counts as a variant when the harness' own NFC + simple-lower-case fold agrees), and mutated valid addresses; "
        "each op runs the real function and the Lean model (primitive results shipped as a table); monitor: variants share ForLookup / dns.ForLookup / CleanDomain results and compare Equal, "
        "Split re-joins to its input for every string of the run; a neighbouring DIFFERENT address (one code point inserted / deleted at the start, end or inside the local part or a label, "
        "one backslash of a quoted spelling dropped, one code point replaced by its NFKC form; 'different' by the harness' own unquoting + NFC + simple-lower-case fold) gets another key / cleaned form and is not Equal; "
        "a quoted string unquotes to what the harness spelled; "
        "every address address.Valid accepts gets a key from ForLookup / CleanDomain / dns.ForLookup / dns.ToUnicode, conversions succeed and round-trip on generated addresses; "
        "pairs for 'Equal <=> the two ForLookup keys are equal' (and dns.Equal <=> dns keys) from every domain class (valid U-/A-labels, undecodable A-labels: overflow / bad digits / non-ASCII inside / dangling delimiter, "
        "code points no host name may contain, over-long labels and names, empty labels and domains that normalise to nothing, address literals; respelled in ASCII / full upper case, NFD, trailing dot, A<->U labels, another member or class) "
        "x every local-part equivalence row (NFC/NFD, letter case, width, U+0130 / dotless i, final sigma, Angstrom / Kelvin signs, ligatures, sharp s, quoting), plus malformed shapes (bare local part vs a domain that normalises to nothing, "
        "missing local part / domain, two '@'); the violation signature names the ForLookup branch (both keys computed / undecodable domain / does not split); "
        "byte-level inputs (op lines carry hex bytes, the model decodes them like Go's range): arbitrary byte strings and address-shaped ones with lone continuation bytes, Latin-1 letters, C0/C1/F5..FF, overlong forms, "
        "surrogates, beyond U+10FFFF, truncated sequences, mixed with ASCII and well-formed characters, through every function; monitor: IsASCII(s) <=> every BYTE of s < 0x80 for every string of the run, "
        "whatever ToASCII returns without error is ASCII, ToUnicode keeps the local part; "
        "crash-freedom as an outcome of EVERY call: each call of a function under test anywhere in the harness (correspondence ops, monitors, generators, the crash stream over "
        "all 15 modelled functions + PRECIS / PRECISFold / FQDNDomain / SelectIDNA / dns.SelectIDNA / dns.FQDN) runs under recover, a panic is the violation C17/panic with the call "
        "(function + hex input) as replay and the observation 'panic' (an outcome the model never has: C17_no_panic), the run continues; the library primitives of the table run under recover too; "
        "size extremes through every function: labels of 62..300 octets with the ACE prefix in every letter case (xn-- XN-- Xn-- xN--), with near-miss prefixes and without one "
        "(bodies: one letter, letters+digits, mixed case, digits only, a decodable punycode tail, non-ASCII, hyphens), alone / first / middle / last label, two long labels, names of 252..1000 octets made of short labels, "
        "64..300 labels, prefix-only and tiny labels, local parts of 63..1000 octets (atoms, dotted, quoted with escapes, all backslashes, non-ASCII), each paired with an ASCII-case / prefix-case respelling "
        "or a name that differs in its last octet only; ValidMailboxName, ValidDomain and dns.ToUnicode have correspondence ops of their own; "
        "histories (op hist): 4..18 calls of one caller, one after the other, about two or three addresses (local-part rows x a domain the process has never looked up before: undecodable A-label, valid, disallowed code points, "
        "over-long, empty label, literal; a case / NFD / trailing-dot respelling of it), every call asked again later (same order, reversed, shuffled), calls about another fresh name in between; monitor: the same call gets the same "
        "answer at every point of the history, Equal(a,b) and Equal(b,a) asked at different points agree, Equal / dns.Equal agree with the keys ForLookup / dns.ForLookup hand out at any other point of the history; "
        "concurrent callers (op par): 6..8 calls over all 15 modelled functions on variants of valid addresses, key pairs of every domain class and local parts every letter of which NFC / lower-casing changes, answered by a single caller "
        "(twice) and then by 2..8 goroutines at the same time (120 rounds, each goroutine starts at another call); monitor: every concurrent answer is the single caller's answer, no concurrent call panics, the answers afterwards are the answers before; "
        "the model answers hist / par call by call (runHist: C17_hist_answer, C17_par_answer); "
        "valid internationalized names whose U-label form is far bigger than their A-label form: 1..5 labels of up to 63 letters from nine scripts (Cyrillic, Greek, Latin with marks, Armenian, Hangul, kana / Han, Georgian, Thai, Deseret; "
        "2..4 octets per letter, few distinct letters per label so that the A-label stays within 63 octets; names within 253 octets as A-labels, 60..700 octets as U-labels, more in NFD; sizes chosen by the harness from the library's idna.ToASCII, never by the code under test) "
        "in every spelling (NFC / NFD, upper / mixed case, A-labels in lower / upper / random letter case, labels spelled independently, trailing dot) behind plain and respelled local parts; monitor: every spelling shares the ForLookup / dns.ForLookup key and the cleaned domain "
        "of the U-label AND of the A-label spelling and is Equal / dns.Equal to both, the key is the normal form the harness computes itself (NFC + simple lower case, U-labels, no root dot), ForLookup / dns.ForLookup / CleanDomain are idempotent on what they hand out for any spelling, "
        "ToASCII / ToUnicode map the two canonical spellings onto one another (model: C17_dns_key_any_size, C17_dns_spellings_any_size, C17_dns_key_idempotent_any_size - no length enters the key); distinct = distinct op lines",
        explanation="theorems for all code-point lists and all primitive implementations; model tied to the code by differential runs; laws of the Unicode primitives sampled",
        search=search,
    )
