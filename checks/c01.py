"""C01 — one terminal outcome per queued recipient (DESIGN.md §4 C01)."""

PKGS = ["./internal/target/queue/"]


def harness(c, n, replay_ops=None):
    rc, out, outdir = c.go_harness(PKGS, "^TestVerifC01", n=n, replay_ops=replay_ops)
    corr, _ = c.collect(outdir)
    c.correspond(corr)


def run(c):
    c.lean("C01")
    if c.replay:
        harness(c, 1, replay_ops=c.replay.get("replay_ops") or [])
    else:
        harness(c, 12000 if c.thorough else 900)

    def search():
        c.seed += 1000
        harness(c, 6000)

    return c.finish(
        rule="random scenarios: 1-4 recipients (ASCII, IDN, A-label, upper-case spellings), in a third of the cases 2-4 of up to 6 recipients are DIFFERENT recipients spelling one mailbox "
        "(equal under address.ForLookup: case of the local part / of the domain, A-labels vs U-labels, NFC vs NFD) with different per-recipient outcomes, "
        "max_tries 1-4, atomic or per-recipient downstream, bounce route on/off, "
        "plus the same queue on top of the REAL remote target talking to a scripted go-smtp server (SMTPUTF8 on/off, IDN/non-ASCII/upper-case recipients, RCPT 450/550, DATA 451/554 per attempt; ground truth = what the server holds); "
        "plus the queue on top of the REAL target.remote / target.smtp / target.lmtp against next hops misbehaving in mid-session (C01 hop: 1-5 recipients, >= 3 of one domain in most cases, "
        "own MX per domain; per attempt: the first N MAIL commands refused, a per-transaction recipient limit after k accepted RCPTs, DATA refused / failing after the final dot, LMTP per-recipient statuses "
        "and a drop after j of them, RSET/QUIT faults; each fault = 4xx | 5xx | 552 | 421+close | connection closed | reset | silence until the (wall-clock independent) time-out; "
        "the spooled body handed to the target cannot be opened / its reader fails after k octets (k = 0, inside the first lines, in the middle of 8.6 KB, inside the last line, after the last octet; "
        "error alone or together with the last octets) for each of the three targets in every run; several spellings of one mailbox (local-part case, NFC/NFD, A-label/U-label) as different "
        "recipients, one refused and one accepted in the same attempt, told apart at the hop by their spelling on the wire; "
        "ground truth = recipients of the transactions the hop acknowledged with 250; model = Model/QueueHop.lean); "
        "histories with server restarts (C01 run ... R=): before the first attempt (Commit answered by a queue that is already shutting down: the first attempt runs on the meta-data read back from the spool), "
        "between any two attempts, twice in a row (an instance that delivers nothing), in a third of the cases; every 8th case has somebody failing in the first attempt after the first restart; "
        "envelopes (C01 run ... E=): message with / without SMTPUTF8, return path ASCII / non-ASCII local part / IDN domain (U- or A-labels), per recipient an ORIGINAL (client-supplied, rewritten) address of one of those shapes "
        "(MsgMetadata.OriginalRcpts) that the failure report has to name; every 8th case: SMTPUTF8 message whose sender and effective recipients are ASCII, whose original recipient is not, failing for good in the first attempt; "
        "the error grid (C01 cls: every class t|p|u x 8 shapes - exterrors.SMTPError bare / in WithFields / in WithTemporary, marker against the basic code, go-smtp SMTPError, plain, wrapped, context errors - x 10 styles of the enhanced status code: agreeing, absent, class 2/4/5 against the basic code, 0.1.1, 1.1.1, 9.0.0, -1.-1.-1, x.1000.1; one op line per point; "
        "C01 run ... X=: the failures of a history spelled in those forms, every 8th case a 5yz/4yz failure in the first attempt whose enhanced code disagrees or is odd, with a bounce route; C01 hop .../<style>: every 4xx/5xx reply of the scripted next hop carries such an enhanced code, per target kind every style in every run); "
        "oracle on the BASIC reply codes: no recipient is offered to the next hop again after its last reply was 5yz, one whose last reply was 4yz with attempts left is tried again, every terminal failure is reported whatever status it carries; "
        "transient read faults (C01 run ... T=: before a retry - or before the first attempt after a restart - the entry's header is a directory / its meta-data is cut short / is a directory while an instance loads or dispatches it, then repaired and the server restarted; every 8th case); "
        "envelopes that list an address twice or three times, identical spelling, most often FOLLOWED by other recipients (C01 run: every 8th case, both target kinds; everybody accepted in the first attempt, then all / the repeated one / the others fail at the body stage or Commit fails; "
        "C01 hop: every 8th case, half of them on target.lmtp, the scripted hop answers per mailbox - RCPT 450/550, LMTP 452/554 after the final dot - and keeps books per RCPT command and per message transfer); outcomes are counted per committed TRANSACTION / per report; oracle C01/committed-after-failed-body (Commit called although every accepted recipient failed at the body stage); "
        "per-recipient targets that file failures under addresses OUTSIDE the envelope (C01 run ... F=<attempt><x unrelated|c converted spelling|k other-case form><class>: every 8th case beside one real failure while the other recipients are delivered; 10 % of the other per-recipient cases); "
        "the header of the queued message as a dimension (C01 run ... H=<k>: Auto-Submitted auto-generated / auto-replied / auto-notified with parameters / no / upper-case name, Precedence bulk / list / junk, List-Id, Return-Path, X-Loop, Content-Type multipart/report, X-Auto-Response-Suppress, empty header; every 8th case walks the table while somebody fails for good, 30 % of the others get a random one) - the oracle does not look at it; "
        "the connection the message was submitted over and the configured name of the server (C01 run ... C=<k><t|n> Q=<k>: ConnState with the HELO/EHLO name of the client from a table - plain, empty label, label > 63 octets, name > 253 octets, address literals, underscore, malformed A-label xn--1, U-label / A-label / upper-case ACE prefix, a U-label whose A-label is longer than 63 octets, trailing / leading dot, dots only, single letter, empty - "
        "protocol, addresses, authenticated user, TLS state; sender traced or not; server name plain / empty label / over-long label / over-long name / trailing dot / U-label / A-label / upper case / leading dot / underscore; every 8th case walks the tables while somebody fails for good in the first attempt on the instance that accepted the message, six of seven without SMTPUTF8; 25 % / 15 % of the other cases get a random client / server name, restarts included: later instances have no ConnState); "
        "C01 names: the real Queue.emitDSN for every client row x traced/untraced x SMTPUTF8 and every server row x SMTPUTF8 (one op line per point, the results of dns.SelectIDNA on this tree travel with the op line; observed: a report is handed over, its Reporting-MTA / Received-From-MTA fields; monitor C01/report-cannot-be-generated); "
        "the spool entry as ANOTHER build of the server left it (C01 run ... V=<k><forms>: while the server is down before attempt k the entry's meta-data is rewritten - a field this build does not know at the end / in front with a structured value / inside MsgMeta / inside MsgMeta.SMTPOpts / with the value null, the document indented, its keys in alphabetical order, zero-valued fields left out, white space around it - "
        "the harness first checks with the plain decoder that this build reads the same data from both spellings; every 8th case walks the forms, alone and in pairs, at the restart somebody fails after, 40 % of the other histories with restarts get random ones); "
        "one fault plan per attempt (start / per-recipient / body / per-recipient body status / commit, each ok|temporary|permanent|unclassified, fault density 10-90%); "
        "the REAL queue (time wheel, spool files, DSN generator) runs each to quiescence against a scripted target; the whole call/commit/report trace is compared "
        "with the Lean model's trace; distinct = distinct scenarios",
        explanation="theorems over all recipient lists, kinds, maxTries and plan streams (C01_exactly_one_outcome) and over all next-hop scripts for the three forwarding targets "
        "(C01_hop_attempt_truthful, C01_hop_exactly_one_outcome, C01_hop_body_fault_not_acked) and over all schedules of restarts and all well-formed envelopes "
        "(Model/QueueRestart.lean: runR_eq, C01_exactly_one_outcome_with_restarts, C01_exactly_one_outcome_with_read_faults - a restart and a read of the entry that failed transiently are transparent, no attempt panics on a nil bookkeeping map, every due report can be generated); the class of a failure is a function of the basic reply code / the WithTemporary marker on the Unwrap chain and never of the enhanced status code (Model/QueueErr.lean: C01_retry_decision_ignores_enhanced_code, C01_classify_ignores_enhanced_code, C01_permanent_reply_not_requeued, C01_recorded_status_reportable); recipients are opaque identities in the model; Model/QueueDup.lean: deliver calls Commit iff some accepted recipient has no error, for every recipient LIST (repetitions allowed) and every status map (keys outside the envelope allowed) - C01_commit_decision_iff, C01_commit_decision_ignores_foreign_keys, C01_commit_decision_dedup, C01_deliver_commits_iff; an address listed twice is classified once per attempt and the pending list of every later attempt is duplicate-free (C01_pending_list_duplicate_free, runHopD_eq, runRD_eq); the report decision takes the header as an argument and ignores it (C01_report_decision_ignores_header, C01_exactly_one_outcome_any_header); "
        "Model/QueueTrace.lean: the MTA names of the report (ReportingMTAInfo.WriteTo with dns.SelectIDNA as a parameter): a report is stopped by names iff the SERVER's own name is empty or inconvertible (C01_mta_names_ok_iff_server_name), never by what the client called itself, traced or not, connection state present or not (C01_report_decision_ignores_client, C01_inconvertible_client_name_left_out), and with a usable server name the decision is the one of the theorems above (C01_report_decision_with_names_eq); "
        "Model/QueueSpool.lean: the meta-data file as a list of members and encoding/json's reading of it into a fresh QueueMetadata (unknown members skipped, the later of two wins, null / absent = zero value): the entry that is loaded is a function of the known members alone - C01_load_ignores_unknown_fields, C01_load_ignores_other_build, C01_load_absent_is_zero, C01_load_ignores_key_order - so a restart on a spool another build wrote is the restart of the theorems above; "
        "models tied to queue.go / remote.go / smtp_downstream.go / smtpconn.go by differential runs",
        search=search,
    )
