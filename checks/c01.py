"""C01 — one terminal outcome per queued recipient (DESIGN.md §4 C01)."""

PKGS = ["./internal/target/queue/"]


def harness(c, n, replay_ops=None):
    rc, out, outdir = c.go_harness(PKGS, "^TestVerifC01", n=n, replay_ops=replay_ops)
    corr, _ = c.collect(outdir)
    c.correspond(corr)


def run(c):
    c.lean("C01")
    if c.replay:
        harness(c, 1, replay_ops=c.replay.get("replay_ops") or [])
    else:
        harness(c, 12000 if c.thorough else 900)

    def search():
        c.seed += 1000
        harness(c, 6000)

    return c.finish(
        rule="random scenarios: 1-4 recipients (ASCII, IDN, A-label, upper-case spellings), max_tries 1-4, atomic or per-recipient downstream, bounce route on/off, "
        "plus the same queue on top of the REAL remote target talking to a scripted go-smtp server (SMTPUTF8 on/off, IDN/non-ASCII/upper-case recipients, RCPT 450/550, DATA 451/554 per attempt; ground truth = what the server holds); "
        "one fault plan per attempt (start / per-recipient / body / per-recipient body status / commit, each ok|temporary|permanent|unclassified, fault density 10-90%); "
        "the REAL queue (time wheel, spool files, DSN generator) runs each to quiescence against a scripted target; the whole call/commit/report trace is compared "
        "with the Lean model's trace; distinct = distinct scenarios",
        explanation="theorem over all recipient lists, kinds, maxTries and plan streams; model tied to queue.go by trace-level differential runs",
        search=search,
    )
