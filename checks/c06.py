"""C06 — check verdicts are always enforced and every check sees every stage once (DESIGN.md §4 C06)."""

PKGS = ["./internal/msgpipeline/", "./internal/target/remote/"]


def harness(c, n, replay_ops=None, race_n=0):
    rc, out, outdir = c.go_harness(PKGS, "^TestVerifC06", n=n, replay_ops=replay_ops, timeout=1500)
    if race_n:
        # the same harness under the race detector (checkRunner shares mergedRes and the seen-maps between goroutines)
        c.go_harness(PKGS[:1], "^TestVerifC06Pipeline$", n=race_n, race=True, env={"VERIF_C06_TAG": "_race"}, timeout=1500, name="race")
    corr, _ = c.collect(outdir)
    c.correspond(corr)


def run(c):
    # T1: the step lists of Body / BodyNonAtomic, the merge chain of runAndMergeResults, the replay
    # groups of checkStates and every write to MsgMetadata.Quarantine in the package, from the current tree
    c.extract("c06calls", "C06Calls.lean")
    c.lean("C06")
    if c.replay:
        harness(c, 1, replay_ops=c.replay.get("replay_ops") or [])
    else:
        harness(c, 9000 if c.thorough else 700, race_n=1500 if c.thorough else 0)

    def search():
        c.seed += 1000
        harness(c, 5000)

    c.assumptions += [
        "the verdict of a check at a stage is a function of (check, stage, recipient): the model's Verdicts parameter; "
        "results carry a flag only together with a reason (what FailAction.Apply produces, C06_apply_wellformed) - a flag "
        "without a reason would use up the runner's sync.Once with a nil error and is not generated",
        "the DMARC policy outcome is a parameter of the model (property C07 decides it); the harness produces each outcome "
        "through the real verifier with mock DNS records",
        "whether a call on a modifier group fails is a parameter of the model (Cfg.mf: modifiers are external - table "
        "look-ups, signing); where the calls sit between the check groups and what a failure leaves behind (checkedRcpts, the "
        "state objects, the key set of rcptModifiersState = the destination blocks of the body stage) is mirrored; non-failing "
        "modifiers are identities (address rewriting is not modelled); a temporary and a permanent failure are the same to "
        "the model (the harness checks that the modifier's own error comes back)",
                "goroutine completion orders are permuted by seeded delays inside the scripted checks (not enumerated); the theorem "
        "covers every permutation, the differential runs check that the real outcome does not depend on the delays",
        "the iteration order of Go maps (destination blocks at the body stage, deliveries) is not controlled: what depends "
        "on it (which destination-only checks saw the body before another one refused it; in a nest op the flag the outer "
        "pipeline's own targets saw when the inner pipeline's checks quarantine) is not compared",
        "nested pipelines (a MsgPipeline as the target of a destination block) are the same model run twice: the inner "
        "pipeline is `run` on the recipients the outer one hands over with Cfg.q0 = the flag the outer one leaves "
        "(composition in Driver/C06.lean `nest`, C06_quarantine_flag_monotone(_chain) for any depth); generated nest ops keep "
        "the inner pipeline from refusing commands itself (no reject verdict, no DMARC reject) and the outer pipeline's own "
        "targets from refusing, so that nothing feeds back from the inner to the outer transaction but the body result",
        "several messages on one pipeline object (multi ops) are interleaved at command granularity: MAIL, every RCPT and "
        "DATA of the transactions in every order, one command at a time (two commands of different messages never run "
        "concurrently); the model lets a command act on its own transaction only (`multi`; C06_transactions_independent: "
        "every transaction ends as `run` says for it alone) - that the code shares nothing between the messages of a "
        "pipeline but the configuration it only reads is what these runs check; the verdict of a check may depend on the "
        "message (the scripted checks find their message by MsgMetadata.ID)",
        "the envelope sender is not an input of the model: it selects the source block (routing is property C04; the "
        "oracle expects the null reverse-path at default_source, a sender of s<k>.example / its IDN spelling at source "
        "block k) and is an argument of the checks",
        "action directives: strconv.Atoi is mirrored for an optional sign followed by decimal digits without overflow "
        "(what the generated reply codes / enhanced codes contain); the error a refused directive is reported with is not "
        "compared, only that the configuration is refused; the custom reply (code / enhanced code / text) is compared as "
        "parsed, not as it appears on the wire (the reply texts are C16's business)",
        "DMARC policy discovery (round 9): Model `discover` mirrors FetchRecord / dmarcRecords / Verifier.Apply as far as they "
        "choose the pipeline's Dmarc parameter (which of the two _dmarc names are asked, the filter on v=DMARC1, exactly one "
        "record, p / sp, a temporary look-up failure refuses); inputs: the resolver's answers at the two names and whether "
        "the alignment evaluation passes (alignment itself, pct, malformed records, the public suffix list are C07's "
        "business); the op token w= carries the world, the driver checks that the op's dmarc field is `discover` of it, the "
        "harness computes the same field from the steps of RFC 7489 section 6.6.3 on its own",
        "a target.queue in front of a target (kind q<n|r>) is to the pipeline an atomic target that takes every message; "
        "the model's hand-over to it (recipients, flag) is compared with what the target BEHIND the real queue is shown on "
        "the queue's one attempt (max_tries 1; the queue is started fresh for the case and closed when its spool is empty); "
        "retries, restarts between attempts (meta-data re-read from disk) and failure reports are C01 / C02 / C05 / C10's",
        "which implementation a check has (scripted state objects or a real internal/check stateless check, op token "
        "sl=) is not an input of the model: a check is its verdicts per (message, stage, recipient); that the stateless "
        "plumbing (state object per message, the message's own MsgMetadata, fail_action applied at every stage) delivers "
        "exactly those verdicts is what the differential runs and the monitor check",
        "a flaky destination block (flag f) is modelled by MFaults.withDeadBlocks: the failing CheckStateForMsg stands "
        "after checks that already have their state, so checkStates returns out of its creation loop before any Check* "
        "call and before anything is recorded - the point and the effect of a failing RewriteRcpt of the source group "
        "(refused right before the block's checks; C06_dead_block_takes_no_recipient); a CheckStateForMsg that fails for "
        "some messages only, or after states were created earlier in the same loop, is not generated",
        "how the client spells the domain of a recipient (upper / mixed case) is not an input of the model: the endpoint "
        "normalises it (address.CleanDomain, as the harness does) before the pipeline sees the address; the LMTP "
        "per-command bookkeeping (one failure status per accepted RCPT command of an address, a command without one is "
        "answered 250) is the harness's copy of endpoint/smtp statusWrapper",
        "how the configuration text spells the check list of a scope (own `check { }` directives or a leading reference "
        "`check &name` to a named top-level `checks` block, op token g=) is not an input of the model: a scope is its list "
        "of checks; the driver validates and drops the token, the parser-built pipeline must behave as the list says",
        "a RCPT command that a global / source modifier expands into several addresses (alias ops, TestVerifC06Alias) is "
        "NOT an input of the Lean model (its modifiers are identities): those runs are judged by the monitor only - each "
        "result is a recipient of the message (shown once to every check of the block that handles it, its reject / "
        "quarantine verdicts enforced); the runner's replay of earlier recipients to lazily created states is tolerated "
        "there (a quarantine it raises is allowed, not demanded)",
    ]
    return c.finish(
        rule="random pipelines: 1-4 scripted checks (thorough: up to 7) placed in 1-3 of global / source / 1-3 destination blocks "
        "(the same check in several blocks), a verdict per check for connection, sender, body and each recipient "
        "(none / ignore-with-reason / quarantine / reject, some with pre-set flags as dnsbl and milter return them, "
        "densities 0-30%) produced by the real FailAction.Apply, DMARC off / none / quarantine / reject through the real "
        "verifier, 1-3 recording targets (atomic or per-recipient, 25% refusing quarantined messages like target.remote) "
        "shared between blocks, envelopes of 1-3 recipients (thorough: up to 6) routed to different blocks with repeated "
        "recipients, seeded delays per check and stage; 12% of the messages arrive already flagged (MsgMetadata.Quarantine "
        "set before Start: the pipeline as the target of another one); 15% of the cases are two REAL pipelines, the second "
        "one (own 1-4 scripted checks in its own global / source / destination blocks, own DMARC setting, own 1-3 recording "
        "targets of which half refuse quarantined messages) used as a target of 1-3 destination blocks of the first, alone or "
        "next to its own targets, with a quarantine by a check or the DMARC policy of the outer pipeline in every second of "
        "them - the oracle demands the flag at every target behind the nested pipeline; every modifier group of the "
        "pipeline (global, source block, each destination block) holds a scripted modifier and in 35% of the single-level "
        "cases some of its calls FAIL (op token m=: RewriteSender of the global / source group, RewriteRcpt of the global / "
        "source / the recipient's block's group for chosen recipients, RewriteBody of any group; temporary 4xx or permanent "
        "5xx error), favoured: one recipient of a destination block accepted, a LATER recipient (another address) of the SAME "
        "block failing in the block's own RewriteRcpt (or any later recipient failing in the global / source group), further "
        "recipients following, DATA sent, a check of the earlier recipient's block rejecting / quarantining the body - the "
        "oracle keeps demanding that verdict; each case is run on the REAL MsgPipeline the way the SMTP endpoint "
        "(Body) and the LMTP endpoint (BodyNonAtomic, then Commit) drive it, again with two other delay assignments, and "
        "with every ignore verdict removed; every run is compared with the Lean model (command replies, per-recipient "
        "results, quarantine flag, hand-overs seen by the targets, per-state call logs) and judged by the oracle written "
        "from the property; plus the FailAction table and the real target.remote against a scripted next hop with the "
        "flag set before RCPT / before DATA; 18% of the messages have the null reverse-path (MAIL FROM:<>), 15% an IDN "
        "sender, a quoted local part with an at-sign in it or an upper-case spelling (op token f=); 28% of the cases are "
        "multi ops: ONE pipeline object built by the REAL configuration parser (cfgparser.Read + msgpipeline.New) from "
        "generated configuration text - 4-7 scripted checks (thorough: up to 9), every check of a scope in its own `check` "
        "directive (0-5 per scope, lists of 3 and 5 entries - which repeated append leaves with spare capacity - "
        "favoured), 1-3 source blocks (source s<k>.example bücher<k>.example { … }, default_source) with 1-3 destination "
        "blocks each and mostly checks of their own, a modify group per scope, 1-3 targets - and 1-3 (thorough: 4) "
        "transactions on it, each with its own sender (selecting a source block; the null reverse-path goes to "
        "default_source), mode, 1-3 recipients spread over the destination blocks, verdicts and delays for THIS message "
        "(reject density 0-8%, in 45% a check of the message's own source / destination block rejects or quarantines "
        "the body), 8% pre-flagged; their commands MAIL / RCPT… / DATA interleaved by a uniformly random merge (the "
        "schedule is part of the op line), then the same transactions one after the other and in a second random "
        "interleaving (own op lines): what a transaction shows must be the same (C06/schedule-dependent); every oracle "
        "rule is applied to every transaction on its own (the calls a message's state objects got, the deliveries made "
        "for it), a state object must only be asked while a command of its message runs (C06/cross-transaction-call) and "
        "be shown the sender, recipients and body of its message (C06/foreign-message-shown); "
        "round 8: the FailAction of every scripted check comes out of the REAL directive parser (ParseActionDirective; in "
        "multi ops `<x>_action` directives inside the check's configuration block through config.Map and "
        "FailActionDirective): 12% of the run ops and 10% of the multi ops write the three actions as generated directive "
        "lines (op token d=: lower-case / Capitalised / UPPER / mixed-case word, unknown words, no argument, optional "
        "custom reply code / enhanced code / text - well-formed, malformed, surplus), half of the tables as documented, the "
        "others with one deviating directive and a verdict that uses it at a random stage; a configuration the parser "
        "refuses is `load=refused` (the model's parseAction must agree), an accepted one must name a documented action "
        "(C06/invalid-action-accepted) and the run must enforce the meaning of the lower-case word (the verdict letters of "
        "the script are the documented meanings); TestVerifC06Action: ~200 directive lines, each accepted one used by a "
        "failing check at the connection, sender, recipient and body stage of a one-check pipeline; "
        "every scope (global, source, each destination block; parser-built pipelines too) independently has or has not a "
        "`modify` directive (block spec /n, source spec ~n, token nm=), in 35% of the cases with a recipient in such a block "
        "a check of that block rejects / quarantines the body; the body-stage calls of every applicable check are counted "
        "(exactly one per message); 14% of the run ops and 10% of the transactions of multi ops name one recipient in two "
        "RCPT commands (identical spelling or domain in upper / mixed case, any recipient in 6%), mostly with a check "
        "rejecting the body or DMARC reject; the LMTP driver keeps the endpoint's per-command books (a failure status uses "
        "up the oldest accepted command of the address, a command without one is answered 250): a refusal of DATA before "
        "the targets must refuse EVERY accepted command, the per-command answers (st=) are compared with the model and "
        "between the two body paths; "
        "round 9: 22% of the run ops give the DMARC part a scripted DNS world (op token w=): RFC5322.From at the "
        "organizational domain, in a subdomain or two labels below it (with a p=reject decoy at the name in between); at "
        "_dmarc.<From domain> and at _dmarc.<organizational domain> independently: no such name / empty answer / only "
        "non-DMARC TXT records (SPF, wildcard text) / one DMARC record alone or among such records / several DMARC records "
        "/ temporary failure; p and sp in {none, quarantine, reject}, sp also absent; identifiers failing, passing for an "
        "unrelated domain, or aligned; favoured (45%): a subdomain whose own _dmarc name has no DMARC record (half of them: "
        "only stray TXT records) and a policy at the organizational domain, half of those with no check verdict at all; "
        "the oracle computes the published policy from the world by the steps of RFC 7489 6.6.3 (not by internal/dmarc): "
        "quarantine => every target sees the flag, reject => DATA refused and no target gets the body; 14% of the run ops "
        "turn 1-2 targets into REAL target.queue objects (NewQueue + Init from configuration, own spool, max_tries 1) in "
        "front of the recording target (40% refusing quarantined messages like target.remote), in 70% with a quarantine "
        "verdict of an applicable check at a random one of the four stages: the flag / refusal oracle is evaluated at the "
        "target behind the queue (violations name the queue hop); "
        "round 10: in 40% of the multi ops some of the checks (op token sl=<ids>; 45% of the multi ops with two or more "
        "transactions additionally the favoured situation below) are REAL internal/check stateless checks "
        "(check.RegisterStatelessCheck, one registered module per check id, a fresh instance per pipeline, configured with "
        "`fail_action <word>` when every reason-carrying verdict of the check names one action, action ignore with "
        "pre-applied results otherwise): the registered functions decide about the message whose MsgMetadata the stateless "
        "state object hands them (the script is found by StatelessCheckContext.MsgMeta.ID), a wrapper keeps the books and "
        "compares that message with the one the state object was created for (C06/foreign-metadata-shown); 4% of the "
        "destination blocks of multi ops (and the favoured ones) are flaky (block flag f): they list one more check "
        "whose CheckStateForMsg fails for every message (backend down, 451), placed right after the block's leading "
        "checks that are global / source checks too - a RCPT accepted into such a block is C06/stage-not-seen; "
        "favoured: stateless check X in the global scope AND in the destination block of the first recipient of "
        "transaction 0, where either a block-only check Y rejects the connection / sender it is shown late or the block is "
        "flaky with X listed first (both make checkStates close the states of the group, X's live one included), schedule "
        "MAIL(0) RCPT(0) MAIL(1) then a random merge, X rejecting a later recipient / rejecting or quarantining the body of "
        "transaction 0 and saying nothing about transaction 1; "
        "round 11: 22% of the multi ops declare a named check group (top-level `checks verif_c06_grp { }` registered as a "
        "module instance and initialised by the first reference, 1-5 members, 3 and 5 - lists with spare capacity - "
        "favoured; op token g=) that 2-4 scopes (global / source / destination blocks, mostly on the path of a "
        "transaction) reference with `check &verif_c06_grp` as their first check directive, each followed by 1-2 `check { }` "
        "directives with checks of its own, 70% of the transactions with a verdict of such an own check (body, recipient, "
        "sender, connection); TestVerifC06Alias (~140 alias ops): one RCPT command expanded by the scripted modifier of "
        "the global or the source group into 2-4 addresses over 1-3 destination blocks (mostly one block), in 60% a "
        "reject / quarantine verdict of a check of the block about a LATER result, SMTP and LMTP body paths; "
        "distinct = distinct op lines",
        explanation="theorems over all configurations, envelopes, both body paths and all completion orders; model tied to "
        "check_runner.go / msgpipeline.go by differential runs on the real pipeline and by regenerated call lists (T1)",
        search=search,
    )
