"""C06 — check verdicts are always enforced and every check sees every stage once (DESIGN.md §4 C06)."""

PKGS = ["./internal/msgpipeline/"]


def harness(c, n, replay_ops=None):
    rc, out, outdir = c.go_harness(PKGS, "^TestVerifC06", n=n, replay_ops=replay_ops, timeout=1500)
    corr, _ = c.collect(outdir)
    c.correspond(corr)


def run(c):
    c.lean("C06")
    if c.replay:
        harness(c, 1, replay_ops=c.replay.get("replay_ops") or [])
    else:
        harness(c, 12000 if c.thorough else 600)

    def search():
        c.seed += 1000
        harness(c, 4000)

    return c.finish(
        rule="TODO",
        explanation="TODO",
        search=search,
    )
