"""C03 — every SMTP/LMTP mail transaction is finalised exactly once and matches its reply (DESIGN.md §4 C03)."""

PKGS = ["./internal/endpoint/smtp/"]


def harness(c, n, replay_ops=None):
    rc, out, outdir = c.go_harness(PKGS, "^TestVerifC03", n=n, replay_ops=replay_ops)
    corr, _ = c.collect(outdir)
    c.correspond(corr)


def run(c):
    c.lean("C03")
    if c.replay:
        harness(c, 1, replay_ops=c.replay.get("replay_ops") or [])
    else:
        harness(c, 120000 if c.thorough else 10000)

    def search():
        c.seed += 1000
        harness(c, 20000)

    return c.finish(
        rule="random SMTP and LMTP sessions against a REAL endpoint over loopback TCP (go-smtp server + maddy Session + msgpipeline built from configuration text): "
        "command scripts over {EHLO/LHLO/HELO (valid, wrong protocol, no argument, repeated mid-transaction), AUTH (good, bad), MAIL (ASCII, upper-case domain, null, non-ASCII with and without SMTPUTF8, "
        "syntax error, unknown parameter, oversize SIZE), RCPT (6 ids x 3 routed domains, upper-case domain, non-ASCII, syntax error, duplicate), DATA (plain, too many Received, oversize header, "
        "argument, cut in the middle + disconnect), BDAT (single LAST chunk, first chunk, more chunks, LAST chunk, no argument), RSET, NOOP, VRFY, unknown command, QUIT, abrupt disconnect}, "
        "with and without pipelining, deferred-reject and immediate-reject modes, 1-3 scripted targets (atomic or partial) behind generated routes (1-3 targets or a reject per domain), "
        "failures (temporary/permanent, density 0-70%) injected into check (connection, sender, recipient, body), modifier (init, sender, recipient, body) and every target operation "
        "(Start, AddRcpt, Body, per-recipient BodyNonAtomic status, Commit, Abort); observation = every reply code + per-target call log of every delivery + leaked permits + recovered panics, "
        "compared with the Lean model run on the same script (map iteration order of the fan-outs supplied as an oracle); distinct = distinct scripts",
        explanation="theorems over all command lists, configurations, fault plans and fan-out orders; the model (go-smtp connection layer + Session + msgpipelineDelivery) is tied to the code by differential runs of whole sessions",
        search=search,
    )
