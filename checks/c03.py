"""C03 — every SMTP/LMTP mail transaction is finalised exactly once and matches its reply (DESIGN.md §4 C03)."""

PKGS = ["./internal/endpoint/smtp/"]


def harness(c, n, replay_ops=None):
    rc, out, outdir = c.go_harness(PKGS, "^TestVerifC03", n=n, replay_ops=replay_ops)
    corr, _ = c.collect(outdir)
    c.correspond(corr)


def run(c):
    c.assumptions += [
        "limits, whole sessions (op lines `C03 s`): TakeMsg never times out (the session model has no capacity; the harness gives every concurrency limiter 16 or 20 permits, "
        "every rate limiter 400 tokens that are not refilled within a run, and a session holds at most one permit); the key of the `ip` scope is the same when the permit is taken and "
        "when it is released (the model counts permits per source key; the harness shows the server IPv4, IPv4-mapped, IPv6, zoned link-local and unix-socket peer addresses and reads "
        "the real limiter state, every bucket that exists, after the session)",
        "limits, time-outs (op lines `C03 t`): only the order of the scopes and the roll-back of Group.TakeMsg are modelled (takeMsg/releaseMsg/contend: whether a scope grants is a parameter); "
        "the 5 s deadline is the code's own and is waited for in real time, a handful of scenarios per run in parallel with the session runs",
        "targets, checks and modifiers are the scripted ones of harness/internal/verifshim/vc03 (results are a function of the MAIL/RCPT addresses and the X-Vc03 header field); "
        "a target operation either returns nil or an error, it does not panic or block (except Abort in the op lines `C03 a`, below)",
        "slow aborts (op lines `C03 a`, TestVerifC03SlowAbort): own scripted targets (1-3 per destination) whose Abort returns at once, after a delay (150 ms / 2.3 s in the quick tier, 1.2-11 s thorough) or "
        "when its context is done, with or without an error; the delays pass in real time, all scenarios of a run at once; there is no model run for these lines (the model's Abort fan-out has no time: "
        "C03_typestate covers it for targets that return), the rule - every delivery opened on a target is closed exactly once by the time Session.Logout has returned - is judged by the monitor alone; "
        "no verdict depends on the time anything took; a replay repeats the scenario up to 8 times (the order of the fan-out is a Go map order)",
        "MAIL parameters (op lines `C03 b`): the sender domain number of an `o` step also selects the parameters of its MAIL command (dom / 1000: none, REQUIRETLS without TLS, BODY=, SMTPUTF8, SIZE=, AUTH=, combinations); "
        "for the bucket model a variant is another source key, the parameters themselves are not modelled (the model predicts 250 for every one of them while the limiters grant)",
        "one global check, one global modifier, per-domain destination blocks with 0-3 targets; no source blocks, no per-destination checks/modifiers, no nested pipelines (op lines `C03 s`)",
        "one-to-many rewriting (op lines `C03 x`): a scripted table modifier (vc03.XMod) at each of the three rewriting stages of msgpipelineDelivery.AddRcpt - global `modify`, `modify` of the source block, `modify` of every "
        "destination block - with tables fixed per session (address -> 0-3 addresses, 8 ids x 3 routed domains + an unrouted one; ids 6 / 7 are refused by AddRcpt of target 0 / 1); the source-stage modifier hands out its stored "
        "slice, the others a fresh one with varying spare capacity; commands are sent one at a time (no pipelining, DATA only); the model (xAddRcpt / xRun) takes the tables from the op line; the session-level success theorem "
        "is proved for `C03 s` sessions, for `C03 x` the AddRcpt / Body / Commit level theorems (any tables, any state of the pipeline delivery) plus typestate and permits over whole sessions; "
        "LMTP with targets that report per recipient: two different RCPT TO arguments sharing an effective address are not generated (KF-C09-1, as above)",
        "recipient rewriting: the scripted modifier rewrites alias forms of a recipient family (alias of an alias -> alias -> mailbox, a second alias -> mailbox, every step into the next routed domain; "
        "the fault fields are kept); the model runs on the RCPT TO argument (key of every status) and the domain of the EFFECTIVE address (rewriteRcpt: any table). Two DIFFERENT RCPT TO arguments "
        "delivered under ONE effective address to a target that reports per recipient (LMTP) are not generated: the pipeline's reverse translation is a map keyed by the effective address "
        "(known finding KF-C09-1, judged by the C09 check); such recipient lists are generated with targets that do not report per recipient, chains without a shared effective address keep the reporting targets",
        "recipient spellings: RCPT TO arguments that are not the normalized form of the address (mixed-case / NFD / upper-case non-ASCII / quoted local part, upper-case or absolute domain, "
        "A- and U-label of the second name `dé<j>.example` of every routed domain) are generated for plain recipients and alias families alike; the model treats the ASCII ones like the plain address and the "
        "non-ASCII ones like its non-ASCII kind (553 without SMTPUTF8) - it runs on the RCPT command index, every status has to come back to the command it belongs to",
        "bucket tables (op lines `C03 b`): the bucket tables of the ip / source scopes are given 1-3 buckets and a 2 h reap interval through the exported fields of limiters.BucketSet (the constructor of limits.Group fixes "
        "20010 / 1 min), time passes by making every bucket look older (BucketSet reads time.Now() itself); limiters never block (16 permits, at most 7 sessions at once); the endpoint's backend is wrapped so that a panic "
        "inside Session.Logout is counted (C03/panic) instead of ending the test process; ip keys are IPv4 addresses",
        "go-smtp's parser and the TCP layer are outside the model: the model starts from the parsed command (token) and its well-formedness class; "
        "BDAT is only sent while the server holds an accepted recipient (a BDAT refused with 502 leaves its chunk on the wire to be parsed as commands)",
        "LMTP success theorem: proved for recipients whose address was accepted once in the transaction (C03_lmtp_success_stmt is the unrestricted statement; duplicates are covered by the differential runs only)",
    ]
    c.trusted_base += [
        "go-smtp fork github.com/foxcpp/go-smtp@v1.21.4-0.20250124171104-c8519ae4fb23 (conn.go) is modelled by hand as 'which Session callbacks a command triggers'; tied by T2 only",
        "the Go map iteration order of msgpipelineDelivery.deliveries is an oracle argument of the model (all theorems quantify over it); the harness reads the order off the target call log",
    ]
    c.lean("C03")
    if c.replay:
        harness(c, 1, replay_ops=c.replay.get("replay_ops") or [])
    else:
        harness(c, 120000 if c.thorough else 10000)

    def search():
        c.seed += 1000
        harness(c, 20000)

    return c.finish(
        rule="random SMTP and LMTP sessions against a REAL endpoint over loopback TCP (go-smtp server + maddy Session + msgpipeline built from configuration text): "
        "command scripts over {EHLO/LHLO/HELO (valid, wrong protocol, no argument, repeated mid-transaction), AUTH (good, bad), MAIL (ASCII, upper-case domain, null, non-ASCII with and without SMTPUTF8, "
        "syntax error, unknown parameter, oversize SIZE, nested), RCPT (6 ids x 3 routed domains, upper-case domain, non-ASCII, syntax error, duplicate; alias families rewritten by the modifier: a -> b with b supplied too, chains down to the mailbox, "
        "two aliases of one mailbox, an alias with its own rewriting result, in either order, members routed by different destination blocks, crossed with Body failures of atomic targets and body check / modifier failures), DATA (plain, too many Received, oversize header, "
        "argument, cut in the middle + disconnect), BDAT (single LAST chunk, first chunk, more chunks, LAST chunk, no argument), RSET, NOOP, VRFY, unknown command (incl. too many errors), QUIT, abrupt disconnect}, "
        "with and without pipelining, deferred-reject and immediate-reject modes, 1-3 scripted targets (atomic or partial) behind generated routes (1-3 targets or a reject per domain), "
        "failures (temporary/permanent, density 0-70%) injected into check (connection, sender, recipient, body), modifier (init, sender, recipient, body) and every target operation "
        "(Start, AddRcpt, Body, per-recipient BodyNonAtomic status, Commit, Abort); observation = every reply code + per-target call log of every delivery + leaked permits + recovered panics, "
        "compared with the Lean model run on the same script (map iteration order of the fan-outs supplied as an oracle); distinct = distinct scripts; "
        "peer address shown to the server (accepted net.Conn wrapped: loopback, IPv4, IPv4-mapped IPv6, IPv6 prefix address / hosts of one /64 / next /64, link-local with zone, unix socket) x "
        "6 limits blocks (concurrency and rate limiters in the all / ip / source scopes, either order, scopes missing); permits out per scope read from the real limiter state (all buckets); "
        "independently the typestate / reply / permit monitor (c03Monitor) judges every real session; "
        "plus limit time-outs (TestVerifC03LimitTimeouts): a session holding the single permit of the all / ip / source scope while 1-3 other sessions start a transaction and are refused with 451 "
        "when TakeMsg gives up, the limiter state compared before / after the time-outs and at the end; "
        "RCPT TO spellings that are not the normalized address (local part mixed case / NFD / upper-case non-ASCII / quoted, domain upper case / absolute / A-label / U-label of a second name of the routed domain, "
        "45% of the plain LMTP recipients, 18% SMTP) crossed with per-recipient body-stage failures for exactly these recipients; recovered panics are a violation of their own (C03/panic); "
        "plus bucket-table histories (TestVerifC03BucketReap, op lines `C03 b`): endpoints whose ip / source bucket tables hold 1-3 buckets with a reap interval passing in virtual time, "
        "sessions that keep a transaction open per key, floods of sessions with fresh keys (incl. refusals by a full table), time steps shorter and longer than the interval, a second and third transaction of a held key "
        "(same address and domain, same address only, same domain only), transactions ended by DATA / RSET / QUIT / abrupt close in any order; after EVERY step the real limiter state (users and every semaphore of every bucket) "
        "is compared with the transactions the client knows to be open, per scope and key, and with the Lean bucket model (BSt.steps); "
        "MAIL commands with parameters (REQUIRETLS on a connection without TLS, BODY=8BITMIME/7BIT, SMTPUTF8, SIZE=, AUTH=<>/mailbox, combinations; 55% of the scenarios) - a refused transaction holds no permit, an accepted one exactly its own; "
        "plus slow aborts (TestVerifC03SlowAbort, op lines `C03 a`): transactions over 1-3 scripted targets given up by RSET / QUIT / disconnect or failed at the body stage (first / last target) while Abort of the targets is "
        "quick, slow (returns after a delay longer than 2 s, or when its context is done) or failing; after Session.Logout every delivery opened on a target has to be closed exactly once (C03/delivery-never-closed, "
        "C03/delivery-closed-twice, C03/use-after-close) and every permit returned; "
        "plus recipients that stand for SEVERAL effective addresses (TestVerifC03Fanout, op lines `C03 x`): pipelines built from configuration text with a one-to-many table modifier at the global, source-block and "
        "destination-block stage (tables address -> 0-3 addresses generated stage by stage from what reaches the stage, expansion of the first / a middle / the last member of a list, members dropped, members routed by "
        "different destination blocks, rejecting blocks, unrouted domains, AddRcpt refusals for single effective addresses), 1-3 recipients, 1-2 transactions, SMTP and LMTP, atomic and per-recipient targets, Body / per-recipient / "
        "Commit failures; the monitor (c03XMonitor) computes the addresses an accepted recipient stands for from the tables alone and requires every one of them committed on every target of its block after a success reply "
        "(C03/success-reply-not-committed), nothing committed after a refusal before the commit step, and no committed address that no recipient stands for (C03/committed-for-foreign-address)",
        explanation="theorems over all command lists, configurations, fault plans and fan-out orders; the model (go-smtp connection layer + Session + msgpipelineDelivery) is tied to the code by differential runs of whole sessions",
        search=search,
    )
