"""C18 — failure reports are well-formed, name the right recipients, and cannot loop (DESIGN.md §4 C18)."""

PKG_DSN = ["./internal/dsn/"]
PKG_Q = ["./internal/target/queue/"]


def harness(c, n_gen, n_q, replay_ops=None):
    if replay_ops is not None:
        gen_ops = [o for o in replay_ops if o.startswith("C18 gen ")]
        q_ops = [o for o in replay_ops if o.startswith("C18 q ") or o.startswith("C18 loop ")]
        if gen_ops or not replay_ops:
            c.go_harness(PKG_DSN, "^TestVerifC18", n=1, replay_ops=gen_ops, name="dsn")
        if q_ops:
            c.go_harness(PKG_Q, "^TestVerifC18", n=1, replay_ops=q_ops, name="queue")
    else:
        c.go_harness(PKG_DSN, "^TestVerifC18", n=n_gen, name="dsn")
        c.go_harness(PKG_Q, "^TestVerifC18", n=n_q, name="queue")
    corr, _ = c.collect(c.work + "/out")
    c.correspond([x for x in corr if not x[0].startswith("C18 loop ")])


def run(c):
    c.lean("C18")
    if c.replay:
        harness(c, 1, 1, replay_ops=c.replay.get("replay_ops") or [])
    else:
        harness(c, 80000 if c.thorough else 3000, 60000 if c.thorough else 1500)

    def search():
        c.seed += 1000
        harness(c, 40000, 12000)

    c.assumptions += [
        "dns.SelectIDNA and the two library calls under address.SelectIDNA - idna.ToASCII(domain), NFC(idna.ToUnicode(domain)) - are parameters of the model (Idna.dom, DomConv); each run ships the table of the LIBRARY's results for the domains of the case (computed by the harness from x/net/idna + x/text, not through maddy's address package); address.Split / ToASCII / ToUnicode / SelectIDNA themselves are mirrored (Dsn.splitAddr, toASCII, toUnicode, selectIDNA)",
        "C18_lists_exactly_failed_under_original_addresses assumes RecordsRoot (the rewrite map names the sender's address directly): proved to be what ONE pipeline level produces (C18_one_pipeline_records_root); two nested levels violate it (C18_two_level_rewriting_counterexample, KF-C18-1)",
        "byte-level well-formedness of the MIME serialisation (go-message multipart writer, header folding) is not modelled: established per generated report by an independent stdlib parse (sampling) — C18_report_structure_partial is the proved part",
        "the theorems about attempt/emitDSN hold for an ARBITRARY per-recipient error function of the attempt; which error value Queue.deliver attributes to whom is mirrored by deliverErrs (Start / RCPT / DATA or per-recipient status / Commit), proved to have the classes of C01's deliver (deliverErrs_cls) and driven against the real queue with a scripted target failing at every stage",
        "the flattening of an error text into Diagnostic-Code (dsn.go fieldText, after fix 68bbb68) is Dsn.oneLine, total over all code-point strings (C18_flattened_text_has_no_line_break, C18_flattened_text_has_no_control); strings that are not valid UTF-8 and single lines over 900 octets are outside the generators (the human-readable part copies the text raw)",
        "msgpipeline.AddRcpt is outside the anchors: its recording of OriginalRcpts (three modifier stages, 1-to-N, nested pipelines) is the model's Rules/frontSteps/recordAll, tied by running the REAL pipeline(s) in front of the real queue; the scripted part is the modifier's rewrite table only",
    ]
    return c.finish(
        rule="(gen) dsn.GenerateDSN called directly on generated envelopes / reporting-MTA data / 0-4 recipient records (valid and invalid: empty or unconvertible addresses and host names, "
        "missing action, zero status class, *smtp.SMTPError / other / nil diagnostics, multi-line, non-ASCII, long and whitespace-heavy texts, texts with bare CR, CR CR LF, LF CR, NUL, "
        "other C0 controls, DEL, C1 / Unicode line separators, white space at either end or nothing else, a 300-octet word, 700-octet lines, 2.6 kB multi-line replies, texts that BEGIN like an IPv4 address / a version number / an enhanced status code of the same, the other, no or an impossible class / a basic code, signed, padded, full-width digits - with and without an enhanced code of the error itself), both flavours, 11 original headers; "
        "(q) the REAL queue (spool, time wheel, 1-3 attempts, JSON round trip of the metadata between attempts) behind — in 60% of the cases — a REAL msgpipeline.MsgPipeline built by msgpipeline.New "
        "(global / per-source / per-destination rewriting modifiers, aliases expanding 1-to-3, optionally a nested reroute pipeline; 38% of the rewriting steps change ONLY THE SPELLING of the recipient - "
        "letter case of local part / domain / both, NFC / NFD, A-labels / U-labels, trailing dot - alone, chained with real rewrites in the same or the nested pipeline, or taken by the nested pipeline alone; "
        "the rewritten recipients anywhere in the transaction, the sender "
        "rewritten by the pipeline) or handed to Queue.Start directly with a prepared OriginalRcpts (0-3 levels), on a scripted atomic or PartialDelivery target answering every stage: Start refused, "
        "1-6 recipients refused at RCPT, the message then refused at DATA (or per accepted recipient) or at Commit, error values "
        "generated from maddy's wrapping primitives (88% coherent, incl. annotations without enhanced code - 35% of those with a text that begins like an address / version / status code / reply code, the whole Diagnostic-Code field then compared exactly), senders null / rewritten / IDN / EAI, recipients incl. sibling "
        "chains, several failed members of one alias, two spellings of one mailbox differing in case, ASCII / upper-case / mixed-case / A-label / U-label / quoted / long / EAI spellings, local parts that are NOT in NFC "
        "(combining sequence, U+212B, conjoining jamo, decomposed inside a quoted string), with compatibility / full-width characters, with U+00DF / U+0130 in mixed case - for recipients, rewrite targets and senders, the domain-less postmaster (gen), HELO names incl. unconvertible ones (Received-From-MTA left out, the report still generated), bounce pipeline failing at Start / AddRcpt / Body / Commit; "
        "every report is serialised, parsed with net/mail + mime/multipart + net/textproto, rendered canonically and compared with the Lean model's report, the whole bounce-call trace "
        "and retry sets included; (loop) two real queues that are each other's bounce route with targets refusing everything; distinct = distinct op lines",
        explanation="theorems over all recipient lists, error values, rewrite maps, namings, IDNA behaviours and failing stages; model tied to queue.go/dsn.go by differential runs through the real queue "
        "and by a direct harness on GenerateDSN; independent Go monitor evaluates the property on every real execution",
        search=search,
    )
