"""C07 — DMARC verdict and action equal the specification (DESIGN.md §4 C07)."""

PKGS = ["./internal/dmarc/", "./internal/msgpipeline/"]


def harness(c, n, replay_ops=None, enum=None):
    env = {"VERIF_C07_ENUM": str(enum)} if enum else None
    rc, out, outdir = c.go_harness(PKGS, "^TestVerifC07", n=n, replay_ops=replay_ops, env=env)
    corr, _ = c.collect(outdir)
    c.correspond(corr)


def run(c):
    c.lean("C07")
    if c.replay:
        harness(c, 1, replay_ops=c.replay.get("replay_ops") or [])
    else:
        harness(c, 200000 if c.thorough else 60000, enum=600000 if c.thorough else 30000)

    def search():
        c.seed += 1000
        harness(c, 200000, enum=200000)

    c.assumptions += [
        "strings.EqualFold / strings.ToLower / x/net/publicsuffix are parameters of the model; the laws tying them to the hand-written "
        "organizational domains of the fixed domain set (MaddyVerif.C07.Laws) are evaluated on the real libraries by the `laws` op, not proved",
        "net/mail.ParseAddressList + address.Split (From field -> addresses) and go-msgauth dmarc.Parse (TXT -> record) are parameters: "
        "their real answers are shipped with every case; the monitor uses its own ground truth (generator shape, own tag reader) instead",
        "the resolver answers case-insensitively (mockdns lower-cases names); DNS answer classes: TXT list / not found / temporary / other error",
        "math/rand.Int31n(100) is an oracle argument; the harness fixes it with rand.Seed (go <= 1.23 semantics) for records with pct",
        "the signing identity (Identifier / header.i) of a DKIM result is an input of model and specification that neither reads (C07_verdict_ignores_dkim_identity, "
        "C07_spec_ignores_dkim_identity); it travels in the op line; the free-text Reason of a result and the fields of results of other methods are generated but not modelled",
        "how the checks' verdicts reach applyResults (checkRunner.runAndMergeResults via checkStates / checkRcpt / checkBody) is modelled by CheckRes / mergedResults / mergedQuarantine / pipelineChecks: "
        "one result-reporting check per block (results of several checks of ONE block are merged in goroutine completion order - not explored), a check answering Reject ends the command with its own reply "
        "before applyResults and is outside the model; FailAction.Apply is run for real by the harness but not modelled",
        "routing blocks between the DMARC-evaluating pipeline and the storage target (nested msgpipelines sharing the message's MsgMetadata, `deliver_to &local_routing`) are modelled by "
        "applyResultsRouting / routed: per block only whether its own checks flag the message; the blocks have no DMARC of their own, no modifiers and one target; what their checks report besides the flag is not modelled",
        "asynchronous policy lookup: the model of the hand-off (Model/Dmarc.lean: timedLookup, pipelineBody) takes the stage at which each DNS answer arrives and "
        "the stage after which the lookup's context is cancelled; for the code (context of Body, cancelled by close() only) C07_answer_timing_irrelevant proves the "
        "decision independent of the schedule; the harness resolver honours its context like net.Resolver (a lookup cancelled before its answer arrived ends with a "
        "non-temporary DNSError) and answers on virtual time (stages = check blocks); real-time timeouts inside the code are not explored",
    ]
    return c.finish(
        rule="cases = (From header shape: one/none/several addresses or fields, 8 address syntaxes, display names net/mail refuses - encoded-words in charsets without decoder, "
        "unquoted specials, unterminated comments/quotes, non-UTF-8 bytes - in front of one or several addresses and in groups, the domain the case is built around on the first, "
        "last or a middle address) x (pipeline runs: 1-3 check blocks global/source/recipient reporting the results piecewise, Body or BodyNonAtomic, every DNS answer arriving at "
        "once / while the checks of block k run / after all checks, resolver honouring context cancellation) x (what _dmarc.<author> and _dmarc.<org> answer: "
        "record / junk TXT / empty / multiple / invalid / NXDOMAIN / SERVFAIL / timeout / other error) x (p, sp in none|quarantine|reject|absent; adkim, aspf in r|s|absent; "
        "pct absent|100|partial) x (0-7 DKIM results + 0-2 SPF results, values and identifier domains drawn from a fixed set of 34 names with hand-written "
        "organizational domains: exact, other spelling, subdomain, sibling, public suffix, other registrant, unrelated) x (signing identity header.i of every DKIM result, 24 forms "
        "relative to d= and to the author domain: absent, @d, user@d, @sub.d / user@sub.sub.d with the author domain as that subdomain when it lies below d=, the author domain or a name "
        "below it whatever d= is, another domain, d= as a suffix off a label boundary, parent/sibling, upper case, IDN U-/A-labels, malformed, over-long; results without d= naming a domain in i= only) "
        "x (how each result-reporting check hands its verdicts to the pipeline: at the CheckConnection / CheckSender / CheckRcpt / CheckBody stage, bare or - built with the real FailAction.Apply - "
        "with a Reason and neither Reject nor Quarantine (action ignore; check.spf leaving the decision to DMARC), with Reason and Quarantine (own action quarantine), with header fields of its own, "
        "the same check referenced by the later blocks again; `W` group) "
        "x (0-3 routing blocks - nested pipelines sharing the message's metadata, the stock `deliver_to &local_routing` shape - between the evaluating pipeline and the storage target that observes the flag: "
        "without checks, with checks that have nothing to say at the global / recipient level, with a check that flags the message itself; `N` group) "
        "x (0-2 results of other methods saying pass for the author domain: iprev, domainkeys, sender-id, auth, upstream dmarc, generic dkim/spf/arc/dkim-atps; free-text reasons on every result); quick: random sample through the real "
        "Verifier and through the real pipeline; plus a strided sweep (offset by the seed) of the property's product (2.4e6 points: 6 author domains x 8 lookup outcomes x p x sp x adkim x aspf x 7 SPF values x 5-8 SPF identities x 1-2 DKIM results over value x identifier), quick 1/80, thorough 1/4; every pair of names through the real isAligned; "
        "distinct = distinct op lines",
        explanation="theorem model = specification for all result lists, headers, resolvers and primitive implementations satisfying the stated laws; "
        "model tied to internal/dmarc and the pipeline by differential runs; property evaluated on the real executions by an independent oracle",
        search=search,
    )
