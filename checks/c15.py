"""C15 — sender authorisation (DESIGN.md §4 C15)."""

PKGS = ["./internal/check/authorize_sender/", "./internal/endpoint/smtp/"]


def harness(c, n, replay_ops=None):
    rc, out, outdir = c.go_harness(PKGS, "^TestVerifC15", n=n, replay_ops=replay_ops)
    corr, _ = c.collect(outdir)
    c.correspond(corr)


def run(c):
    c.lean("C15")
    if c.replay:
        harness(c, 1, replay_ops=c.replay.get("replay_ops") or [])
    else:
        harness(c, 300000 if c.thorough else 12000)

    def search():
        c.seed += 1000
        harness(c, 60000)

    c.assumptions += [
        "the configured normalisation functions (authz.NormalizeFuncs) and net/mail's address parser are parameters of the model; "
        "their results are shipped per case; the monitor judges the real decisions against the structure the header bytes were rendered from",
        "table.file reloads a file only when its time stamp is not older than the one loaded last and the last change is at least half a "
        "reload interval ago: the harness gives every edit a newer stamp that lies years in the past (no dependence on the clock); "
        "the file-history model covers well-formed files, an unparsable file and a missing file",
        "the monitor's reference normalisation (vc15.RefNorm) is written from the documentation of the settings with the PRECIS / IDNA / NFC "
        "libraries directly; for `auto` it decides plainly valid and plainly invalid addresses and leaves the rest (quoted local parts, "
        "unusual characters) to the coarse spelling equivalence; strconv.Atoi in the action grammar is modelled on unsigned decimal tokens",
        "table.chain: the documentation says what happens to ONE value that a step's table does not hold; with several values at once the "
        "monitor accepts both readings (the whole step decides / value by value): an acceptance is a violation when NO reading entitles the "
        "sender, a refusal when EVERY reading entitles it; the Lean model mirrors the code (the whole step decides)",
        "SASL PLAIN sessions of the identity family run with the endpoint's auth_map_normalize and the check's auth_normalize set to the same "
        "setting, without auth_map; the credential store gives every account name its own password (C14 owns the authentication decision)",
        "table.email_with_domain: the monitor's reference is written from the module's documentation (the WHOLE key is the local part of every "
        "value, quoted when it holds a space or an RFC 5322 special other than the dot); address.QuoteMbox is C17's model on the Lean side",
        "neighbour sessions: the second check of the group and the order in which the two checks finish a stage are scripted by the harness "
        "(the later one starts its work after the method of the earlier one returned and its goroutine had time to report); nothing is asserted "
        "about time, a wait that runs out is counted and the exchange is not compared with the model; the full check runner is C06's property, "
        "C15 models the decision of runAndMergeResults only (mergeResults)",
        "place sessions: the pipeline with the check group in the global / source / destination block is built by an overlay-only constructor "
        "(msgpipeline.VerifC15Placed: the structure parseMsgPipelineRootCfg yields for `destination relay.example { check {…} deliver_to … } "
        "default_destination { deliver_to … }`); the model of the place (placedRcpts) covers the default defer_sender_reject and a check group "
        "whose only rejecting member at the sender stage is authorize_sender; the configuration asks nothing for recipients of a block without checks",
    ]
    return c.finish(
        rule="the check group with authorize_sender declared GLOBALLY, in the SOURCE block or in a DESTINATION block (states created at the first "
        "RCPT TO of the block, the sender verdict replayed) of a real pipeline behind the real endpoint, the client naming 1-3 recipients of the "
        "checked and of an unchecked block in every order: a message that reaches a target behind the check must come from an entitled client "
        "(C15/session-envelope-sender-not-entitled, C15/header-author-not-entitled/session) and the accepted / refused recipients are compared "
        "with the model's placedRcpts (`C15 placed`); "
        "authorize_sender in a check group next to a SECOND check (real msgpipeline behind a real endpoint): the neighbour answers quarantine / "
        "reject / a reason without action / nothing at the connection, sender, recipient or body stage or at every stage, and finishes the stage "
        "before or after authorize_sender (both orders steered by the harness): a delivered message must still come from an entitled client "
        "(C15/session-envelope-sender-not-entitled, C15/header-author-not-entitled/session), the neighbour's own verdict must survive "
        "(C15/session-quarantine-verdict-lost, C15/session-delivered-though-a-check-rejected) and the outcome of the stage is compared with the "
        "model's mergeResults (`C15 merge`); user_to_email = the REAL table.email_with_domain (directly, and as the last step of a table.chain "
        "after an accounts table / email_localpart / identity) with 1-3 domains and account names of mixed kinds: plain names, names that are "
        "addresses of another realm (local part = the name of another account), names that need quoting; senders = the local part of the login "
        "name under a configured domain, the login name itself, other names; reference = the whole name is the local part; "
        "user_to_email / prepare_email backed by the REAL table.chain built through the configuration path (1-3 steps, step / optional_step, "
        "static / single-valued / failing / identity / email_localpart step tables over one small pool of names: 0-3 values per key, values that are "
        "keys of the same and of the next step), senders drawn from what the composition of the step tables gives the user, from what a step applied "
        "more than once would give, and from the rest; reference = relational composition computed by the harness "
        "(C15/envelope-sender-not-entitled, C15/entitled-sender-refused, C15/entitled-author-refused); SMTP sessions send AUTH PLAIN with every "
        "kind of authorization identity (empty, identical, letter-case / NFD / width / A-label / U-label variant, another account, garbage) "
        "against accounts that differ only in what the automatic normalisation folds, each with its own password and entitlements, under every "
        "normalisation setting: the identity the check is shown must be the account whose password was verified "
        "(C15/session-identity-not-the-authenticated-one) and its entitlements decide; "
        "the three action directives are written in every documented form (bare reject / quarantine / ignore, reject|quarantine <code> "
        "[<enhanced code> [<text>]] with 4xx and 5xx codes, any text; ~1% forms that are no action: Init must refuse them as the model of the "
        "grammar says) and parsed by the real ParseActionDirective through config.Map; the monitor demands rejection / the quarantine flag by the "
        "WORD of the directive that the documentation assigns to the refusal (unauth_action, no_match_action, err_action), whatever reply is "
        "configured; entitlement is judged LITERALLY on the prepared form computed by an independent reference of the configured "
        "from_normalize / auth_normalize setting (grid of 7x7 settings; fixed grid: 6 settings x spellings differing from an entry in letter case "
        "of the local part, letter case / A-label / U-label of the domain, NFD, fullwidth; entries with capital letters); "
        "every check instance is built through the real configuration path (block written as text with directives that have their "
        "default left out in every combination and the others in any order -> configuration parser -> config.Map -> Init), twice per case "
        "(16 times on replay), the instances must decide alike; histories of a user_to_email table kept in a file (real table.file: entries "
        "added / moved / removed, file emptied / comments only / deleted / recreated / damaged, reloads through the reload hook) with the "
        "table content and the decisions after every reload compared with the model and, by the monitor, with the CURRENT file content; "
        "random configurations (7x7 normalisation settings, reject/quarantine/ignore actions, identity / single / static / failing / "
        "email_localpart(_optional) / file tables for user_to_email and prepare_email with address, domain and '*' entries in normalised or variant "
        "spelling and entries that name nothing: empty string, bare local part, half an address) x connection state (local, "
        "unauthenticated, user name spelling variants) x messages rendered from a structure: MAIL FROM (also without a domain: null sender, bare "
        "postmaster, bare local part, halves) and 0-3 From / 0-2 Sender fields with "
        "1-3 addresses, groups, quoted / encoded-word (UTF-8 and charsets net/mail does not know) / comment display names that look like "
        "addresses or decode to RFC 5322 specials, quoted local parts, case / NFD / "
        "fullwidth / A-label spellings, near-miss domains, folding, field-name case, 10% mutated (ill-formed) field bodies; the real check "
        "parses the bytes and decides; the Lean model decides on the shipped parse; distinct = distinct op lines",
        explanation="theorems for all tables, normalisers, header structures of any size; model tied to the code by differential runs; "
        "the monitor evaluates the property text on the real decisions using the generator's ground truth",
        search=search,
    )
