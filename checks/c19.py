"""C19 — connection pool: one owner at a time, closed once, no hand-out after close/expiry/shutdown (DESIGN.md §4 C19)."""
import os
import re

from vlib import REPO

PKGS = ["./internal/smtpconn/pool/", "./internal/target/remote/"]
POOL = "internal/smtpconn/pool/pool.go"
REMOTE = "internal/target/remote"
FN = {"CleanUp": "c", "Get": "g", "Return": "r", "Close": "s", "cleanUpTick": "t"}
# never run by a scheduled goroutine: the constructor (the goroutine it starts — the pool's own ticker goroutine —
# becomes the scheduler's daemon task: vcoop.GoDaemon)
UNSCHEDULED = {"New"}
# ordered synchronisation skeleton the model (Model/Pool.lean) was written for: per function, the kinds of
# the points in source order (lock acquisition, map-range iteration, close, drain receive, select, go, stop send)
EXPECT = {
    "c": ["lock", "iter", "close", "drain", "go"],
    "g": ["lock", "close", "drain", "go", "sel", "go", "go"],
    "r": ["lock", "iter", "close", "drain", "sel", "go"],
    "s": ["stop", "lock", "iter", "close", "drain"],
    "t": ["wait"],
    "New": ["daemon"],
}


def rewrite(src):
    """Insert a scheduler yield before every lock acquisition, channel operation and map-range iteration of
    pool.go's CleanUp/Get/Return/Close, turn `go x.Close()` into a scheduled task, and route time.Now through
    the scheduler's clock.  Purely textual, statement by statement; nothing else is changed.
    Returns (new source, {fn: [kinds in source order]})."""
    out = []
    counts = {}
    fn = None
    lines = src.split("\n")
    closers = {}  # line index -> replacement lines (the end of a construct that was opened by a rewritten line)
    nlabel = [0]
    fname = [None]

    def hit(kind):
        counts.setdefault(fn, []).append(kind)

    def block_end(start, ind, tail="}"):
        """index of the line that closes the block opened at line `start` (gofmt: same indentation)"""
        for j in range(start + 1, len(lines)):
            if lines[j] == ind + tail:
                return j
        return None

    for idx, line in enumerate(lines):
        if idx in closers:
            out.extend(closers[idx])
            continue
        m = re.match(r"^func (?:\(\w+ \*?P\) )?(\w+)\(", line)
        if m:
            # functions the model does not know (helpers a changed tree may have) get the same yields under the
            # label "x": the lockstep comparison fails on them, the scheduler and the monitor keep working
            fn = None if m.group(1) in UNSCHEDULED else FN.get(m.group(1), "x")
            fname[0] = m.group(1)
        elif re.match(r"^func ", line):
            fn = None
            fname[0] = None
        line = line.replace("time.Now()", "vcoop.Now()")
        ind = re.match(r"^(\s*)", line).group(1)
        if fn is None:
            m = re.match(r"^\s*go ([\w.]+\(.*\))\s*$", line)
            if m and fname[0] == "New":
                # the background goroutine the constructor starts (cleanUpTick): the scheduler's daemon task
                counts.setdefault("New", []).append("daemon")
                out.append('%svcoop.GoDaemon(func() { %s })' % (ind, m.group(1)))
                continue
            out.append(line)
            continue
        # the ticker of the pool's own goroutine fires when the schedule says so
        line = line.replace("time.NewTicker(", "vcoop.NewTicker(")
        m = re.match(r"^\s*([\w.]+)\.(R?)Lock\(\)\s*$", line)
        if m:
            # every acquisition of a lock (keysLock; whatever lock a changed tree has): sync.Mutex, or either side of a
            # sync.RWMutex — reader acquisitions are schedulable points of their own (kind "rlock": several readers
            # together, writers exclusive).  Method values: the lock may be a value or a pointer field.
            kind = "rlock" if m.group(2) else "lock"
            hit(kind)
            out.append('%svcoop.LockF("%s.%s", %s.Try%sLock, %s.%sLock)' % (ind, fn, kind, m.group(1), m.group(2), m.group(1), m.group(2)))
            continue
        m = re.match(r"^\s*for (\w+), (\w+) := range p\.keys \{\s*$", line)
        if m:
            hit("iter")
            out.append(line)
            out.append('%s\tvcoop.Point("%s.iter", %s.c)' % (ind, fn, m.group(2)))
            continue
        m = re.match(r"^\s*close\((.+)\)\s*$", line)
        if m:
            hit("close")
            out.append('%svcoop.Point("%s.close", %s)' % (ind, fn, m.group(1)))
            out.append(line)
            continue
        m = re.match(r"^\s*for (\w+) := range ([\w.]+) \{\s*$", line)
        if m:
            hit("drain")
            v, ch = m.group(1), m.group(2)
            out.append("%sfor {" % ind)
            out.append('%s\tvcoop.Point("%s.drain", %s)' % (ind, fn, ch))
            out.append("%s\t%s, ok := <-%s" % (ind, v, ch))
            out.append("%s\tif !ok {" % ind)
            out.append("%s\t\tbreak" % ind)
            out.append("%s\t}" % ind)
            continue
        if re.match(r"^\s*select \{\s*$", line):
            nxt = lines[idx + 1] if idx + 1 < len(lines) else ""
            m = re.match(r"^\s*case (?:\w+(?:, \w+)? :?= )?<-(.+):\s*$", nxt) or re.match(r"^\s*case ([\w.]+) <- .+:\s*$", nxt)
            end = block_end(idx, ind)
            blocking = end is not None and not any(lines[j] == ind + "default:" for j in range(idx + 1, end))
            if blocking:
                # a select without default waits: under the cooperative scheduler it becomes a poll that parks
                # again when no case is ready (as a failed lock attempt does); a changed tree may wait for a
                # context, a timer or a result channel here (the unchanged pool.go has no such select)
                hit("wait")
                nlabel[0] += 1
                lab = "vcoopWait%d" % nlabel[0]
                chans = []
                for j in range(idx + 1, end):
                    mc = re.match(r"^%scase (?:\w+(?:, \w+)? :?= )?<-(.+):\s*$" % re.escape(ind), lines[j])
                    if mc:
                        chans.append(mc.group(1))
                # outside the scheduler (other tests; a task released at the end of a case) the select really waits
                out.append("%s%s:" % (ind, lab))
                out.append("%sif !vcoop.Scheduled() {" % ind)
                out.extend(l.replace("time.Now()", "vcoop.Now()") for l in lines[idx:end + 1])
                out.append("%s} else {" % ind)
                out.append('%svcoop.Wait("%s.wait"%s)' % (ind, fn, "".join(", " + c for c in chans)))
                out.append(line)
                closers[end] = [ind + "default:", ind + "\tvcoop.Blocked()", ind + "\tgoto " + lab, ind + "}", ind + "}"]
                continue
            if m:
                hit("sel")
                out.append('%svcoop.Point("%s.sel", %s)' % (ind, fn, m.group(1)))
            out.append(line)
            continue
        m = re.match(r"^\s*<-(.+)$", line)
        if m:
            # a bare blocking receive (`<-ctx.Done()`, `<-done`): the same poll
            hit("wait")
            nlabel[0] += 1
            lab = "vcoopWait%d" % nlabel[0]
            out += ["%s%s:" % (ind, lab), ind + "if !vcoop.Scheduled() {", line, ind + "} else {",
                    '%svcoop.Wait("%s.wait", %s)' % (ind, fn, m.group(1)), ind + "select {",
                    "%scase <-%s:" % (ind, m.group(1)), ind + "default:", ind + "\tvcoop.Blocked()", ind + "\tgoto " + lab, ind + "}", ind + "}"]
            continue
        m = re.match(r"^\s*go (\w+)\.Close\(\)\s*$", line)
        if m:
            hit("go")
            out.append('%svcoop.Go("cc", func() { %s.Close() })' % (ind, m.group(1)))
            continue
        if re.match(r"^\s*go func\(\) \{\s*$", line):
            # any other goroutine the pool starts (a changed tree: a probe, a watchdog, a deferred close) is a
            # scheduled task too — otherwise it would run outside the scheduler and call into it
            end = block_end(idx, ind, "}()")
            if end is not None:
                hit("gofn")
                out.append('%svcoop.Go("", func() {' % ind)
                closers[end] = [ind + "})"]
                continue
        m = re.match(r"^\s*go ([\w.]+\(.*\))\s*$", line)
        if m:
            hit("gofn")
            out.append('%svcoop.Go("", func() { %s })' % (ind, m.group(1)))
            continue
        m = re.match(r"^\s*([\w.]+) <- (.+?)\s*$", line)
        if m:
            # a send statement: the stop signal for the ticker goroutine (unbuffered: completes only while that goroutine
            # is parked in its select) — or whatever a changed tree sends; vcoop.Send is the scheduler's rendezvous
            kind = "stop" if m.group(1).endswith("cleanupStop") else "send"
            hit(kind)
            out.append('%svcoop.Send("%s.%s", %s, %s)' % (ind, fn, kind, m.group(1), m.group(2)))
            continue
        out.append(line)
    res = "\n".join(out)
    res = res.replace('import (\n', 'import (\n\t"github.com/foxcpp/maddy/internal/verifshim/vcoop"\n', 1)
    return res, counts


def reclock(src):
    """Route the clock of a file of the remote target (every file that touches mxConn.lastUseAt) to vcoop: the
    harness of the real connection type moves the time by hand.  Purely textual; nothing else is changed."""
    new = src.replace("time.Now()", "vcoop.Now()").replace("time.Since(", "vcoop.Since(")
    # the monitor counts the calls of Close() per connection object (closed exactly once): a call-back at the entry
    new = re.sub(r"(?m)^(func \((\w+) \*mxConn\) Close\(\) error \{)$", r'\1\n\tvcoop.Event("mxclose", \2)', new)
    if new == src:
        return None
    new = re.sub(r"(?m)^(package \w+[^\n]*\n)", r'\1import "github.com/foxcpp/maddy/internal/verifshim/vcoop"\n', new, count=1)
    if re.search(r'(?m)^\s*(import\s+)?"time"\s*$', new):
        new += "\nvar _ = time.Now // (the overlay may have removed the last use of the package)\n"
    return new


def instrumented(c):
    src = open(os.path.join(REPO, POOL)).read()
    new, skel = rewrite(src)
    p = os.path.join(c.work, "pool_instrumented.go")
    open(p, "w").write(new)
    extra = {}
    rdir = os.path.join(REPO, REMOTE)
    for fn in sorted(os.listdir(rdir)):
        if not fn.endswith(".go") or fn.endswith("_test.go"):
            continue
        rsrc = open(os.path.join(rdir, fn)).read()
        if "lastUseAt" not in rsrc:
            continue
        rnew = reclock(rsrc)
        if rnew is not None:
            rp = os.path.join(c.work, "remote_reclocked_" + fn)
            open(rp, "w").write(rnew)
            extra[os.path.join(rdir, fn)] = rp
    if not any(o.get("kind") == "T1" for o in c.obligations):
        ok = skel == EXPECT
        c.obligations.append(dict(
            name="T1: ordered lock/channel-operation skeleton of pool.go CleanUp/Get/Return/Close equals the one Model/Pool.lean was written for",
            kind="T1", ok=ok, detail="" if ok else "expected %r got %r" % (EXPECT, skel)))
        if not ok:
            c.proof_broken.append("pool.go synchronisation skeleton changed: " + repr(skel))
    extra[os.path.join(REPO, POOL)] = p
    return extra


def harness(c, n, replay_ops=None, race=False, name=None, env=None):
    ov = instrumented(c)
    rc, out, outdir = c.go_harness(PKGS, "^TestVerifC19", n=n, replay_ops=replay_ops, extra_overlay=ov, race=race, name=name, env=env)
    corr, _ = c.collect(outdir)
    c.correspond(corr)


def run(c):
    c.lean("C19")
    if c.replay:
        harness(c, 1, replay_ops=c.replay.get("replay_ops") or [])
    elif c.thorough:
        harness(c, 300000, name="main")
        c.seed += 7919
        harness(c, 30000, race=True, name="race")
        c.seed -= 7919
    else:
        harness(c, 8000)

    def search():
        c.seed += 1000
        harness(c, 40000, name="search")

    c.assumptions += [
        "Go runtime semantics of sync.Mutex, buffered channels (FIFO, close, receive from closed), select-with-default and map iteration are the definitions of Model/Pool.lean",
        "atomicity: one model step = the code between two synchronisation points (lock acquisition, channel operation, map-range iteration, connection callback); "
        "unlocks and map accesses are merged into the preceding step because only the lock holder touches the map",
        "a pooled hand-out is timed at the channel receive that removed the connection from the pool (its linearisation point), not at the return of Get",
        "the idle stamp of a connection (LastUseAt) is written by its user and by cfg.New only, never by Usable() (C19_usable_keeps_idle_stamp, C19_pool_never_restamps); "
        "the real mxConn is held to this by the monitor of the remote-target harness (C19/usable-moved-idle-stamp) and by the T1 fingerprint of mxConn.Usable/LastUseAt/Close",
        "real mxConn objects are exercised on sequential histories only (one delivery step at a time; the one overlap is a delivery whose context ends while the next hop withholds "
        "its answer to the RSET probe of pool.Get); the interleavings are explored with instrumented connection objects",
        "cancellation: one context per worker / delivery, done when the schedule says so (Who.cancel; Canceled, or DeadlineExceeded for contexts with a deadline) and never live again; "
        "pool.go passes the context to cfg.New only, and cfg.New (a dial) fails under a context that is done — the harness's cfg.New and the real dialer of the remote target do",
    ]
    c.assumptions += [
        "the pool's ticker goroutine: a tick of its time.Ticker is taken only while the goroutine is parked in the select of cleanUpTick (Op.sweep; a tick that arrives while it is inside CleanUp is dropped — time.Ticker buffers one, "
        "which is the same as firing when it is back); the send on the unbuffered cleanupStop completes only while that goroutine is parked in the select (St.tkTask = none)",
    ]
    c.assumptions += [
        "a Target.Start refused by the message limits makes no pool call (the `mx` model replays r<j> as a no-op); remoteDelivery.Abort has the duties of Commit towards the pool; "
        "the limits themselves (internal/limits) are C11's subject — here they are the real ones, configured so that only the Starts the history asks to be refused ever wait",
    ]
    c.trusted_base += [
        "checks/c19.py rewriter (textual insertion of scheduler yields into pool.go at check time) and harness/internal/verifshim/vcoop (cooperative scheduler)",
        "checks/c19.py reclock (time.Now() of pool.go and of the remote-target files that stamp mxConn.lastUseAt is vcoop's manual clock in the overlay), the scripted go-smtp servers of the remote-target harness",
    ]
    return c.finish(
        rule="random cases: 1-8 workers running get/use/return/drop sessions on 1-3 keys, clean-up sweeps, at most one shutdown, clock ticks and connection breaks, "
        "MaxKeys 1-3, MaxConnsPerKey 0-3, MaxConnLifetime 0-4 s, StaleKeyLifetime 0-6 s; schedules: uniform, sticky (few pre-emptions), delay-bounded (<= 2 delays), "
        "targeted (Get parked after unlock while buckets expire / are swept / pool shuts down); the REAL pool.go (yields inserted before every lock/channel op) runs each schedule "
        "step by step under a deterministic cooperative scheduler; after every step the synchronisation point reached, and at the end the whole pool state, are compared with the Lean model's; "
        "full-map scenarios (MaxKeys live buckets with several idle connections, then returns and gets for further keys inside the lifetime); "
        "cancellation: the context of a worker is cancelled / times out as a scheduler decision (entry x<w>) at any point of the schedule, and in the cancel scenarios after a chosen number of steps "
        "of a Get on a bucket with idle (partly broken / expired) connections — before Get, at the lock, at the select, inside Usable(), inside the bucket drop, at whatever yield a changed tree has in between "
        "(goroutines and waiting selects of a changed pool.go are scheduled too); "
        "plus sequential histories of the REAL remote target (real remoteDelivery / mxConn / smtpconn over loopback SMTP servers for 3 domains, real pool, manual clock): deliveries opened and ended in any order, "
        "ticks around the idle lifetime (late returns), server-side connection drops, sweeps, deliveries whose context is cancelled / times out while the next hop withholds its answer to the RSET probe of pool.Get (op x<k>), MaxKeys 1/2/5000, conn_max_idle_count 0-3, conn_max_idle_time 1-150 s — compared with the model run sequentially (`C19 mx` lines); "
        "the pool's own ticker goroutine (cleanUpTick) is a task of the schedule in a third of the random cases and in the tick-shutdown scenarios (last program k.k…: its ticker fires when the schedule steps it while it is "
        "parked in its select): the tick is a schedulable event at every point of Close / Get / Return, also while a connection's Close() is in progress; the stop signal on the unbuffered cleanupStop is a rendezvous "
        "that completes only while the ticker goroutine is blocked in its select; liveness: every case is run until every goroutine has finished, a state in which no goroutine can move is C19/shutdown-blocked (somebody is inside Close) or C19/deadlock; "
        "mx: more overlapping deliveries to one destination than conn_max_idle_count (style overflow), Close() calls counted per mxConn object (C19/closed-twice), panics of the pool's own goroutines (C19/panic); "
        "mx: the target runs with a real limits.Group (all/ip concurrency 64, source concurrency 1): Starts refused by the message limits (op r<j>: source or global limit not obtained, context cancelled / past its deadline before or during the wait) "
        "at any point of 30 % of the histories, deliveries aborted instead of committed (op a); shutdown has a liveness obligation — Target.Close() returns once every operation of the history has returned (C19/shutdown-blocked, real-time guard 10 s) — "
        "and afterwards every connection that was returned to the live pool has been closed on the server side (C19/returned-conn-never-closed); "
        "run: lock acquisitions of either side of a sync.RWMutex are schedulable points (readers together, writers exclusive), scenario fresh-key (2-3 Returns to a key without bucket interleaved one synchronisation point at a time, then the key is asked for again / shutdown), "
        "an idle connection in a bucket that is not in the map of the live pool at quiescence is C19/conn-lost; "
        "distinct = distinct (case, schedule) lines",
        explanation="theorems over all schedules, any number of workers/keys; model tied to pool.go by step-level lockstep runs of the real code, and to the real connection type by sequential runs of the real remote target; "
        "independent Go monitors on connection objects (own records of owner, key and time of the last Return, last use; what the scripted servers saw)",
        search=search,
    )
