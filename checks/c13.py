"""C13 — DANE authentication accepts only a matching TLSA record and fails closed (DESIGN.md §4 C13)."""

PKGS = ["./internal/target/remote/"]


def harness(c, n, replay_ops=None):
    rc, out, outdir = c.go_harness(PKGS, "^TestVerifC13", n=n, replay_ops=replay_ops)
    corr, _ = c.collect(outdir)
    c.correspond(corr)


def run(c):
    # T1: switch case sets, return statements and branch conditions of verifyDANE / CheckConn, from the current tree
    c.extract("dane", "DaneFacts.lean")
    c.lean("C13")
    if c.replay:
        harness(c, 1, replay_ops=c.replay.get("replay_ops") or [])
    else:
        harness(c, 150000 if c.thorough else 4000)

    def search():
        c.seed += 1000
        harness(c, 40000)

    c.assumptions += [
        "TLSA.Verify (miekg/dns), Certificate.IsCA and Certificate.Verify (crypto/x509) are parameters of the model; "
        "their results are shipped per case (record/certificate matching is recomputed by the harness with SHA-256/512 directly)",
        "the two hypotheses of C13_authenticates_iff_spec on x509 (pools are sets; an empty root pool verifies nothing) are "
        "observed on the generated chains, not proved",
        "a completed handshake has at least one peer certificate, and tls.ConnectionState.ServerName reports the ServerName of the tls.Config the "
        "client made the handshake with (crypto/tls); WHICH configuration that is, on every path of connect()'s retry ladder, is modelled "
        "(C13_connect_servername_is_mx) and exercised end to end (op attempt)",
        "op attempt: the outcome of a handshake under a given tls.Config (verification error / other error / success) is a parameter of the model "
        "(Attempt.hello, any function); the driver instantiates it from crypto/x509 verdicts computed by the harness for the client's root pool",
        "a TLSA record whose association data has a length no digest of its matching type has matches no certificate (law MatchNeedsFit of "
        "C13_malformed_rrset_refused; the shipped match tables are computed by comparing the data)",
        "TLSA.Verify does not read the owner name of the record (hypothesis OwnerBlind of C13_owner_relabel_invariant; the match tables "
        "shipped per record are computed from the association data alone)",
        "tls.ConnectionState.VerifiedChains is non-empty exactly for a handshake that completed with certificate verification switched on "
        "(crypto/tls; ConnState.verified of the model, observed in op attempt); no function of the decision reads it "
        "(C13_pkix_result_not_an_input, C13_attempt_mismatch_refused_even_if_pkix)",
        "a crashed discovery: whether a panic was raised inside the lookup goroutine is a primitive result shipped to the model (ops cconn, attempt; "
        "injected through the policy's debug-log output, the context's Deadline method read by the miekg client, or an empty server list); "
        "the delivery's context ends once nobody can complete the future any more (the harness ends it when the future is empty and no goroutine "
        "started by PrepareConn is left; Future.GetContext returns a value that is set without looking at the context)",
        "the harness uses the DANE policy's delivery object only through danePolicy.Start and the methods of module.DeliveryMXAuthPolicy "
        "(PrepareConn, CheckConn); how the pending discovery is kept is not looked into. Op check obtains the discovery result it is about by "
        "running the real discovery against the scripted server (the error class shipped to the model is the one the scripted world produces "
        "by construction); net.DNSError values, which ExtResolver cannot return, are no longer fed to CheckConn",
        "the two root CAs of the harness are installed as the SYSTEM trust store of the test process (SSL_CERT_FILE / SSL_CERT_DIR set in a "
        "package-level initialiser and the pool loaded at once, before any test; self-check per test: exactly the PKIX-valid chains verify "
        "with Roots == nil): crypto/x509's fall-back from a nil pool to the system pool is observable; the model's x509 tables are computed "
        "with explicit (possibly empty) pools",
        "the MX host name reaches PrepareConn and CheckConn as the same string (attemptMX: record.Host both times); its spellings: MX record "
        "target (fully qualified, zone's case) and implicit MX (recipient domain as typed) — obtained in op attempt from the real lookupMX",
        "one AD bit per answer: for disc / conn / cconn / attempt the op line ships the A answer and the AAAA answer of the scripted world "
        "(`x/<a>/<aaaa>`, read from the script, not from CheckCNAMEAD) and the model's checkAddr combines them; the oracle of the monitor is "
        "RFC 7672 section 2.2 as the code documents it: the host is secure iff the address RRset that is consulted — A when the host has A "
        "records, else AAAA — came with AD (a signed alias alone also counts); the AD bit of the other address answer is not evidence about it",
        "'validly chains' is RFC 5280 path validation as crypto/x509 implements it at the time of the connection, for every certificate "
        "on the path, the matched trust anchor included (validity period, basicConstraints, path length, name constraints, extended key "
        "usage); the ground truth of the bad-path chains (P, Q, T, N, K, H, Y) is how they were built, self-checked per anchor against "
        "crypto/x509; the model asks its X.509 parameter one question (C13_one_x509_verdict_decides) and refuses on a negative answer "
        "(C13_invalid_path_refused)",
        "a leaf without a subjectAltName DNS name (Common Name only — for another host or for the MX host itself — or an IP address only; "
        "chains V, U, Z, properly issued under the intermediate and root the DANE-TA records pin) is a certificate for NO host name, as "
        "crypto/x509 has it (the Common Name is not read); ground truth by construction, self-checked per anchor against crypto/x509 with the "
        "MX host name as the reference identifier; with no reference identifier the same chains do verify (vBitsNone)",
        "resolver ops: the miekg/dns client and wire format are primitives (Transport parameter of the model; the tree's is plain UDP without "
        "TCP fall-back); which configured address is a loopback address is known by construction (127.0.0.1, 127.0.0.2: yes; 0.0.0.0: no)",
    ]
    return c.finish(
        rule="verifyDANE: every multiset of size 0-1 over the property's record types (usage 0-4 x selector 0-2 x matching type 0-3 x data for "
        "leaf/intermediate/root/nothing) x 9 chains (the 5 stated ones, self-signed CA leaf, foreign CA, missing intermediate, no certificate) x "
        "handshake yes/no; thorough adds every multiset of size 2 on the 5 stated chains; plus seeded samples of sizes 0-6 with wider parameter "
        "values and data derived under other parameters. CheckConn: every discovery-error kind x TLS state, seeded record sets. discoverTLSA and "
        "PrepareConn+CheckConn: every shape of signed/unsigned/failing/absent zones for the MX name, an alias and the two TLSA RRsets, served by a "
        "DNS server on loopback. Owner names of the records: the usual one, CNAME'd RRsets and odd names (12), every usable record type under each "
        "on all chains, among them leaves issued for another name that chain to the matched anchor. ExtResolver (res) and PrepareConn+CheckConn "
        "through it (rconn): scripted servers on UDP+TCP behind a loopback and a non-loopback address, server lists of 0-2 entries, honest / "
        "AD-forging / non-validating / failing servers, truncated UDP answers with a differing TCP follow-up, every zone shape behind the "
        "non-loopback address. Association data of a wrong length (31-byte 'SHA-256', empty, over-long, half, the other digest size) on every usable "
        "record type in verify, and as whole / mixed RRsets in disc, conn, res, rconn. attemptMX (attempt): the real PrepareConn + connect() + CheckConn "
        "against a scripted STARTTLS server presenting each of the 9 runtime-generated chains (right name / wrong name / expired / incomplete, chaining "
        "to the asserted anchor or not) x 11 RRsets, client trusting no CA (first handshake fails verification, second made with InsecureSkipVerify) or "
        "the root, 12 handshake histories (no STARTTLS, STARTTLS refused, handshake broken on the 1st/2nd connection, connection dropped), base "
        "configuration with / without a ServerName / absent, 3 spellings of the MX host name, with / without resolver. "
        "Chains that pass ordinary (PKIX) verification and carry a stray CA certificate the leaf does not chain to (G, J, M: two hierarchies), connection "
        "states with and without VerifiedChains, every usable DANE-TA type pinning the CA certificates of either hierarchy: verify (hand-built states) "
        "and attempt (client trusting both roots: first handshake verified). A TLSA discovery that crashes (cconn, rconn with an empty server list, "
        "attempt): resolver without servers, panicking log output after the lookups, panic inside the resolver library at the k-th step, in worlds "
        "with and without published records, on plaintext / encrypted / X.509-authenticated connections. "
        "The MX host name in 5 spellings (MX record target with trailing dot / implicit MX of a domain without MX RRset: no dot; lower, mixed, upper "
        "case) in check, conn, cconn and attempt (there also obtained from the real lookupMX against the scripted server), pinned RRsets x "
        "plaintext / non-matching / matching connection under every spelling. The harness roots are the system trust store of the test "
        "process: DANE-TA records matching no presented CA certificate (stale pin, pin of an absent CA, pin matching only the non-CA leaf) x "
        "chains valid / not valid under the system store (verify, with and without VerifiedChains; attempt with a client configuration "
        "without RootCAs). Ordered pairs of record forms where the second record carries the first form's association data. "
        "Address answers with one AD bit each (18 host states: A only / AAAA only / dual stack; signed A + AAAA without AD as a DNS64 resolver "
        "synthesises it, the reverse, both, neither; the AAAA or the A lookup failing; empty answers with the other bit), alone and behind a "
        "signed / unsigned alias x TLSA RRsets signed / unsigned / absent / failing: every shape in disc and conn, pinned RRsets x plaintext / "
        "non-matching / matching connection under every state in check, conn and attempt, the shapes also behind the loopback / non-loopback "
        "resolvers of res / rconn. "
        "Chains with a good leaf (right name, within its validity period, every signature right) whose PATH is not valid: an intermediate that "
        "expired after the leaf was issued / is not valid yet / is no CA certificate / is restricted to client authentication / is "
        "name-constrained to another domain, a root certificate that expired / has path length 0 (P, Q, N, K, H, T, Y; variants of the "
        "intermediate and the root with the same subject and key) x every record type in verify, every usable DANE-TA form pinning the "
        "intermediate or the root of the chain (alone, in pairs, next to unusable / non-matching records) in verify, check, conn and attempt "
        "(client trusting no CA / the roots / the system store). "
        "Leaves without a subjectAltName DNS name issued under the pinned CA (V: Common Name of another customer's host, U: Common Name = MX host, "
        "Z: IP-address subjectAltName only) x every record type in verify, every usable DANE-TA form pinning the intermediate or the root (alone, in "
        "pairs, next to unusable / non-matching records) in verify, check, conn and attempt, like the bad-path chains. "
        "Each op runs the real function and the Lean model (primitive results shipped as tables); distinct = distinct op lines",
        explanation="theorems for all record lists, chains, handshake histories and primitive behaviours; model tied to dane.go/security.go/"
        "connect.go/dnssec.go by differential runs; "
        "monitor evaluates the property from ground truth known by construction",
        search=search,
    )
