"""C09 — per-recipient results name exactly the accepted recipients (DESIGN.md §4 C09)."""

PKGS = ["./internal/target/remote/", "./internal/target/smtp/", "./internal/msgpipeline/"]


def harness(c, n, replay_ops=None):
    rc, out, outdir = c.go_harness(PKGS, "^TestVerifC09", n=n, replay_ops=replay_ops, timeout=900)
    corr, _ = c.collect(outdir)
    c.correspond(corr)


def run(c):
    c.lean("C09")
    if c.replay:
        harness(c, 1, replay_ops=c.replay.get("replay_ops") or [])
    else:
        harness(c, 2500 if c.thorough else 150)

    def search():
        c.seed += 1000
        harness(c, 800)

    return c.finish(
        rule="histories of 1-4 consecutive transactions through ONE real remote target (shared connection pool) against a scripted next hop: "
        "1/3 go-smtp server (SMTPUTF8 on/off, per-recipient RCPT refusals, DATA failure), 2/3 positional raw responder "
        "(answer per RCPT command independent of spelling, per-domain DATA failure, connection fault exactly under a RCPT that follows k accepted ones "
        "of the same connection and is followed by more: 421+close / close / reset / stall in virtual time, on fresh and pooled connections); "
        "recipients ASCII / IDN U-label / A-label / non-ASCII local part over 3 domains, and ONE mailbox spelled several ways (letter case, A-label vs U-label, "
        "NFC vs NFD, domain in absolute form with the root dot - ASCII, upper case, U-label, A-label) as different recipients of one transaction, and the SAME address string added two or three times in one transaction (exact duplicates, "
        "adjacent or apart, each occurrence with its own RCPT answer); message buffers that can be opened only k = 0..3 times in deliveries spanning several recipient domains "
        "(one connection and one Open() each; which connections meet the failing Open is observed and passed to the model as an oracle), readers that fail mid-way for the one connection "
        "that gets them, messages quarantined after the recipients were added; the buffer's error may only show up in the results of as many connections as Open()/Read failed for; "
        "SMTPUTF8 negotiation: message WITH / WITHOUT the SMTPUTF8 flag (MsgMetadata.SMTPOpts.UTF8) x next hop without SMTPUTF8 / offering it / offering it and enforcing RFC 6531 section 3.4 "
        "(non-ASCII RCPT refused unless MAIL FROM carried the parameter) x order of ASCII / IDN-domain-only (convertible) / non-ASCII-local-part (no ASCII form; also on the U-label and A-label connections) "
        "recipients on ONE connection: k accepted plain recipients first, then the non-ASCII local part (accepted or refused by the next hop), then more of either kind, in order or shuffled, on fresh and pooled connections; "
        "RFC 1870 SIZE announcements per recipient domain (per connection, fresh and pooled): a limit smaller than the message (enforced by the next hop: 552 after the data), "
        "exactly the message size, far bigger, no fixed limit, not offered, next hops that do not announce 8BITMIME for a message with 8-bit content - in deliveries spanning several recipient domains, so that one next hop refuses the message while others take it; "
        "ground truth = what the next hop holds in transactions it answered 250; "
        "LMTP next hop through the real target.lmtp with per-recipient statuses (by position, respelled mailboxes, exact duplicates each with its own reply and followed by recipients whose reply differs, replies cut off, faults under RCPT); "
        "pipeline reverse translation with 1-to-N rewrites and rewrite results that are themselves client-supplied recipients (chains, swaps), "
        "rewrites whose result differs from the client-supplied address only in spelling (letter case, U-label/A-label domain, NFC/NFD — lower-casing / normalising modifiers, "
        "alone, inside 1-to-N expansions, next to other spellings of the same mailbox as further client recipients), the client sending one address two or three times; "
        "NESTED pipelines (reroute {} = *MsgPipeline as target, deliver_to &pipeline = the msgpipeline module) sharing the outer pipeline's *MsgMetadata and started lazily by the first recipient "
        "routed into them: all recipients or those of per-address destination blocks routed into the nest (others to a direct target), outer rewrites (1-to-N, chains through client-supplied addresses, "
        "spelling-only) in every placement, inner rewrites (fresh address, 1-to-2, another spelling, the address of a client recipient that stays outside the nest), per-recipient failures from the target behind "
        "the inner pipeline; metadata that already carries the OriginalRcpts table of a pipeline the message passed earlier (pipeline in front of a queue); "
        "statuses the PIPELINE generates itself: body stage failing for the whole delivery (body check reject at global / source / destination level, applyResults = DMARC policy reject, "
        "RewriteBody failure of a global / source / destination modifier) and targets without per-recipient results whose Body fails or succeeds (all direct recipients or those of per-address "
        "destination blocks, next to a per-recipient target), in the outer and in the nested pipeline, crossed with every recipient-list family above and with MANY-TO-ONE recipient lists "
        "(an alias together with the mailbox it is rewritten to, two or three aliases of one fresh or client-supplied mailbox, two spellings normalised to one, chains ending in a supplied mailbox, "
        "two such groups, inside 1-to-N expansions, with repeated client addresses, many-to-one rewrites inside the nested pipeline): one failure per effective recipient under exactly the address the client supplied; "
        "recipients REFUSED at AddRcpt time with the session going on (as after a 5xx to RCPT TO): the per-recipient target refuses the k-th call for an effective address "
        "(the repetition of a rewritten recipient it accepted before, one address of a 1-to-N expansion after it took another, any address at any call), a SECOND target of the destination block "
        "refuses after the first one took the address, rejecting per-address destination blocks (reject directive) for an address of the expansion, also with the body stage failing for the whole delivery "
        "(results generated by the pipeline from delivery.recipients); accepted calls are due their results under the client-supplied address, whatever a refused call left in the target may only be reported under a client-supplied address; "
        "status keys and values seen by a recording StatusCollector compared with the model; distinct = distinct histories",
        explanation="theorems over all histories/pools/recipient lists; model tied to smtpconn/remote/smtp_downstream by differential runs against scripted servers",
        search=search,
    )
