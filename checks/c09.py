"""C09 — per-recipient results name exactly the accepted recipients (DESIGN.md §4 C09)."""

PKGS = ["./internal/target/remote/", "./internal/target/smtp/", "./internal/msgpipeline/"]


def harness(c, n, replay_ops=None):
    rc, out, outdir = c.go_harness(PKGS, "^TestVerifC09", n=n, replay_ops=replay_ops, timeout=900)
    corr, _ = c.collect(outdir)
    c.correspond(corr)


def run(c):
    c.lean("C09")
    if c.replay:
        harness(c, 1, replay_ops=c.replay.get("replay_ops") or [])
    else:
        harness(c, 2500 if c.thorough else 150)

    def search():
        c.seed += 1000
        harness(c, 800)

    return c.finish(
        rule="histories of 1-4 consecutive transactions through ONE real remote target (shared connection pool) against a scripted go-smtp server "
        "(SMTPUTF8 on/off, per-recipient RCPT refusals, DATA failure), recipients ASCII / IDN-domain / non-ASCII local part / upper-case over 3 domains; "
        "LMTP next hop through the real target.lmtp with per-recipient statuses; pipeline reverse translation with 1-to-N rewrites; "
        "status keys seen by a recording StatusCollector compared with the model; distinct = distinct histories",
        explanation="theorems over all histories/pools/recipient lists; model tied to smtpconn/remote/smtp_downstream by differential runs against scripted servers",
        search=search,
    )
