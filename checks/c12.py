"""C12 — queue scheduler: dispatch once, not early, shutdown safe in every interleaving (DESIGN.md §4 C12)."""
import os

import vlib

PKGS = ["./internal/target/queue/"]
QDIR = "internal/target/queue"


def rewrite(c):
    """Overlay copies of timewheel.go / queue.go with a scheduling point before every synchronisation
    statement, produced from the CURRENT working tree by tools/extract c12rewrite."""
    outdir = os.path.join(c.work, "rw")
    rc, out, _ = vlib.sh([vlib.EXTRACT_BIN, "c12rewrite", vlib.REPO, outdir])
    if rc != 0:
        c.harness_failed.append(dict(cmd="extract c12rewrite", rc=rc, tail=out[-2000:]))
        return None
    return {os.path.join(vlib.REPO, QDIR, f): os.path.join(outdir, f) for f in ("timewheel.go", "queue.go")}


def variant():
    """'f' if the tree has the repaired shutdown handshake (Add selects on tw.done), 'u' for the pinned one."""
    try:
        src = open(os.path.join(vlib.LEAN, "MaddyVerif", "Generated", "TimeWheelSync.lean")).read()
    except OSError:
        return "f"
    for line in src.split("\n"):
        if '("TimeWheel.Add"' in line:
            return "f" if "recv:tw.done" in line else "u"
    return "f"


def harness(c, ov, n_sched, n_free, replay_ops=None, race=False):
    if ov is None:
        return
    rc, out, outdir = c.go_harness(PKGS, "^TestVerifC12Sched$", n=n_sched, replay_ops=replay_ops, extra_overlay=ov, name="sched",
                                   env={"VERIF_C12_VARIANT": variant()})
    corr, _ = c.collect(outdir, names=["c12sched"])
    c.correspond(corr)
    if n_free:
        rc, out, outdir = c.go_harness(PKGS, "^TestVerifC12Free$", n=n_free, replay_ops=replay_ops, extra_overlay=ov, race=race, name="free", timeout=2400)
        c.collect(outdir, names=["c12free"])


def run(c):
    c.extract("c12sync", "TimeWheelSync.lean")
    ov = rewrite(c)
    c.lean("C12")
    if c.replay:
        harness(c, ov, 1, 1, replay_ops=c.replay.get("replay_ops") or [])
    elif c.thorough:
        harness(c, ov, 150000, 40000, race=True)
    else:
        harness(c, ov, 5000, 1200)

    def search():
        c.seed += 1000
        harness(c, ov, 20000, 6000)

    c.trusted_base.append(
        "Go runtime semantics of channels (rendezvous, close), sync.Mutex, atomics, WaitGroup and timers as DEFINED by the step relation of Model/TimeWheel.lean; "
        "the AST rewriter (tools/extract c12rewrite) and the scheduling shim (harness/internal/verifshim/c12sched)"
    )
    return c.finish(
        rule="controlled mode: the REAL queue (spool files, time wheel, dispatch goroutines, Queue.Close), compiled from timewheel.go/queue.go with a scheduling point "
        "before every synchronisation statement, is driven step by step along random schedules (1-4 producers via Commit or restart-style Add, 0-3 in-flight attempts, "
        "retries, temporary and permanent errors of the next hop at every stage of the dialogue, a next hop that PANICS at a scripted stage (Start/AddRcpt/Body/Commit; "
        "panic value a string, an error, a runtime error or a custom type) with panic recovery active (dontRecover=false, the production default) while Close waits or other "
        "messages are due - the panic must stay inside the dispatch goroutine (the harness recovers at the top of every goroutine it starts for the code: anything arriving there "
        "would have killed the process), the message must end up quarantined, everything else goes on -, a bounce pipeline (Queue.dsnPipeline) that takes the failure report of every message "
        "rejected for good or out of tries (three in four messages have a return path; every third report is refused by the bounce pipeline; `tp<i>.16-19`: the bounce pipeline PANICS while it takes "
        "the report) and is SLOW for whatever the attempt leaves behind: a submission made by any goroutine other than the dispatch goroutine is scheduled last, so a shutdown overlaps with it - "
        "when Close returns no goroutine the queue's code started may still be at work and whatever is gone from the spool must have its terminal outcome (accepted, or report answered) -, dispatched entries whose spool entry cannot be opened at that moment "
        "(meta-data missing / undecodable, header undecodable; restored afterwards), semaphore capacity 1-3, zero or one shutdown at a random position, a lazily scheduled "
        "tick goroutine in a third of the scenarios, 12% deliberately disabled choices). What a parked goroutine can do is decided from the kind and operand of the "
        "statement it is parked at (resolved by reflection against the real wheel/queue: any slot collection, helper methods with their own locks, buffered channels), "
        "so refactored code is explored too. The resulting state (enabledness of every choice, program counters, wheel content as a multiset, dispatch log with times, spool, "
        "real WaitGroup counter, semaphore) is compared with the Lean model run on the same schedule; every scenario is then drained and the property is evaluated on the real "
        "execution (monitor: per-entry exactly-once accounting, timely timer, shutdown, WaitGroup/semaphore leaks, spool). free mode: real scheduler and clock, seeded yields and "
        "at most 2 long delays at the same points, one message's meta-data out of reach for a while, a bounce pipeline that in a third of the scenarios holds every failure report until the shutdown has begun "
        "(checked the moment Close returns: nothing gone from the spool without its outcome), then a restart on the same spool (monitor only; -race in the thorough tier). "
        "distinct = distinct schedules",
        explanation="theorems over all schedules of the small-step model; model tied to the code by the regenerated synchronisation skeleton (T1) and step-level differential runs (T2)",
        search=search,
    )
