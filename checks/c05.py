"""C05 — outbound mail is only sent over connections that satisfy the security policy (DESIGN.md §4 C05)."""

PKGS = ["./internal/target/remote/"]


def harness(c, n, replay_ops=None):
    rc, out, outdir = c.go_harness(PKGS, "^TestVerifC05", n=n, replay_ops=replay_ops, timeout=1500)
    corr, _ = c.collect(outdir)
    c.correspond(corr)


def run(c):
    c.lean("C05")
    if c.replay:
        harness(c, 1, replay_ops=c.replay.get("replay_ops") or [])
    else:
        harness(c, 30000 if c.thorough else 2500)

    def search():
        c.seed += 1000
        harness(c, 6000)

    c.assumptions += [
        "crypto/tls + crypto/x509 (handshake, chain and name verification), the DNS resolver's AD bit and the MTA-STS fetcher are "
        "facts of the model (per-MX / per-domain data); verifyDANE enters only through its verdict on the record kind (C13 models it): "
        "DANE-EE record of the end-entity certificate / of another presented certificate, DANE-TA record of a presented CA on / off the "
        "certification path, mismatch, unusable; the harness's ground truth for 'authenticated by DANE' is computed from the published "
        "records and the presented chain (usage 3: the first certificate only)",
        "DNS world: the AD bit of an address answer for an aliased MX is the conjunction over the CNAME chain, and a TLSA RRset below a canonical "
        "name whose address RRset is not authenticated is never reported authenticated",
        "idle-time limits of the pool and MTA-STS policy refresh over time are outside the model (no cached policy: every delivery "
        "fetches); overlapping deliveries are driven through a fixed family of schedules (all started while one lookup of domain 0 is "
        "held back, one of them cancelled / timed out meanwhile, then released) — the Lean theorems cover every interleaving of the "
        "lookup steps; the harness's contexts end 'at one instant' for the decision to dial (standard-library semantics), the "
        "production dialer's refusal to dial on a finished context is emulated (the repo's mockdns test dialer ignores contexts)",
        "go-smtp server behaviour (REQUIRETLS advertised on TLS sessions only) is part of the scripted environment",
        "address families: IPv6 addresses of MX hosts (fd00:c05::n) are carried to the loopback server of the same number by the harness's "
        "dialer, which stands for the network; A and AAAA RRsets of one name share one AD bit; a host without ANY address record "
        "(the real code answers 'no such host', a permanent error) is outside the generated world",
        "crashing lookups: a panic is injected through the Deadline() method of the context handed to AddRcpt (the resolver library reads "
        "it for every exchange, in the lookup goroutine; the stage is read off that goroutine's own stack); crash cases have one MX candidate per "
        "domain and a context per AddRcpt call, which the harness ends (deadline exceeded) when the crashed discovery has left the delivery "
        "waiting in daneDelivery.CheckConn (goroutine dumps) — on the unchanged tree that wait only ends with the context; in the model a "
        "crashed lookup is a failed lookup (MX.crashedAt)",
        "failing lookups: the DNS front end answers the chosen query of the DNSSEC-aware resolver with the RCODE (or with a datagram too short to be a "
        "DNS message); time-outs are not generated (wall-clock); when the address queries of discovery fail the plain resolver the connection is "
        "made with still answers (the two resolvers are different objects in maddy too); an NXDOMAIN answer to the CNAME-type query of a name "
        "that is an alias is outside the generated world",
        "configuration: the mx_auth block of every case is generated as directive TEXT and goes through cfgparser.Read, config.Map, "
        "PolicyGroup.Init and the Init of every policy module; words are byte strings as the lexer hands them over (quoting is the "
        "lexer's business); the level a word documents is that of its letters in lower case (junk around the word stripped) — a "
        "configuration is either refused at Init or enforces that level; the mtasts cache directive is always `cache ram`",
        "`C05 via`: the queue's FIRST attempt is observed (in-memory meta-data; max_tries 1); `C05 retry`: max_tries 2, the world (servers, "
        "DNS content, remote target with an empty pool) is replaced between the first attempts and the attempts from the spool; the "
        "queue's unexported delays (initialRetryTime, postInitDelay) are set to 0 by reflection, an attempt from the spool is held in "
        "front of the remote target until the world has changed, attempts in the second world run one message after the other; WHICH "
        "recipients are retried is the queue's business (C01) — model and harness agree on 'those with a temporary error'; "
        "the harness plays the SMTP endpoint for the real msgpipeline (writes TLS-Required / REQUIRETLS / SMTPUTF8 into its MsgMetadata "
        "object before Body), the quarantine decision comes from a scripted check through msgpipeline's own applyResults",
    ]
    return c.finish(
        rule="histories of 1-3 consecutive messages (plain / REQUIRETLS / TLS-Required: No / both / quarantined before or after RCPT; 1-3 recipients "
        "over two domains) through ONE real remote.Target with its real connection pool; policy list built by the real PolicyGroup.Init from a "
        "shuffled config block (mtasts, sts_preload, dane, dnssec, local_policy with every min level), override / relaxed_requiretls / reuse limit "
        "0,1,10; per-MX facts on scripted go-smtp servers at 127.0.0.1-3 (STARTTLS offered / stripped / handshake failure / command refused; "
        "generated chains: valid / unknown issuer / wrong name; REQUIRETLS on/off; down), loopback DNS server with AD control per RRset and TLSA "
        "EE-match / TA-match / mismatch / unusable / none / a FAILING lookup in every way a lookup fails at once (SERVFAIL, REFUSED, NOTIMP, FORMERR, "
        "an unreadable answer: at the TLSA query of either base domain, the CNAME-type query, the address queries of discovery) (+ delayed answers; + a PANIC inside the resolver's lookups of an MX's "
        "TLSA discovery, at the address / CNAME / TLSA stage); MX host names that are CNAME aliases (signed / unsigned "
        "CNAME RRset, signed / unsigned canonical zone, CNAME-type query failing) with independent TLSA outcomes at the canonical and at the "
        "initial name (RFC 7672 2.2.2: which base domain is consulted in which order); injected MTA-STS fetcher (absent/none/testing/enforce x "
        "listed); 1-2 MX candidates; server chains of 2-3 certificates (end-entity certificate first; its issuer and/or the genuine MX's "
        "certificate / a foreign CA certificate after or between them) with TLSA records that pin the end-entity certificate, another "
        "presented certificate (DANE-EE of the replayed genuine certificate or of the issuer, DANE-TA of an off-path certificate) or nothing; "
        "plus every 1-3 message history over 5 message kinds on 10 fixed worlds; plus OVERLAPPING deliveries (`C05 conc`): 1-3 deliveries to "
        "one domain started while the MTA-STS fetch / the TLSA answers / the MX answer are held back (fetcher and DNS front end that block "
        "until released; the fetcher honours its context), one of them (first / middle / last / none) cancelled or past its deadline "
        "meanwhile and aborted, the others run to completion, optionally followed by consecutive messages on the same pool; observation = per-recipient "
        "ok/temp/perm and which server received DATA over TLS or plaintext, with or without the REQUIRETLS parameter, on a new or reused "
        "connection; address families of every MX host (A only / AAAA only / both, also behind an alias); plus `C05 via`: histories of 1-5 "
        "messages that reach the remote target THROUGH the real queue.Queue (Target = the remote target; front q: driven in msgpipeline's "
        "call order Start, AddRcpt, body-stage update of the source's MsgMetadata object, Body, Commit; front p: through the real "
        "msgpipeline with a scripted check that asks for quarantine at the connection / sender / recipient / body stage) with "
        "REQUIRETLS, TLS-Required: No, Quarantine and SMTPUTF8 changing between Start and the end of the body stage, observed at the "
        "remote target's Start (meta-data handed over) and at the servers (SMTPUTF8 parameter too); plus `C05 retry`: the same through a "
        "queue with max_tries 2 whose first attempts run in one world (mostly MX down / STARTTLS answered 454) and whose attempts from the "
        "spool run in ANOTHER world (plaintext-only / unverifiable certificate / unsigned MX RRset), retried by the same instance, by an "
        "instance restarted on the spool, or first attempted after a restart (queue closed between Body and Commit); plus configurations "
        "whose min_tls_level / min_mx_level arguments are spelled Capitalised / UPPER / mixed / with junk around them / left out, the "
        "policy block of EVERY case built from generated directive text by the real configuration path; distinct = distinct histories",
        explanation="theorems over all policy lists, fact assignments and histories of any length; model tied to connect.go / remote.go / security.go / "
        "pool.go by differential histories; monitor evaluates the property from scripted ground truth and what the servers received",
        search=search,
    )
