"""C20 — configuration parser (DESIGN.md §4 C20)."""

PKGS = ["./framework/config/lexer/", "./framework/cfgparser/", "./internal/msgpipeline/"]


def harness(c, n, replay_ops=None):
    rc, out, outdir = c.go_harness(PKGS, "^TestVerifC20", n=n, replay_ops=replay_ops, timeout=2400)
    corr, _ = c.collect(outdir)
    c.correspond(corr)


def run(c):
    c.extract("cfgfacts", "CfgFacts.lean")
    c.lean("C20")
    if c.replay:
        harness(c, 1, replay_ops=c.replay.get("replay_ops") or [])
    else:
        harness(c, 150000 if c.thorough else 20000)

    def search():
        c.seed += 1000
        harness(c, 40000)

    c.assumptions += [
        "unicode.IsLetter / unicode.IsDigit are parameters of the model (shipped per case as tables computed by the Go library)",
        "resource exhaustion (memory/time of exponential snippet expansion) is outside the model: termination is proved, cost is not; the harness skips inputs whose static expansion bound exceeds its budget",
        "the file system seen by `import` is a parameter of the model (files of the harness's own configuration directory); OS path errors (ENAMETOOLONG, EINVAL) are out of the model",
    ]
    return c.finish(
        rule="grammar-based configurations (directives, nested blocks, macros, snippets, imports of snippets and files with forward/backward/self references, "
        "env placeholders, quoting, escapes, comments, CR/LF, line continuation, BOM), deep nesting around the limit, byte-level mutations of those and raw strings over the "
        "special alphabet; each input runs the real lexer/parser (watchdog + recover) and the Lean model; distinct = distinct op lines",
        explanation="theorems for all character lists / all expressible trees; model tied to the code by differential runs on bytes; "
        "independent Go monitor for crash-freedom, output well-formedness and print/parse round trip",
        search=search,
    )
