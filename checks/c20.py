"""C20 — configuration parser (DESIGN.md §4 C20)."""

PKGS = ["./framework/config/lexer/", "./framework/cfgparser/", "./internal/msgpipeline/"]


def harness(c, n, replay_ops=None):
    rc, out, outdir = c.go_harness(PKGS, "^TestVerifC20", n=n, replay_ops=replay_ops, timeout=2400)
    corr, _ = c.collect(outdir)
    c.correspond(corr)


def run(c):
    c.extract("cfgfacts", "CfgFacts.lean")
    c.lean("C20")
    if c.replay:
        harness(c, 1, replay_ops=c.replay.get("replay_ops") or [])
    else:
        harness(c, 150000 if c.thorough else 20000)

    def search():
        c.seed += 1000
        harness(c, 40000)

    c.assumptions += [
        "unicode.IsLetter / unicode.IsDigit are parameters of the model (shipped per case as tables computed by the Go library)",
        "stack: the number of simultaneously active readNodes calls is bounded by 258 for every input (C20_parser_recursion_bounded, on an instrumented copy of the block parser proved equal to it: parser_erase); the frames of the real code are observed only through a child process with a 32 MB stack cap on inputs of several hundred thousand levels",
        "cost: the number of nodes import expansion can add is bounded by maxExpandedNodes (proved for the model, C20_tree_size_bounded / C20_import_expansion_bounded / C20_import_charge / C20_tree_size_le_tokens_plus_charges; inputs that multiply the tree are part of every run, each call of Read is watched for a deadline and a heap cap); time and memory as such are not modelled",
        "the file system seen by `import` is a parameter of the model keyed by the NAME as written in the directive (files of the harness's own configuration directory and, per case, the other spellings of those files the generator used: `./x`, `../conf/x`, absolute, `sub/x`); relative spellings that depend on the importing file's directory are generated only where they mean the same file from every file that uses them; OS path errors (ENAMETOOLONG, EINVAL) are out of the model",
    ]
    return c.finish(
        rule="grammar-based configurations (directives, nested blocks, macros, snippets, imports of snippets and files with forward/backward/self references, "
        "env placeholders, quoting, escapes, comments, CR/LF, line continuation, BOM), deep nesting around the limit, byte-level mutations of those and raw strings over the "
        "special alphabet; snippets/files whose imports multiply the tree (self-doubling, chains, mutual recursion, the exact boundary of the node limit), "
        "the same chains with bodies wrapped in 1..3 levels of blocks (payload and imports at every level, flat + nested mixed, snippets and files) with the import budget read back from readTree (`C20 charge`: charged amount and tree size compared with the model; monitor: tree <= tokens of the main file + charged, charged <= limit, tree <= limit + source size); "
        "deep-nesting inputs of 2*10^5..4*10^5 levels (blocks, one-line blocks, blocks closed by same-line declarations / by a trailing `}`, snippet and file bodies, self-importing snippets and files; generated from `C20 deep <shape> <levels> <close> <variant>`) parsed in a child process whose goroutine stacks are capped at 32 MB: the child must come back with an error or a bounded tree (C20/crash); "
        "blocks 'closed' by a same-line macro/snippet declaration (hundreds of lines), macro references inside longer arguments (defined / undefined / value-less / defined later), macros with unusual names (empty, `$`, parentheses, blanks, quotes, braces) referenced as whole arguments and inside arguments together with the generator's own record of which references are to macros declared at that point (op-line groups `| r`); "
        "imports through REAL files in every spelling (with / without `.conf`, bare, `./`, `../conf/`, doubled slash, absolute = marker /VERIFC20ABS replaced by the run's directory, a sub-directory `sub/`; plain, quoted, inside 1..3 blocks, through a snippet): cycles of 1..3 files with or without the main file (written to disk as main.conf), chains ending in a leaf, chains of 250..300 files around the depth limit; the other spellings of a file travel as further `| f` groups (what the model's file system answers for that name); "
        "environment placeholders nested in / spliced around each other (placeholder before, after, inside the name, between the halves `{e|nv:`, `{env|:`, `{|env:`, unclosed, several levels; set and unset names incl. names with `}`, blanks, `-`, empty; values that are themselves placeholder text) in directives, blocks, snippet bodies imported at top level / inside blocks / through another snippet, imported files and their snippets, macro values; "
        "every Read runs under a deadline, a heap cap and a cap on goroutine stacks (32 MB): a call that runs away is reported (C20/unbounded-recursion, C20/timeout) and, when it recursed through the files, brought back by emptying the configuration directory so that the run goes on; monitor C20/placeholder-residue (no `{env:` + non-empty `$`-free name + `}` in any name or argument of a returned tree) and the print/parse round trip also on trees with inert `{env:` text; each input runs the real lexer/parser (watchdog + recover) and the Lean model; distinct = distinct op lines",
        explanation="theorems for all character lists / all expressible trees; model tied to the code by differential runs on bytes; "
        "independent Go monitor for crash-freedom, output well-formedness and print/parse round trip",
        search=search,
    )
