"""C11 — limits enforced, every permit returned (DESIGN.md §4 C11)."""

PKGS = ["./internal/limits/...", "./internal/endpoint/smtp/", "./internal/target/remote/"]


def harness(c, n, replay_ops=None):
    rc, out, outdir = c.go_harness(PKGS, "^TestVerifC11", n=n, replay_ops=replay_ops, timeout=1500)
    corr, _ = c.collect(outdir)
    c.correspond(corr)


def run(c):
    c.lean("C11")
    if c.replay:
        harness(c, 1, replay_ops=c.replay.get("replay_ops") or [])
    else:
        harness(c, 16000 if c.thorough else 1200)

    def search():
        c.seed += 1000
        harness(c, 3000)

    return c.finish(
        rule="(1) Group level: random limits blocks (0-2 concurrency/rate directives per scope, N in -3..3, reduced MaxBuckets 1-3 or 20010, reap interval passed/not passed), "
        "6-35 TakeMsg/TakeDest/ReleaseMsg/ReleaseDest calls over 2-6 source addresses / domains executed one at a time on the REAL limits.Group (a call parked in a limiter wait is "
        "cancelled = time-out); result of every call and the channel length of every limiter after it compared with the Lean model; (2) BucketSet level with a simulated clock; "
        "(3) SMTP sessions on the real endpoint (both reject modes, raw/normalised sender spellings, sessions ending at MAIL, RCPT, DATA, RSET, QUIT, time-outs) and (4) remote "
        "deliveries against scripted SMTP servers (connection dead before the greeting; MAIL, every RCPT - first or later one of a fresh, reused or pooled connection - and DATA "
        "each accepted / refused / answered 421 / connection dropped / command timed out; REQUIRETLS and TLS-Required:No deliveries; connection failures, limit time-outs; more "
        "recipients, Commit and Abort afterwards), group occupancy after every command compared with the model; (5) 1-64 concurrent goroutines: occupancy counters per scope key, leak and full-capacity probes after quiescence. "
        "Source addresses in (1), (3), (4), (5): IPv4, IPv6 incl. several hosts of one /64 and the network address itself, IPv4-mapped IPv6 next to the plain IPv4 form, ::1/link-local/NAT64/6to4 "
        "(SMTP peers get them through a listener that rewrites RemoteAddr); the bucket key the code derives from each address in TakeMsg, in its roll-back and in ReleaseMsg is read off the real ip bucket table "
        "(k.<addr>.<take>.<undo>.<rel> tokens of the op lines = the model's IpKeys) and must be one and the same (C11/key-law = hypothesis IpKeys.Lawful of the theorems). "
        "Sender and recipient domains in (4) and the concurrent remote runs: plain ASCII and internationalised domains under several spellings (U-label lower-case NFC as endpoint/smtp hands them over, A-label, "
        "other case, trailing dot, NFD; several spellings of one domain inside one delivery, across deliveries and through the connection pool); the key the remote target hands to the limits for each spelling "
        "at every place (rd.connections, TakeDest, ReleaseDest after a failed MAIL, ReleaseDest in Close, TakeMsg in Start, ReleaseMsg in Close) is read off the real bucket tables while a helper holds a permit of "
        "every candidate key (j.<spelling>.<conn>.<take>.<undo>.<close>.<src>.<srcRel> tokens = the model's RemKeys); every release must use the key of its take (C11/key-law = hypothesis RemKeys.Lawful of the "
        "lifecycle theorems). The MX world of (4) and of the concurrent remote runs CHANGES between and inside deliveries (w.<kind> ops: MX lookup fails, MX hosts lose their address, null MX, connect refused, "
        "connection dead before the greeting, TLS policy / MX policy failure, repaired again) while connections opened earlier sit in the pool; the next hop ends a session taken from the pool at MAIL "
        "(421 kept open / 421 + close / drop / time-out; on every session or on reused sessions only = a per-session transaction limit) or refuses / accepts it, in every state of the world, for every "
        "destination-limit configuration; whether the pool handed out a connection is observed (field P of the op = model input `pooled`). distinct = distinct op lines",
        explanation="theorems over all configurations, any number of goroutines and keys, all interleavings at channel-operation granularity, all session/delivery scripts; "
        "model tied to the code by differential runs",
        search=search,
    )
