"""C02 — queue spool survives a crash at any instant without losing accepted mail (DESIGN.md §4 C02)."""
import os
import re

from vlib import REPO

PKGS = ["./internal/target/queue/"]
QUEUE = "internal/target/queue/queue.go"
VOS = "github.com/foxcpp/maddy/internal/verifshim/vos"


def rewritten_queue(c):
    """overlay copy of the CURRENT queue.go whose "os" import is the recording shim; nothing else is changed."""
    src = open(os.path.join(REPO, QUEUE)).read()
    new, n = re.subn(r'(?m)^\t"os"$', '\tos "%s"' % VOS, src)
    ok = n == 1
    # every os.X used by queue.go must exist in the shim: the build fails otherwise (reported as harness failure)
    c.obligations.append(dict(name='queue.go imports "os" exactly once (rewritten to the recording shim vos)', kind="T2-setup", ok=ok,
                              detail="" if ok else "found %d import lines" % n))
    if not ok:
        c.proof_broken.append('queue.go: cannot rewrite the "os" import (%d matches)' % n)
    p = os.path.join(c.work, "queue_vos.go")
    open(p, "w").write(new)
    return {os.path.join(REPO, QUEUE): p}


def harness(c, n, replay_ops=None, name=None):
    ov = rewritten_queue(c)
    rc, out, outdir = c.go_harness(PKGS, "^TestVerifC02", n=n, replay_ops=replay_ops, extra_overlay=ov, name=name, timeout=2400)
    corr, _ = c.collect(outdir)
    c.correspond(corr)


def run(c):
    # T1: the ordered file-system call skeleton of the spool procedures, regenerated from the current tree
    c.extract("spoolskel", "SpoolSkel.lean")
    c.lean("C02")
    if c.replay:
        harness(c, 1, replay_ops=c.replay.get("replay_ops") or [])
    else:
        harness(c, 1200 if c.thorough else 500)

    def search():
        c.seed += 1000
        harness(c, 400, name="search")

    c.assumptions += [
        "POSIX semantics as stated in Model/SpoolFS.lean: create/rename/remove of a directory entry are atomic and durable at once (the property's crash model "
        "only drops file DATA); file data is durable after fsync; a crash keeps, per file, the durable data plus ANY prefix of the data written since "
        "(between-operations, torn write and drop-unsynced are the three named instances)",
        "MUTATING file-system calls do not fail (errors of create/write/fsync/rename are outside the property's quantifier; transient failures of the read-only calls of the "
        "start-up scan and of openMessage are modelled and injected); message ids are unique; "
        "the delivery TARGET does not panic (a panic quarantines the message as .meta_broken by design: hypothesis `quarantined = false` of C02_accepted_survives); "
        "the monitor only excuses panics the harness scripted into the target - a .meta_broken the queue produces on its own in a recovery run is a loss",
        "null reverse-path (MAIL FROM:<>): emitDSN produces no report, a recipient that fails for good is given up on (C02_terminal_outcome, C02_report_iff_sender); "
        "the monitor accepts that only after the target returned a permanent failure or maxTries temporary ones for that recipient",
        "encoding/json round trip of QueueMetadata (Codec.rt) and textproto.WriteHeader/ReadHeader round trip of an accepted header (hdrOk) are parameters of the model",
        "terminal outcome of a recipient (delivered by the target / named in a failure report) is the one established by C01; without a bounce pipeline a permanent failure is only logged",
        "non-Windows branch of updateMetadataOnDisk",
        "retry schedule: the conversion time.Duration(+Inf) (readDiskQueue's sentinel tries count under a scale > 1) is the amd64 one (-2^63; implementation-defined in Go): "
        "C02_no_attempt_yet_delay_amd64; with a saturating conversion the same holds for every even number of nanoseconds (C02_no_attempt_yet_delay_saturating_even), an odd one is the "
        "recorded counterexample C02_no_attempt_yet_saturating_odd_never_due; how long a nanosecond takes is outside the model (tie: the time-wheel monitor)",
    ]
    c.trusted_base += [
        "checks/c02.py import rewrite (\"os\" -> internal/verifshim/vos in an overlay copy of the CURRENT queue.go) and harness/internal/verifshim/vos "
        "(forwards every call to the real file system, keeps a shadow copy with per-file durable length; the shadow is compared with the real directory after every run)",
        "tools/extract spoolskel (go/ast walk printing the ordered os-call skeleton)",
        "quiescence of a real queue run is detected from the queue's own log messages (loaded N / removed message from disk / read message); a run is called stuck when neither a "
        "file-system call, nor a harness event, nor one of those log lines occurred for 25 s (6 s once a stuck run was seen) although that count says a delivery is still owed",
    ]
    return c.finish(
        rule="random scenarios: 1-5 messages in one spool directory (sequential, simultaneous or staggered transactions, or sequential with every delivery held back until the last "
        "transaction ended so that the stop finds a backlog), 1-3 recipients, envelope spelled plain / null reverse-path / "
        "internationalised + SMTPUTF8 / quoted local parts / mixed, headers with no field, one field, a field with an empty value, or two fields, written in several "
        "pieces, bodies of 0 (header-only message: the body file exists and is empty), 1, 2-300 bytes, fate commit / abort after Body / transaction still open, max_tries 1-3, "
        "max_parallelism of the recovery runs 1, 2 or 4 (mostly fewer slots than stored messages), per attempt and recipient ok|temporary|permanent|unclassified "
        "(fault density 0-90%), occasional panic of the delivery goroutine; the REAL queue (queue.go compiled against the recording os shim) runs each scenario to quiescence; "
        "then for EVERY mutating file-system call of the run, in the order the calls really interleaved: the directory as it is before the call, in the middle of the call when it "
        "is a write (1 byte, half, all but one byte, and every piece boundary), each with nothing lost / all un-synced data dropped (/ a random part of each file's un-synced data "
        "kept); a fresh REAL queue with recording target and bounce target is started on every such directory and run to quiescence with new scripted outcomes (whenever the directory "
        "holds something deliverable: a script that fails recipients temporarily/permanently from the first attempt of the recovery run on, and for a third of the directories also the all-ok script); that run is "
        "crashed again in the same way (depth 2: thorough tier for all, quick tier for a sample); per message id the whole history is replayed by the Lean model "
        "(call order, attempts, deliveries, reports, clean-up, final files incl. durable lengths and stored retry counters compared); plus hand-made directories "
        "(any subset of the five files, valid/garbage metadata written by the queue's own encoder in its acceptance-time and after-a-failure forms with every envelope spelling, valid/garbage header, "
        "files deleted between start-up scan and dispatch; empty and 1-byte body files, headers without fields / with empty fields) to reach every branch of readDiskQueue/openMessage; "
        "plus hand-made backlogs (`C02 backlog`): 3-5 complete stored messages, max_parallelism 1-2, first attempts of the recovery run failing temporarily, run to quiescence; "
        "a run that makes no progress at all for 25 s while the queue still owes a delivery is reported (C02/recovery-hang) and abandoned; "
        "(scenarios with 4-5 messages: a 30% sample of the crash points;) distinct = distinct per-id histories; "
        "every delivery attempt is scripted stage by stage (`O<add>/a<b>/<c>` plain target, `O<add>/n<b..>/<c>` target implementing PartialDelivery: AddRcpt per recipient, "
        "Body / BodyNonAtomic per accepted recipient, Commit, each ok|temporary|permanent|unclassified; a recipient counts as delivered only when Commit succeeded); "
        "hand-made directories are run up to three times in a row (clean stop in between), a third of them with a TRANSIENT fault (EMFILE, EIO, EACCES, ENFILE, EINTR, ENOMEM; "
        "injected by the os shim, once) in one read-only call of the start-up scan (open/read of .meta, stat of header/body) or of openMessage (open/read of .meta, stat of body, open of header), "
        "mostly followed by a fault-free restart; half of all scenarios / hand-made directories / backlogs use a spool directory with an unusual but legal name "
        "(`L<k>`: glob metacharacters [ ] * ? \\, an unbalanced bracket, spaces, percent signs, leading dash, quotes/braces/dollar, non-ASCII, 240 characters, a name ending in .meta); "
        "a size dimension (`G<a>,<e>`, `A<n>,…`, `M#<n>;<c>`): a handful of cases per run (more in the thorough tier) with 400-5000 (thorough: up to 20000) recipients, addresses made "
        "up to 180 bytes longer, error texts of the target / of the stored records up to 1500 (thorough 20000) bytes longer, i.e. meta-data files of 100 KiB to several MiB: hand-made "
        "directories holding such a record (acceptance-time and after-a-deferral image), and real runs in which the first attempt defers (nearly) every recipient and the process is "
        "stopped between the attempts (always) and at a sample of the other crash points, then restarted; "
        "Close racing with an open transaction (a sixth of the single-message scenarios): Start, AddRcpt, [Close,] Body, [Close,] Commit | Abort on the stopped queue (`Q`, `K`), "
        "process exit, restart on the same spool; a Commit that returns an error is recorded as NACK (token `N`, no step of the model); "
        "the retry schedule (`W<initial_retry_time us>,<retry_time_scale x100>,<post-init delay us>`): a third of all scenarios / hand-made directories / backlogs / big cases run — every "
        "segment, the first run and all restarts — under a production-shaped schedule scaled down to milliseconds (initial 0.5-3 ms, scale 0.75 / 1 / 1.25 / 1.5 / 2 / 3 / 4, post-init delay 0-3 ms) "
        "instead of the test helpers' 0 / 1 / 0; in every run the harness reads the queue's real time wheel every 2 ms; "
        "the origin of the accepted mail (`Y<k>`): a third of the real-run scenarios start their transactions with the MsgMetadata an endpoint of a running server produces — connection state with "
        "TCP (IPv4 / IPv6 + zone) or unix-socket addresses, HELO name, TLS state, resolved rDNS future, AUTH identity + password, traced or DontTraceSender, or a Conn without addresses — "
        "instead of the bare record (no Conn, untraced) of the repo's tests",
        explanation="inductive invariant over a small-step model in which every single file-system call is a step and a crash (any loss of un-synced data, any torn write) is possible in "
        "every state, recovery included to any depth; model tied to queue.go by the regenerated call skeleton (T1) and by exhaustive crash-point enumeration on the real code (T2); "
        "independent Go monitor on the real events (accepted-lost / stored-lost: in EVERY recovery run each pending recipient of a complete stored message is attempted and then delivered, "
        "reported, or still pending in a loadable .meta — over ALL later runs of a hand-made directory, a run that met a transient fault may only skip and keep the message; "
        "recovery-hang; aborted-delivered, foreign-recipient, resent-after-later-attempt, resent-after-delivery (a recipient whose outcome the queue had finished recording when the "
        "process stopped is attempted again), content); "
        "Queue.deliver is the model's deliverErrs (C02_delivered_only_if_committed, C02_commit_failure_delivers_nobody, C02_commit_failure_keeps_recipients); transient faults of the "
        "read-only calls are the choices scanFault / openFault (C02_scan_fault_entry_kept, C02_scan_fault_invisible, C02_skipped_entry_still_pending); "
        "a spool larger than max_parallelism: SysReachPar (dispatch needs a free delivery slot) is a sub-system of the free product of the ids, never exceeds the bound, and a slot "
        "holder always has an enabled own step and frees the slot after at most five of them (C02_backlog_*, C02_slot_*); header-only messages: the zero-length write is a stutter step "
        "and an empty body file is recovered like any other (C02_empty_*); the spool model is size-agnostic: load after store is the identity for every meta-data record "
        "(C02_meta_roundtrip_any_size; tied T2 by the big cases); acceptance = Commit returned nil, also on a stopped queue (choice commitStopped; C02_commit_acknowledges, "
        "C02_commit_on_stopped_queue_survives), and the spool holds a loadable entry only for acknowledged transactions or ones the sender never got a reply for "
        "(C02_loadable_only_if_acknowledged_or_unanswered); monitor: a transaction whose Commit returned an error or that was aborted is never attempted, now or after a restart "
        "(unacknowledged-delivered, aborted-delivered), an acknowledged one is (accepted-lost); "
        "the retry schedule: retryDelay / retryDue / restartDue mirror the wrapping 64-bit arithmetic of tryDelivery / readDiskQueue with the float power + conversion as a parameter "
        "(C02_restart_due_within_horizon, C02_retry_due_within_horizon, C02_restart_due_not_before_post; the message without any recorded attempt — sentinel tries count, power +Inf — is due "
        "right after the post-init delay under every schedule: C02_no_attempt_yet_due_at_once); monitor retry-never-due: no slot of the real time wheel is due later than the longest delay of "
        "the configured schedule + 10 minutes (the schedule is in milliseconds); a message that is, is never attempted (accepted-lost); "
        "the monitor reads stored meta-data records with its own field-by-field decoder (not the queue's types): a record that names its recipients is a stored message whatever else it "
        "carries, so a record the next process cannot load (origin data that encodes but does not decode) is a loss (accepted-lost / stored-lost), not an excused garbage file",
        search=search,
    )
