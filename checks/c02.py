"""C02 — queue spool survives a crash at any instant (DESIGN.md §4 C02)."""
import os
import re

from vlib import REPO

PKGS = ["./internal/target/queue/"]
QUEUE = "internal/target/queue/queue.go"
VOS = "github.com/foxcpp/maddy/internal/verifshim/vos"


def rewritten_queue(c):
    """overlay copy of the CURRENT queue.go whose "os" import is the recording shim; nothing else is changed."""
    src = open(os.path.join(REPO, QUEUE)).read()
    new, n = re.subn(r'(?m)^\t"os"$', '\tos "%s"' % VOS, src)
    ok = n == 1
    # every os.X used by queue.go must exist in the shim: the build fails otherwise (reported as harness failure)
    c.obligations.append(dict(name='queue.go imports "os" exactly once (rewritten to the recording shim vos)', kind="T2-setup", ok=ok,
                              detail="" if ok else "found %d import lines" % n))
    if not ok:
        c.proof_broken.append('queue.go: cannot rewrite the "os" import (%d matches)' % n)
    p = os.path.join(c.work, "queue_vos.go")
    open(p, "w").write(new)
    return {os.path.join(REPO, QUEUE): p}


def harness(c, n, replay_ops=None, name=None):
    ov = rewritten_queue(c)
    rc, out, outdir = c.go_harness(PKGS, "^TestVerifC02", n=n, replay_ops=replay_ops, extra_overlay=ov, name=name, timeout=2400)
    corr, _ = c.collect(outdir)
    c.correspond(corr)


def run(c):
    # T1: the ordered file-system call skeleton of the spool procedures, regenerated from the current tree
    c.extract("spoolskel", "SpoolSkel.lean")
    c.lean("C02")
    if c.replay:
        harness(c, 1, replay_ops=c.replay.get("replay_ops") or [])
    else:
        harness(c, 600 if c.thorough else 150)

    def search():
        c.seed += 1000
        harness(c, 120, name="search")

    return c.finish(rule="", explanation="", search=search)
