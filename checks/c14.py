"""C14 — password authentication succeeds only with the current password of the account (DESIGN.md §4 C14)."""

PKGS = ["./internal/auth/pass_table/", "./internal/endpoint/smtp/"]


def harness(c, n, replay_ops=None):
    rc, out, outdir = c.go_harness(PKGS, "^TestVerifC14", n=n, replay_ops=replay_ops)
    corr, _ = c.collect(outdir)
    c.correspond(corr)


def run(c):
    c.lean("C14")
    if c.replay:
        harness(c, 1, replay_ops=c.replay.get("replay_ops") or [])
    else:
        harness(c, 12000 if c.thorough else 500)

    def search():
        c.seed += 1000
        harness(c, 4000)

    c.assumptions += [
        "stored rows carry their parameters (bcrypt cost; argon2 time, memory, lanes; salt): the key derivations are symbolic and collision-free in EVERY input (sameKey: same parameters, same salt, same password "
        "modulo the scheme's password rule); HashVerify derives again with the parameters and salt read from the row and with nothing from the options or the environment of the verifying process "
        "(hashVerify takes runtime.GOMAXPROCS as an argument and ignores it: C14_verify_ignores_environment); in differential runs accounts are created / re-hashed over the grid of accepted parameters, rows made by an "
        "independent implementation of the documented format (x/crypto called directly with the parameters written into the string) are written into the table, and part of the histories run their argon2 "
        "verifications under runtime.GOMAXPROCS(1|2) (set around the call, alone, restored afterwards)",
        "hash functions are symbolic: verifying p against a row computed from q succeeds iff p = q (argon2, salted sha256: collision freedom assumed) "
        "or iff the 72-byte cyclic expansions of p++[0] and q++[0] are equal (bcrypt: x/crypto's key schedule, stated in the model and exercised on the real library, "
        "including passwords of 71/72/73 bytes, longer ones and embedded NUL bytes)",
        "PRECIS UsernameCaseMapped/UsernameCasePreserved.CompareKey, address.PRECISFold/PRECIS/Valid, strings.ToLower and the user-name map tables are parameters of the model; the general theorems hold for ALL "
        "normalisation functions and maps (no law is assumed about them); WHICH primitive each auth_map_normalize value applies (authz.NormalizeFuncs, NormalizeAuto) is modelled (normalizeFunc) and the theorems about "
        "the default normalisation (C14_auto_*) assume only that UsernameCaseMapped.CompareKey is idempotent at the name in question; in differential runs the values of the primitives over the history's names "
        "are computed by the library functions themselves (not through authz.NormalizeFuncs) and shipped on the op line",
        "overlapping logins: pass_table.AuthPlain is modelled as two atomic steps (the row is read; the verification of the row that was read returns), management operations are atomic; the harness controls the "
        "interleaving by holding logins inside the package's HashVerify functions / right after the table's Lookup (no clock is consulted for any verdict); the monitor accepts a verdict iff it is right for SOME "
        "table state inside the login's interval",
        "one authentication provider behind SASLAuth (the loop over several providers is not modelled); the credentials table itself does not fail (in-memory table)",
        "submission gate: the command sequencing of go-smtp's Conn (EHLO/AUTH/MAIL/RCPT/DATA/RSET) is modelled together with Session.Mail; a second EHLO inside an open transaction is not generated "
        "(it replaces the Session while the Conn keeps its transaction state; outside C14); the pipeline's early checks are an input of the model (Cmd.ehlo v: what they answer if the greeting runs them, as the reply code "
        "wrapErr derives); in the model, as in the code, only the greeting that creates the session runs them",
        "the LOGIN server (internal/auth/sasllogin) is modelled as a state machine over the client's responses (LoginSrv.next); responses are byte strings handed over unchanged (C14_login_server_hands_over_the_responses)",
    ]
    c.trusted_base += [
        "golang.org/x/crypto bcrypt/argon2, crypto/sha256 (symbolic in the model), golang.org/x/text/secure/precis (parameter), emersion/go-sasl PLAIN framing, foxcpp/go-smtp command loop (modelled, checked differentially)",
    ]
    return c.finish(
        rule="(1) histories of 1-12 (thorough: 1-16) operations {create with bcrypt/argon2/sha256/unknown scheme, set-password, delete, PLAIN with and without authorization identity, LOGIN, "
        "direct table authentication} over user names in exact / upper / mixed / title case, NFD, fullwidth spellings plus names PRECIS rejects, passwords that are empty, ASCII, non-ASCII, "
        "not UTF-8, 71/72/73 bytes, 72 bytes + different tails, hundreds of bytes, with NUL bytes; configurations: auth_map_normalize nil/auto/precis*/casefold/noop x "
        "auth_map nil/identity/email_localpart(_optional)/static (idempotent and not)/regexp (idempotent and not), LOGIN on/off; run against the REAL pass_table + SASLAuth + table modules and against the Lean model; "
        "the monitor keeps its own account -> last-password map, resolves user names with its OWN reading of the documented auth_map_normalize functions and of the identity/static/email_localpart maps "
        "(not with the code under test), and also sends every credential pair through the other mechanism. User names include pairs of distinct accounts that case folding / compatibility mapping / locale rules "
        "would merge (straße-strasse, final sigma, dotless i, capital sharp s, ligatures, dz digraphs), names with '@' that are not e-mail addresses, postmaster; passwords include the previous password of the "
        "account and the current password of another account. "
        "(1a) hash parameters: create with HashOpts over bcrypt cost 4..11 (plus below-min = default, over-max = refused), argon2 time 1..3 (now and then up to 16) x memory 0..1024 KiB (now and then 4/16 MiB) x lanes 1, 2, 3, 4, "
        "the CPUs of this machine, one more, 255 (rarely no pass / no lane: the argon2 panic is an explicit outcome), sha256; operation h: a row made by an independent implementation of the documented row format is written "
        "for the account (mostly a re-hash of the current password with other parameters or another scheme; salts of 8/16/32 bytes); ~27 % of the histories verify their argon2 rows with runtime.GOMAXPROCS lowered to 1 or 2; "
        "the monitor also reads every row the code writes with its own reading of the format: the parameters written must be the ones asked for and the password just set must reproduce the key under them. "
        "(1b) overlapping logins inside the histories: 2-4 logins (PLAIN/LOGIN/direct; right, wrong, previous, another account's password; mostly one account) held inside their hash verification or right after "
        "reading their row so that they are in flight together, with set-password / delete / delete+create of the account in between, finished in any order or released together; each verdict must be right for some "
        "table state inside that login's interval. "
        "(1c) user names and passwords inside white space / control characters / wrapping (space, tab, CR, LF, CRLF, NBSP, U+3000 and other Unicode spaces, zero-width characters, NUL over LOGIN, quotes, angle brackets, trailing dot) "
        "around spellings of EXISTING accounts, mostly with the account's current password, over PLAIN, LOGIN (the real sasllogin server, with and without initial response) and the table directly, and as names of management calls: "
        "the reference resolution decides (PRECIS refuses most of them: no account, the login must fail); the identity and user name handed to the success callback must be the name as sent; every credential pair also goes through the other mechanism. "
        "(2) SMTP command sequences of 1-14 commands (plausible sessions with commands dropped/duplicated/moved, and random ones) against real submission and smtp endpoints over TCP, reply codes compared with the model; "
        "the endpoints carry a scripted early (connection-level) check whose verdict is set per command (passes at the greeting and turns into a rejection / temporary failure / plain error from the first AUTH on, at one AUTH only, from a random command on; "
        "bad at the first greeting(s) with a client that carries on or greets again; random), AUTH with the account's name inside white space; the monitor flags MAIL/RCPT/DATA answered < 400 or a delivered message before any AUTH answered 235, and a 235 for anything but the account's exact credentials. "
        "(3) call skeletons of the anchored functions re-derived from the current sources and compared with the expectation the model was written from. distinct = distinct op lines",
        explanation="theorems over all histories, names, passwords, schemes, hash parameters, salts and CPU counts of the verifying process, normalisation functions and user-name maps (no hypothesis on them); "
        "the table with full rows (scheme, parameters, salt, key) refines the table of (scheme, password) rows for histories of any length (C14_params_refine), verification succeeds iff password and parameters-as-stored "
        "reproduce the stored key (C14_verify_iff_reproduces_stored_key, C14_verify_computed_row, C14_other_parameters_other_key); over all interleavings of overlapping logins with management "
        "(a login's verdict is the sequential verdict at the point where it read its row, independent of the other logins); default normalisation addresses the account management addresses; gate theorem over all command sequences and all verdicts of the early checks (an AUTH that is not answered 235 changes nothing: C14_unsuccessful_auth_changes_nothing); LOGIN over the wire = the LOGIN closure on the responses as sent (C14_login_via_server, C14_login_wire_ok_iff); "
        "model tied to the code by differential runs of whole histories / sessions and by regenerated call skeletons",
        search=search,
    )
