"""C14 — password authentication succeeds only with the current password of the account (DESIGN.md §4 C14)."""

PKGS = ["./internal/auth/pass_table/", "./internal/endpoint/smtp/"]


def harness(c, n, replay_ops=None):
    rc, out, outdir = c.go_harness(PKGS, "^TestVerifC14", n=n, replay_ops=replay_ops)
    corr, _ = c.collect(outdir)
    c.correspond(corr)


def run(c):
    c.lean("C14")
    if c.replay:
        harness(c, 1, replay_ops=c.replay.get("replay_ops") or [])
    else:
        harness(c, 12000 if c.thorough else 500)

    def search():
        c.seed += 1000
        harness(c, 4000)

    c.assumptions += [
        "hash functions are symbolic: verifying p against a row computed from q succeeds iff p = q (argon2, salted sha256: collision freedom assumed) "
        "or iff the 72-byte cyclic expansions of p++[0] and q++[0] are equal (bcrypt: x/crypto's key schedule, stated in the model and exercised on the real library, "
        "including passwords of 71/72/73 bytes, longer ones and embedded NUL bytes)",
        "PRECIS UsernameCaseMapped.CompareKey, the auth_map_normalize functions and the user-name map tables are parameters of the model; every theorem holds for ALL such functions "
        "(no law is assumed about them); in differential runs their values over the history's names are computed by the real functions and shipped on the op line",
        "one authentication provider behind SASLAuth (the loop over several providers is not modelled); the credentials table itself does not fail (in-memory table)",
        "submission gate: the command sequencing of go-smtp's Conn (EHLO/AUTH/MAIL/RCPT/DATA/RSET) is modelled together with Session.Mail; a second EHLO inside an open transaction is not generated "
        "(it replaces the Session while the Conn keeps its transaction state; outside C14)",
    ]
    c.trusted_base += [
        "golang.org/x/crypto bcrypt/argon2, crypto/sha256 (symbolic in the model), golang.org/x/text/secure/precis (parameter), emersion/go-sasl PLAIN framing, foxcpp/go-smtp command loop (modelled, checked differentially)",
    ]
    return c.finish(
        rule="(1) histories of 1-12 (thorough: 1-16) operations {create with bcrypt/argon2/sha256/unknown scheme, set-password, delete, PLAIN with and without authorization identity, LOGIN, "
        "direct table authentication} over user names in exact / upper / mixed / title case, NFD, fullwidth spellings plus names PRECIS rejects, passwords that are empty, ASCII, non-ASCII, "
        "not UTF-8, 71/72/73 bytes, 72 bytes + different tails, hundreds of bytes, with NUL bytes; configurations: auth_map_normalize nil/auto/precis*/casefold/noop x "
        "auth_map nil/identity/email_localpart(_optional)/static (idempotent and not)/regexp (idempotent and not), LOGIN on/off; run against the REAL pass_table + SASLAuth + table modules and against the Lean model; "
        "the monitor keeps its own account -> last-password map and also sends every credential pair through the other mechanism. "
        "(2) SMTP command sequences of 1-14 commands (plausible sessions with commands dropped/duplicated/moved, and random ones) against real submission and smtp endpoints over TCP, reply codes compared with the model. "
        "(3) call skeletons of the anchored functions re-derived from the current sources and compared with the expectation the model was written from. distinct = distinct op lines",
        explanation="theorems over all histories, names, passwords, schemes, normalisation functions and user-name maps (no hypothesis on them); gate theorem over all command sequences; "
        "model tied to the code by differential runs of whole histories / sessions and by regenerated call skeletons",
        search=search,
    )
