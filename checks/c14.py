"""C14 — password authentication (DESIGN.md §4 C14)."""

PKGS = ["./internal/auth/pass_table/", "./internal/endpoint/smtp/"]


def harness(c, n, replay_ops=None):
    rc, out, outdir = c.go_harness(PKGS, "^TestVerifC14", n=n, replay_ops=replay_ops)
    corr, _ = c.collect(outdir)
    c.correspond(corr)


def run(c):
    c.lean("C14")
    if c.replay:
        harness(c, 1, replay_ops=c.replay.get("replay_ops") or [])
    else:
        harness(c, 3000 if c.thorough else 300)

    def search():
        c.seed += 1000
        harness(c, 1500)

    return c.finish(rule="", explanation="", search=search)
