"""C10 — the spool preserves message bytes and envelope, and never stores credentials (DESIGN.md §4 C10).

T1  Generated/MetaFields.lean : every struct field reachable from queue.QueueMetadata, by reflection inside the current
                                tree (TestVerifC10Fields, injected into internal/target/queue)
    Generated/MetaEnc.lean    : go/ast skeleton of updateMetadataOnDisk / readMessageMeta / DeepCopy and every file-writing
                                call of the queue package (tools/extract metaenc)
T2  C10 parse / rt            : the real textproto.ReadHeader / WriteHeader vs Model/Wire.lean
    C10 run                   : one message through the REAL queue under a history restart x retry vs Model/WireSpool.lean
    (C10 smtp)                : the same behind a REAL SMTP endpoint + pipeline; handed to the model as a `C10 run` line
    C10 fleet                 : SEVERAL messages through SEVERAL queue blocks built by NewQueue + Init from a configuration node
                                (instance names, location directive / inline argument / default place, max_parallelism) under load
                                (hanging next hops, busy delivery slots, two sessions at once), a restart of all blocks, and a process
                                that dies while a message body is copied into the spool, vs Model/WireSpool.lean (SpoolFleet)
T3  monitor                   : every attempt compared byte for byte with what was accepted; every spool file grepped for
                                the credentials of the authenticated connection; the other half - the target IS handed the
                                message while recipients are pending (by the recording target's own answers - every deferred
                                address ONCE: an address listed twice in the envelope is one recipient from the first attempt on,
                                handed over twice only while the accepted list has not been rewritten - minus the
                                recipients the queue logged a terminal failure for): a history's attempt step that does not
                                take place, or a spool entry gone / incomplete while somebody is pending, is
                                C10/pending-message-dropped; header/body files altered at rest C10/spool-content-changed;
                                failure reports (bounce pipeline attached) are events between attempts: every attempt after
                                a report - of the same queue or, for one source feeding TWO queues with the same metadata
                                pointer and header value, of the other queue - is compared like any other, and the header
                                value / metadata object the source still holds must be what was accepted
                                (C10/shared-header-changed, C10/shared-metadata-changed); a target that PANICS inside an
                                attempt (recovered by dispatch: entry marked as broken) and restarts that find a leftover
                                ID.meta.new beside the intact ID.meta: the credential scan covers every file whatever its suffix
                                (.meta_broken, .meta.new), the per-attempt rules whatever the target was handed before it
                                panicked, the pending rule every attempt step after such a restart;
                                header fields that speak about the envelope (TLS-Required in every spelling, Return-Path, ...)
                                whatever the accepted flags are: the override handed over is the accepted one; leftover
                                ID.header / ID.body / ID.meta.new files of the message's own id in the spool before it is
                                stored: every attempt still gets the accepted bytes, and right after acceptance / at rest the
                                header and body files are the accepted bytes, ID.meta one JSON document
                                (C10/spool-content-changed);
                                the ORIGINAL sender of a message (MsgMetadata.OriginalFrom) is a dimension of its own: a sender
                                rewritten before the queue (message that arrived with the null reverse-path, list / VERP-style
                                rewriting, a source that never set the field) - every attempt still carries the ACCEPTED sender
                                (C10/sender-changed) and the accepted original sender (C10/original-sender-changed), also at rest;
                                C10 fleet: whatever the next hop of a queue block is handed - first attempts made while the
                                block's delivery slots are busy, attempts after a restart of the server, attempts of a queue started
                                on what a process left that died in the middle of a store operation - carries the ID of a message
                                THAT block was given, with that message's sender, recipient, header bytes and body bytes
                                (C10/foreign-message-handed-over, C10/sender-changed, C10/pending-recipients-changed,
                                C10/header-bytes-changed, C10/body-bytes-changed); every accepted message has its first attempt and
                                every message left pending is handed over by ITS block after the restart (C10/pending-message-dropped)
"""
import os
import re
import sys

PKGS = ["./internal/target/queue/"]
RUN = "^TestVerifC10(Header|Run|Smtp|Fleet)$"


def gen_fields(c):
    """T1: regenerate Generated/MetaFields.lean by reflection over the CURRENT tree's types."""
    import vlib
    rc, out, outdir = c.go_harness(PKGS, "^TestVerifC10Fields$", name="fields")
    src = os.path.join(outdir, "c10_metafields.lean")
    if rc != 0 or not os.path.exists(src):
        c.obligations.append(dict(name="extract:metafields (reflection)", kind="T1", ok=False, detail=out[-1500:]))
        c.proof_broken.append("extract:metafields")
        return False
    content = open(src).read()
    with vlib.Lock("lean"):
        vlib.write_if_changed(os.path.join(vlib.LEAN, "MaddyVerif", "Generated", "MetaFields.lean"), content)
    c.stats["t1_fields_total"] = len(re.findall(r"^\s+⟨\[", content, re.M))
    c.stats["t1_fields_outside_conn"] = len([l for l in content.split("\n") if l.strip().startswith("⟨[") and '"Conn"' not in l])
    return True


def harness(c, n, replay_ops=None):
    rc, out, outdir = c.go_harness(PKGS, RUN, n=n, replay_ops=replay_ops, timeout=2400)
    corr, _ = c.collect(outdir, names=["c10_hdr", "c10_run", "c10_smtp", "c10_fleet"])
    c.correspond(corr)


def run(c):
    gen_fields(c)
    c.extract("metaenc", "MetaEnc.lean")
    c.lean("C10")
    c.trusted_base += [
        "encoding/json gives back every valid-UTF-8 string, bool, []string and map[string]string it is given (sampled by every C10 run case); "
        "bufio.Reader buffering is invisible to ReadHeader (lines up to 9000 bytes, CR at the 4096-byte boundary sampled)",
        "go-message textproto v0.18.2 as pinned by go.mod: WriteHeader/ReadHeader are modelled by hand (Model/Wire.lean) and tied by C10 parse/rt differential runs, "
        "including malformed input; formatHeaderField (fields added with Header.Add) is not modelled - its output is checked to be well-formed on every generated case",
    ]
    if c.replay:
        harness(c, 1, replay_ops=c.replay.get("replay_ops") or [])
    else:
        harness(c, 40000 if c.thorough else 3000)

    def search():
        c.seed += 1000
        harness(c, 6000)

    return c.finish(
        rule="(a) header blobs: 0-48 fields, names from a realistic pool and random printable names, values empty / blank / 8-bit (UTF-8 and raw) / NUL, bare CR, DEL / "
        "1-9000 bytes without a space (across the 998 limit and the 4096-byte bufio buffer, CR at the boundary), 0-4 continuation lines incl. blank-only ones, duplicates, CRLF / bare LF / mixed line ends, "
        "with and without the blank line, followed by body bytes; 10-30% deliberately broken (no colon, bad key byte, empty key, leading blank, empty line inside) - parsed by the real ReadHeader and by the model; "
        "(b) raw-field lists through the real WriteHeader+ReadHeader and the model, 0-25% ill-shaped fields; "
        "(c) messages through the REAL queue: header = what ReadHeader makes of a generated blob + 1-3 fields added the way maddy adds them (Received, Authentication-Results, DKIM-Signature, long words) + 4% junk raw fields; "
        "bodies 0 B - 70 kB (and 1 MiB - 3 MiB) as MemoryBuffer or FileBuffer (removed right after Commit), text / all byte values / dot and CRLF.CRLF patterns / bare CR LF NUL / zeros; "
        "envelopes: 25% of the non-null senders with an ORIGINAL sender (MsgMetadata.OriginalFrom) that differs - the null reverse-path (two thirds) or another address: the sender was rewritten before the queue - plus 8 fixed cases; null sender, ASCII, IDN U-label and A-label, quoted local parts with spaces, quotes, @, controls, UTF-8 local parts, <>&, backslash, U+2028, 1-16 recipients, duplicates "
        "(6%: an address listed twice; deferred it is pending ONCE - every later attempt and the spool at rest must name it once, C10/pending-recipients-changed otherwise), OriginalRcpts nil / 0-11 entries, "
        "2% strings that are not valid UTF-8 (model predicts the U+FFFD replacement; outside the monitor's domain since the endpoint refuses them); SMTPUTF8 / REQUIRETLS / TLS-Required override in all 8 combinations, override set before or after Start; "
        "connection state absent / anonymous / authenticated (user name + password with JSON-escaped characters, AUTH= parameter); "
        "histories of 1-10 attempts against a partial or atomic target (per recipient: delivered / temporary at body / temporary or permanent at RCPT / nobody accepted) with 0-8 restarts (also idle ones, also between Body and Commit (`r` first), "
        "also after a Commit answered by a queue that is shutting down, i.e. an ACCEPTED message restarted before its first attempt (`R` first)); "
        "bounce pipeline absent / accepting / refusing (80% attached): every permanent failure of a non-null-sender message makes the queue generate a failure report between attempts "
        "(the model predicts when, to whom, in which format, quoting which header, and when generation fails for want of an ASCII form of a Unicode local part); "
        "18% of the cases (and two thirds of a 64-case bounce grid) feed TWO queue instances from one source - same metadata pointer, same header value, same body, own recipients and histories - "
        "queue A running its first attempts and reports before queue B's Commit; bounce grid: 8 history shapes with a report after the in-memory attempt / after attempts from the spool / in every attempt / "
        "right before a restart / with recipients still pending, given-up recipient or sender with a Unicode local part x SMTPUTF8 on/off, OriginalRcpts chains, "
        "headers with Bcc / Resent-Bcc / Return-Path / Received / DKIM-Signature / MIME fields in any position under a Received field added by maddy; "
        "an edge grid on top: body sizes 0, 1, 2, 4095-4097, 32767-32769, 1 MiB-1 .. 1 MiB+1 x Memory/FileBuffer x header with no field at all (blob = CRLF) / generated x six history shapes "
        "(R.attempts, R.r.attempts, all-deferred.r.attempts, atomic-deferred.partial-deferred.r.r.attempts, r.attempts, all-deferred.r at rest); "
        "a downstream target that PANICS (panic recovery active, the production default) at Start / in its first AddRcpt / at the body stage / in the final Commit or Abort - in the first attempt served from memory "
        "(connection state of the authenticated session attached) or from the spool, in a retry, after a restart - in 10% of the random cases and a 24-case grid, followed by restarts and attempt steps that must not take place; "
        "restarts that find a leftover ID.meta.new of an interrupted meta-data rewrite beside the intact ID.meta (empty, one byte, a quarter, half, cut inside a recipient / at the sender string / before the closing brace / "
        "before the final newline / inside a multi-byte character, complete) at 25% of the random restart steps and in a 60-case grid; "
        "header fields that speak about the envelope - TLS-Required in 18 spellings (case, no blank, folded, blank-only continuation, trailing blanks, blank before the colon, twice, Yes+No in both orders, "
        "Yes, comment, word folded in the middle, empty, quoted, X- prefix, None), Return-Path, Delivered-To, X-Original-To, Original-Recipient, X-Envelope-*, 8bit/charset fields - at the top / in the middle / at the bottom / spread, "
        "in 30% of the random cases INDEPENDENTLY of the accepted override and REQUIRETLS flags, plus a 72-case grid spelling x (override, REQUIRETLS) x histories with attempts read back from the spool; "
        "leftover files ID.header / ID.body / ID.meta.new of the message's own id lying in the spool when it is stored (longer by 1 B - 70 kB, same length, shorter, empty; header leftover = another message's well-formed header, "
        "meta leftover = another message's JSON document) in 20% of the random cases and an 80-case grid x (first attempt over the spool's body file, in-process retry, after a restart, after R / a crash before Commit, at rest); "
        "(d) the same behind a real SMTP endpoint and pipeline over TCP (AUTH PLAIN, SMTPUTF8, REQUIRETLS, BODY=8BITMIME, TLS-Required: No header, dot-stuffed DATA, bodies above the 1 MiB spill threshold, addresses that are not valid UTF-8; "
        "25% with the sender rewritten between the endpoint and the queue (W=: VERP-style or generated address; the client's MAIL FROM, <> included, stays the original sender) plus 8 fixed cases; TLS-Required spellings and the other envelope fields on top of 35% of the client headers, leftover files of the id the endpoint gave the message in 20%; 10% with the queue shut down right before Commit and restarted before the first attempt; bounce pipeline attached in 80%, Bcc field from the client in 20%; the same edge grid: empty body, a lone line end, 4 KiB / 32 KiB / 1 MiB boundaries, client header = CRLF only); "
        "(e) fleets: 1-3 target.queue blocks configured through NewQueue + Init (instance names from a pool and from families that differ only in case / an extension / blanks / a path prefix / the module name; "
        "spool = default place under the state directory (65%), location directive or inline argument), max_parallelism 1-3, 2-7 messages with sender, recipient, header (2-6 fields) and body (0 B - 1 MiB) of their own, "
        "20% carrying the ID of a message of ANOTHER block; first attempt taken / deferred / hanging in the next hop's Start (holding a delivery slot, so that later messages of the block wait for one), "
        "25% of the messages stored while the previous one is not committed yet (two sessions at once); then all blocks shut down and started again with the next hops up; "
        "up to two messages per case stored by a process that dies after 0, 1/4, 1/2, 3/4 of the body was read resp. right after the last byte (a copy of the spool directory taken at that instant; a queue is started on it); "
        "distinct = distinct op lines",
        explanation="theorems over all headers, bodies, envelopes and histories; decide over the regenerated field table and code skeleton; "
        "models tied to textproto and queue.go by differential runs; the monitor compares every attempt with what was accepted, greps the spool for the credentials, "
        "and requires that a message with pending recipients is attempted when the history says so and is complete and unaltered in the spool whenever the queue is at rest; "
        "failure reports generated between attempts (and by a second queue sharing header value and metadata) must leave every later attempt and the source's own header / metadata as accepted; "
        "the store step is 'file := new content' (C10_store_overwrites_leftovers; os.Create pinned by the regenerated writer list), the envelope handed over never depends on the header (C10_override_does_not_depend_on_the_header), the sender handed over is the accepted one whatever the original sender is (C10_sender_handed_does_not_depend_on_the_original_sender); "
        "what an attempt leaves pending is the set of the deferred addresses, each once, in order of first occurrence (C10_pending_is_the_retry_set_each_once, C10_repeated_recipient_is_pending_once); "
        "blocks with distinct instance names keep their files in distinct places, a restarted block hands its next hop exactly the entries it stored itself, a store operation that is interrupted leaves no entry "
        "(C10_fleet_dirs_distinct, C10_fleet_restart_hands_own_messages_only, C10_fleet_restart_hands_every_pending_message, C10_fleet_crash_while_storing_leaves_no_entry, C10_fleet_spool_holds_accepted_messages_only)",
        search=search,
    )


if __name__ == "__main__" and len(sys.argv) > 1 and sys.argv[1] == "gen":
    # bin/setup: regenerate Generated/MetaFields.lean without running the check
    sys.path.insert(0, os.path.join(os.path.dirname(os.path.dirname(os.path.abspath(__file__))), "lib"))
    import vlib
    cc = vlib.Check("C10", tier="setup")
    ok = gen_fields(cc)
    print("MetaFields.lean", "regenerated" if ok else "FAILED")
    sys.exit(0 if ok else 1)
