"""C10 — the spool preserves message bytes and envelope, and never stores credentials (DESIGN.md §4 C10)."""

PKGS = ["./internal/target/queue/"]


def harness(c, n, replay_ops=None):
    rc, out, outdir = c.go_harness(PKGS, "^TestVerifC10", n=n, replay_ops=replay_ops)
    corr, _ = c.collect(outdir)
    c.correspond(corr)


def run(c):
    c.lean("C10")
    if c.replay:
        harness(c, 1, replay_ops=c.replay.get("replay_ops") or [])
    else:
        harness(c, 6000 if c.thorough else 600)

    def search():
        c.seed += 1000
        harness(c, 3000)

    return c.finish(
        rule="",
        explanation="",
        search=search,
    )
