"""C04 — routing follows the documented precedence (DESIGN.md §4 C04)."""

PKGS = ["./internal/msgpipeline/"]


def harness(c, n, replay_ops=None):
    rc, out, outdir = c.go_harness(PKGS, "^TestVerifC04", n=n, replay_ops=replay_ops)
    corr, _ = c.collect(outdir)
    c.correspond(corr)


def run(c):
    # T1: directive case lists, first-declaration-wins guards, the completeness refusal and the lookup order,
    # regenerated from the current tree; Props/C04 compares them with Expect/Pipeline.lean
    c.extract("pipeline", "Pipeline.lean")
    c.lean("C04")
    if c.replay:
        harness(c, 1, replay_ops=c.replay.get("replay_ops") or [])
    else:
        harness(c, 60000 if c.thorough else 5000)

    def search():
        c.seed += 1000
        harness(c, 20000)

    c.assumptions += [
        "address.ForLookup, dns.ForLookup, validMatchRule and address.Valid are parameters of the model (their tables over the strings of each case are computed by the real functions); "
        "that spellings differing in letter case, NFC/NFD form or A-label/U-label have equal lookup keys is C17's subject and is sampled here on the real functions",
        "table modules are finite maps without lookup errors of their own (they answer after a scripted latency in virtual time and return the error of their context when it ends first); "
        "checks pass; delivery targets accept every recipient",
    ]
    return c.finish(
        rule="random pipeline configurations from the directive grammar (source/source_in/default_source, destination/destination_in/default_destination, check, modify with "
        "replace_rcpt/replace_sender incl. 1-to-N and local-part rewriting, source_in/destination_in table modules that honour their context and answer after a scripted latency "
        "(virtual time; 2-4 tables sharing keys with pairwise different latencies = every answering order relative to the declaration order), deliver_to with 1-2 targets, reject in every documented form (no argument / basic code / + enhanced code / + description; every 4xx and 5xx basic code, enhanced class 4 or 5 chosen "
        "independently of the basic code's class, 1-3 digit subject/detail numbers, 21 descriptions) and with ~40 kinds of malformed arguments, reroute nested up to depth 2, plus every kind of malformed configuration) "
        "rendered to text, read by the real cfgparser and msgpipeline.New; 2-8 envelopes each (1-3 recipients) over an alphabet of 4 local parts x 4 domains in case / NFC / NFD / "
        "A-label spellings, plus (a few per cent of all addresses, rules, table keys and replacement values) 12 unusual but valid domains (underscore, IPv4/IPv6 address literals, '--' in positions 3-4, "
        "leading digit, all-numeric, single label, leading/trailing hyphen, ZWJ, sharp s with its A-label) and 5 unusual local parts (+tag, apostrophe, underscore, digits, '=~'), 5 local parts and 5 domains with letters for which case mapping and normalisation interact "
        "(U+0130 / I+U+0307, U+212B, Greek with tonos / oxia, capital sigma at the end of a word, U+01F0; each in 2-6 spellings incl. A-labels), quoted local parts, null sender, "
        "postmaster and malformed addresses; load verdict, MAIL/RCPT replies (basic code, enhanced code, description) and the ordered hand-offs to recording targets are compared with the Lean "
        "model; an oracle written from the documentation (with its own statement of the lookup-key normalisation, independent of framework/address and framework/dns), a completeness walk over the loaded blocks and spelling-variant envelopes form the monitor; distinct = distinct cases",
        explanation="theorems over all configurations of any nesting depth, all envelopes and all normalisation functions; model tied to config.go / msgpipeline.go / replace_addr.go by differential runs",
        search=search,
    )
