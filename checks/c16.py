"""C16 — error replies are coherent (DESIGN.md §4 C16)."""

PKGS = ["./internal/endpoint/smtp/", "./internal/check/dnsbl/", "./internal/check/dns/", "./internal/target/queue/", "./internal/msgpipeline/", "./internal/check/milter/", "./internal/target/remote/", "./internal/target/smtp/"]


def harness(c, n, replay_ops=None):
    rc, out, outdir = c.go_harness(PKGS, "^TestVerifC16", n=n, replay_ops=replay_ops)
    corr, _ = c.collect(outdir)
    c.correspond(corr)


def literal_scan(c):
    """Failing-input search for the literal-table obligations: name the incoherent literal itself."""
    import os, re
    from vlib import LEAN
    src = open(os.path.join(LEAN, "MaddyVerif/Generated/SmtpLits.lean")).read()
    sec = src[src.index("def constLits"):src.index("def notSetLits")]
    n = 0
    for m in re.finditer(r'\("([^"]+)", (\d+), (\d+), (\d+), (\d+), (\d+)\)', sec):
        f, line, code, a, s_, d = m.group(1), *map(int, m.groups()[1:])
        n += 1
        if code // 100 != a or a not in (4, 5):
            c.violations.append(dict(sig="C16/literal-class-mismatch", op="%s: SMTPError{Code: %d, EnhancedCode: {%d,%d,%d}}" % (f, code, a, s_, d),
                                     detail="literal at %s:%d pairs a %dyz basic code with a %d.x.x enhanced code" % (f, line, code // 100, a), source="Generated/SmtpLits.lean"))
    sec = src[src.index("def helperLits"):src.index("def dynamicLits")]
    for m in re.finditer(r'\("([^"]+)", (\d+), (\d+), (\d+), (\d+), (\d+)\)', sec):
        f, line, t, p_, s_, d = m.group(1), *map(int, m.groups()[1:])
        n += 1
        if t // 100 != 4 or p_ // 100 != 5:
            c.violations.append(dict(sig="C16/helper-literal-class-mismatch", op="%s: SMTPCode(_, %d, %d)" % (f, t, p_),
                                     detail="helper literal at %s:%d" % (f, line), source="Generated/SmtpLits.lean"))
    c.stats["literals_scanned"] = n


def run(c):
    if c.extract("smtplits", "SmtpLits.lean"):
        literal_scan(c)
    c.lean("C16")
    if c.replay:
        harness(c, 1, replay_ops=c.replay.get("replay_ops") or [])
    else:
        harness(c, 60000 if c.thorough else 4000)

    def search():
        c.seed += 1000
        harness(c, 100000)

    return c.finish(
        rule="error trees generated from the wrapping primitives (depth 0-12, 75% satisfying the theorem hypotheses, 25% arbitrary), "
        "passed through the real wrapErr / toSMTPErr / SMTPCode / SMTPEnchCode / reject-directive parsers and through the Lean model; "
        "next-hop failures: every kind of SMTP client error (replies: 20 basic codes x no / same-class / other-class enhanced code, 552 over-represented; "
        "network, DNS, TLS errors; arbitrary values) through the real smtpconn.wrapClientErr; scripted MX candidates (1-4; policy refusal with an arbitrary "
        "error value, dial failure, greeting / EHLO / MAIL / RCPT / DATA / end-of-data reply of a scripted server parsed by the real go-smtp client; every order of "
        "temporary / permanent / unclassified failures over 1-3 candidates) through the real remote AddRcpt / newConn / lookupMX / BodyNonAtomic; the same for the "
        "endpoints and LMTP statuses of target.smtp / target.lmtp; multipleErrs; each resulting VALUE then through the real wrapErr and toSMTPErr; "
        "histories of 1-6 delivery attempts for one recipient through the REAL queue (tryDelivery / deliver / emitDSN; every sequence of 1-3 failures over "
        "temporary / permanent x annotated / unannotated / unclassified, random beyond; the failure at Start / AddRcpt / Body / a BodyNonAtomic status / Commit; "
        "attempt bound 1-5; restarts between attempts), the .meta record read after EACH attempt and the failure report handed to the bounce pipeline parsed with the "
        "stdlib; the real dsn.GenerateDSN on stored errors of both classes, 1-3 recipient groups, every action; "
        "failures of maddy's own limits: a REAL limits.Group (built by Init) refusing a message — every scope (all / ip / source / destination) x concurrency / rate "
        "(alone, combined, the other scopes limited or not) x the wait ended by an expired deadline / a deadline passing during the wait / a cancelled context / the bucket "
        "table of the scope full (20011 buckets in use) — the error value as it is (what Session.Mail hands to wrapErr), through the real remote Target.Start and "
        "AddRcpt / connectionForDomain, then through the real wrapErr and toSMTPErr; MAIL / first RCPT on the real endpoint (in-memory connection) with a full per-IP / "
        "per-source table, defer_sender_reject on and off; AUTH exchanges on the real endpoint (go-smtp handleAuth, Session.Auth, SASLAuth.CreateSASL / AuthPlain): "
        "PLAIN (with / without initial response, authorization identity empty / equal / different), LOGIN, LOGIN while disabled, an unknown mechanism x 1-3 scripted "
        "providers each accepting or failing with any error tree (temporary / permanent / unclassified, annotated or not, internal texts) x auth_map hit / miss / lookup "
        "failure x normalisation failure, the final reply read from the wire; "
        "messages with 2-4 recipients through the REAL queue whose failures in ONE attempt have the same Error() text and differ in class / basic code / enhanced "
        "code / Go type / wrappers (three families: reply text, text of the cause, DNS error text; every (retried, not retried) pair in both envelope orders, triples in "
        "all six orders, attempt bound 1-4, restarts), the record of EACH recipient read from the .meta file and from its own group of the report; "
        "target.smtp / target.lmtp configured by the real `auth` directive (plain / forward with and without client credentials / external / off), the AUTH command "
        "answered by the scripted next hop with 235, every reply class (535 5.7.8, 454 4.7.0, without enhanced code, 552, a 2xx that is not 235, incoherent ones), a dropped "
        "connection, garbage, an unexpected challenge; "
        "round 10: interrupted lookups (context.Canceled / deadline bare and as the resolver / net wrap them: DNSError with a cause, OpError, marker and field wrappers) "
        "at every site of the SMTPCode / SMTPEnchCode pair (remote MX lookup, no usable MX, smtpconn dial errors, check.dnsbl, require_mx_record, require_matching_rdns); "
        "1-3 statuses for ONE recipient within one attempt of a partial-delivery target (every ordered pair of the five failure classes, success statuses between, triples); "
        "the real dnsbl checkLists with 1-4 lists (clean / listed with a score / lookup failing with any error value; ip4, ip6, EHLO, MAIL FROM identities; every ordered pair "
        "of 13 failure values), each failed list alone and all together; sessions of several transactions on the real endpoint (MAIL with / without SMTPUTF8 whose delivery start "
        "succeeds or fails with any value, RCPT, RSET in any order, 2-8 commands, defer_sender_reject on / off), every reply read from the wire; "
        "distinct = distinct op lines",
        explanation="theorems over all error trees, all client errors, all lists of per-MX / per-endpoint outcomes, all histories of attempts (any length, any attempt "
        "bound, any starting state), all lists of stored errors in a report, all envelopes of recipients in one attempt (the record of a recipient is a function of its own error only), "
        "all auth configurations x answers to AUTH of a downstream, all ways a limit refuses a message, all AUTH scripts (any number of providers, any "
        "error values: the reply is a function of which steps failed only) + decide over the regenerated literal table; "
        "all lists of statuses for one recipient (record and decision come from the last failure), all lists of DNSBL outcomes under any scheduling, "
        "all sequences of MAIL / RCPT / RSET commands (a refusal answers the open transaction under its own SMTPUTF8 flag) + "
        "model tied to the code by differential runs (the real error values are abstracted into model terms node by node and compared)",
        search=search,
    )
