package parser

// C20, resource monitor for the parse itself (strengthening round 8).
//
// "Configuration parsing terminates without crashing for any byte string": a goroutine stack overflow is a
// fatal error of the Go runtime — no recover(), the whole process dies — so an input that makes the
// reader recurse once per nesting level / per line / per import, without a limit that is applied WHILE it
// recurses, crashes maddy. Nothing of that can be observed in-process: the inputs of this file are parsed in
// a CHILD PROCESS (the test binary re-executed with -test.run=^TestVerifC20DeepChild$) whose goroutine stacks
// are capped at c20DeepMaxStack by debug.SetMaxStack. The cap is a few hundred times what the reader needs
// at its own nesting limit (257 levels, a few hundred bytes of stack per level) and about a tenth of what one
// frame pair per level of the generated inputs would need, so the verdict does not depend on the exact
// frame sizes: a reader whose recursion is bounded by its limits passes with a wide margin, a reader
// that recurses with the input does not.
//
// The inputs are generated from a few numbers (shape, levels, closing braces, variant) — several hundred
// thousand levels, never stored; the op line `C20 deep <shape> <levels> <close> <variant>` carries exactly
// those numbers and replays the case.
//
// Demanded of every case: the child comes back (exit status 0, result line written) having produced an
// error or a tree; a tree must not be deeper than the parser's own limit (the depth is computed without
// recursion). A child that dies is the violation C20/crash.

import (
	"bufio"
	"bytes"
	"fmt"
	"os"
	"os/exec"
	"path/filepath"
	"runtime/debug"
	"strconv"
	"strings"
	"testing"
	"time"

	"github.com/foxcpp/maddy/internal/verifshim/vh"
)

const (
	c20DeepEnv      = "VERIF_C20_DEEP_CHILD"
	c20DeepMaxStack = 32 << 20
	c20DeepMark     = "C20DEEP "
)

type c20DeepSpec struct {
	shape   string
	levels  int
	closeN  int
	variant int
}

func (s c20DeepSpec) op() string {
	return fmt.Sprintf("C20 deep %s %d %d %d", s.shape, s.levels, s.closeN, s.variant)
}

func c20DeepParseOp(op string) (c20DeepSpec, bool) {
	f := strings.Fields(op)
	if len(f) != 6 || f[0] != "C20" || f[1] != "deep" {
		return c20DeepSpec{}, false
	}
	l, e1 := strconv.Atoi(f[3])
	c, e2 := strconv.Atoi(f[4])
	v, e3 := strconv.Atoi(f[5])
	if e1 != nil || e2 != nil || e3 != nil || l < 0 || c < 0 || l > 5000000 || c > 5000000 {
		return c20DeepSpec{}, false
	}
	return c20DeepSpec{f[2], l, c, v}, true
}

var c20DeepShapes = []string{"block", "block-args", "oneline", "decl-close", "snip-close", "edge-close", "mixed", "snippet-body", "file-body", "import-nest", "import-files", "continuation", "flat"}

// c20DeepInput writes the input (and the files of the configuration directory) of a case.
func c20DeepInput(s c20DeepSpec) (main []byte, files map[string][]byte) {
	files = map[string][]byte{}
	var b bytes.Buffer
	L := s.levels
	rep := func(w *bytes.Buffer, unit string, n int) {
		w.Grow(len(unit) * n)
		for i := 0; i < n; i++ {
			w.WriteString(unit)
		}
	}
	names := []string{"a", "blk", "x.y", "é"}
	nm := names[((s.variant%len(names))+len(names))%len(names)]
	switch s.shape {
	case "block": // a {\n a {\n … }\n }\n
		rep(&b, nm+" {\n", L)
		if s.variant%2 == 1 {
			b.WriteString("leaf 1\n")
		}
		rep(&b, "}\n", s.closeN)
	case "block-args": // headers with arguments, quoted ones and a comment
		rep(&b, nm+" arg \"q r\" 3 { # c\n", L)
		rep(&b, "}\n", s.closeN)
	case "oneline": // all on one physical line
		rep(&b, nm+" { ", L)
		b.WriteString("\n")
		rep(&b, "}\n", s.closeN)
	case "decl-close": // a block "closed" by a macro declaration on the same line
		decl := []string{"$(m) = v }", "$(m) = v w }", "$(m) = \"a b\" }"}[((s.variant%3)+3)%3]
		rep(&b, "x { "+decl+"\n", L)
		rep(&b, "}\n", s.closeN)
	case "snip-close": // … by a snippet declaration
		rep(&b, "x { (s) }\n", L)
		rep(&b, "}\n", s.closeN)
	case "edge-close": // blocks opened on one line and closed by `}` as the last argument of a directive
		rep(&b, nm+" {\n", L)
		rep(&b, "d 1 }\n", s.closeN)
	case "mixed": // same-line declarations of both kinds, then ordinary blocks
		// (declarations first: below an ordinary block they are refused at once)
		for i := 0; i < L/2; i++ {
			if i%2 == 0 {
				b.WriteString("x { $(m) = v }\n")
			} else {
				b.WriteString("y { (s) }\n")
			}
		}
		rep(&b, nm+" {\n", L-L/2)
		rep(&b, "}\n", s.closeN)
	case "snippet-body": // the deep text is the body of a snippet
		b.WriteString("(deep) {\n")
		rep(&b, nm+" {\n", L)
		rep(&b, "}\n", s.closeN)
		b.WriteString("}\nimport deep\n")
	case "file-body": // … or an imported file
		var f bytes.Buffer
		rep(&f, nm+" {\n", L)
		rep(&f, "}\n", s.closeN)
		files["big"] = f.Bytes()
		b.WriteString("top {\n import big\n}\n")
	case "import-nest": // a snippet importing itself below a block: one level per expansion
		b.WriteString("(a) {\n " + nm + " {\n  import a\n }\n}\n")
		rep(&b, "import a\n", 1+s.variant%3)
	case "import-files": // files importing each other, each time one block deeper
		files["f1"] = []byte("u {\n import f2\n}\n")
		files["f2.conf"] = []byte("v {\n import f1\n}\n")
		b.WriteString("import f1\n")
	case "continuation": // one directive over L physical lines
		rep(&b, nm+" 1 \\\n", 1)
		rep(&b, " 2 \\\n", L)
		b.WriteString(" 3\n")
	default: // "flat": L directives, no nesting at all
		rep(&b, nm+" 1 2\n", L)
	}
	return b.Bytes(), files
}

// c20DepthIter: depth of a tree, without recursion (the tree may be as deep as the input).
func c20DepthIter(ns []Node) (depth, count int) {
	type fr struct {
		ns []Node
		d  int
	}
	stack := []fr{{ns, 1}}
	for len(stack) > 0 {
		f := stack[len(stack)-1]
		stack = stack[:len(stack)-1]
		for i := range f.ns {
			count++
			if f.d > depth {
				depth = f.d
			}
			if len(f.ns[i].Children) != 0 {
				stack = append(stack, fr{f.ns[i].Children, f.d + 1})
			}
		}
	}
	return
}

// TestVerifC20DeepChild is the child side; it does nothing unless started by TestVerifC20Deep.
func TestVerifC20DeepChild(t *testing.T) {
	list := os.Getenv(c20DeepEnv)
	if list == "" {
		return
	}
	debug.SetMaxStack(c20DeepMaxStack)
	base, err := os.MkdirTemp("", "verifc20deep")
	if err != nil {
		t.Fatal(err)
	}
	defer os.RemoveAll(base)
	dir := filepath.Join(base, "conf")
	w := bufio.NewWriter(os.Stdout)
	say := func(s string) {
		w.WriteString(c20DeepMark + s + "\n")
		w.Flush()
	}
	for idx, op := range strings.Split(list, ";") {
		spec, ok := c20DeepParseOp(op)
		if !ok {
			say(fmt.Sprintf("end %d bad-op", idx))
			continue
		}
		os.RemoveAll(dir)
		os.MkdirAll(dir, 0o755)
		input, files := c20DeepInput(spec)
		for name, content := range files {
			os.WriteFile(filepath.Join(dir, name), content, 0o644)
		}
		say(fmt.Sprintf("begin %d %d", idx, len(input)))
		obs := func() (obs string) {
			defer func() {
				if p := recover(); p != nil {
					obs = "panic " + strings.ReplaceAll(fmt.Sprint(p), "\n", " ")
				}
			}()
			nodes, err := Read(bytes.NewReader(input), filepath.Join(dir, "main.conf"))
			if err != nil {
				cls, _ := c20ErrClass(err)
				return cls
			}
			d, n := c20DepthIter(nodes)
			return fmt.Sprintf("ok depth=%d nodes=%d", d, n)
		}()
		say(fmt.Sprintf("end %d %s", idx, obs))
	}
}

// c20DeepRun parses the cases in child processes and returns, per case, the observation; "" = the child
// died on it (detail says how).
func c20DeepRun(specs []c20DeepSpec) (obs []string, detail []string) {
	obs = make([]string, len(specs))
	detail = make([]string, len(specs))
	next := 0
	for next < len(specs) {
		var ops []string
		for _, s := range specs[next:] {
			ops = append(ops, s.op())
		}
		cmd := exec.Command(os.Args[0], "-test.run=^TestVerifC20DeepChild$", "-test.timeout=20m")
		cmd.Env = append(os.Environ(), c20DeepEnv+"="+strings.Join(ops, ";"))
		var stdout, stderr bytes.Buffer
		cmd.Stdout, cmd.Stderr = &stdout, &stderr
		runErr := cmd.Run()
		began, ended := -1, -1
		for _, line := range strings.Split(stdout.String(), "\n") {
			if !strings.HasPrefix(line, c20DeepMark) {
				continue
			}
			f := strings.SplitN(strings.TrimPrefix(line, c20DeepMark), " ", 3)
			if len(f) < 2 {
				continue
			}
			i, err := strconv.Atoi(f[1])
			if err != nil || next+i >= len(specs) {
				continue
			}
			switch f[0] {
			case "begin":
				began = i
			case "end":
				ended = i
				if len(f) == 3 {
					obs[next+i] = f[2]
				}
			}
		}
		if runErr == nil && ended == len(specs)-next-1 {
			return
		}
		// the child died: on the case it had begun, or (should not happen) between two cases
		died := ended + 1
		if began > ended {
			died = began
		}
		if next+died >= len(specs) {
			return
		}
		msg := strings.TrimSpace(stderr.String())
		if msg == "" {
			msg = strings.TrimSpace(stdout.String())
		}
		first := ""
		for _, l := range strings.Split(msg, "\n") {
			if strings.HasPrefix(l, "runtime: goroutine stack exceeds") || strings.HasPrefix(l, "fatal error:") || strings.HasPrefix(l, "panic:") {
				first += strings.TrimSpace(l) + "; "
			}
		}
		if first == "" && len(msg) > 300 {
			first = msg[:300]
		} else if first == "" {
			first = msg
		}
		obs[next+died] = ""
		detail[next+died] = fmt.Sprintf("%v: %s", runErr, first)
		next += died + 1
	}
	return
}

func c20DeepSpecs(seed uint64, thorough bool) []c20DeepSpec {
	r := vh.NewRng(seed*104729 + 77)
	big := func() int { return 200000 + r.Intn(200001) }
	closeFor := func(l int) int {
		switch r.Intn(4) {
		case 0:
			return 0
		case 1:
			return r.Intn(l + 1)
		default:
			return l
		}
	}
	var out []c20DeepSpec
	add := func(shape string, l int) {
		out = append(out, c20DeepSpec{shape, l, closeFor(l), r.Intn(12)})
	}
	// every recursing shape at full size; the ones that only loop, and middle sizes, for contrast
	for _, sh := range []string{"block", "block-args", "oneline", "decl-close", "snip-close", "edge-close", "mixed", "snippet-body", "file-body"} {
		add(sh, big())
	}
	add("import-nest", 0)
	add("import-files", 0)
	add("continuation", 50000+r.Intn(50000))
	add("flat", 50000+r.Intn(50000))
	for _, sh := range []string{"block", "decl-close", "mixed"} {
		add(sh, 300+r.Intn(3000))
		add(sh, 5000+r.Intn(50000))
	}
	if thorough {
		for i := 0; i < 12; i++ {
			add(c20DeepShapes[r.Intn(9)], 100000+r.Intn(900001))
		}
	}
	return out
}

func TestVerifC20Deep(t *testing.T) {
	if os.Getenv(c20DeepEnv) != "" {
		return // we are the child; only TestVerifC20DeepChild does anything there
	}
	out := vh.Open("c20deep")
	defer out.Close()
	var specs []c20DeepSpec
	if rp := vh.Replay(); rp != nil {
		for _, op := range rp {
			if s, ok := c20DeepParseOp(op); ok {
				specs = append(specs, s)
			}
		}
		if len(specs) == 0 {
			return
		}
	} else {
		specs = c20DeepSpecs(vh.Seed(), vh.Thorough())
	}
	start := time.Now()
	obs, detail := c20DeepRun(specs)
	out.Note(fmt.Sprintf("deep-nesting cases parsed in child processes (stack cap %d MB): %d cases, %v", c20DeepMaxStack>>20, len(specs), time.Since(start).Round(100*time.Millisecond)))
	for i, s := range specs {
		op := s.op()
		out.Stat("deep.shape=" + s.shape)
		switch {
		case s.levels >= 100000:
			out.Stat("deep.levels=1e5..")
		case s.levels >= 5000:
			out.Stat("deep.levels=5e3..1e5")
		default:
			out.Stat("deep.levels=..5e3")
		}
		o := obs[i]
		switch {
		case o == "":
			out.Stat("deep.outcome=CRASH")
			out.Violation("C20/crash", op, fmt.Sprintf("the process parsing this configuration died (goroutine stacks capped at %d MB; %d levels): %s", c20DeepMaxStack>>20, s.levels, detail[i]))
		case strings.HasPrefix(o, "panic"):
			out.Stat("deep.outcome=panic")
			out.Violation("C20/panic", op, o)
		case strings.HasPrefix(o, "ok "):
			out.Stat("deep.outcome=ok")
			var d, n int
			fmt.Sscanf(o, "ok depth=%d nodes=%d", &d, &n)
			if d > c20NestLimit {
				out.Violation("C20/nesting-unbounded", op, fmt.Sprintf("tree depth %d exceeds the parser's nesting limit %d", d, c20NestLimit))
			}
		case strings.HasPrefix(o, "err "):
			f := strings.Fields(o)
			out.Stat("deep.outcome=err " + f[1])
		default:
			out.Stat("deep.outcome=" + o)
			out.Violation("C20/harness-self-check", op, "deep-nesting child reported "+strconv.Quote(o))
		}
	}
}
