package parser

// Round 9 generators of the C20 harness: imports through REAL files in every spelling (cycles, chains, the
// depth limit across files) and environment placeholders that are nested, spliced, or sit in snippet bodies
// and imported files. Monitors: c20Runner.watch (C20/unbounded-recursion, C20/timeout), c20TreeResidue
// (C20/placeholder-residue) and the print/parse round trip, all in zz_verif_c20_test.go.

import (
	"path/filepath"
	"strconv"
	"strings"

	"github.com/foxcpp/maddy/internal/verifshim/vh"
)

// ---------------------------------------------------------------- files importing files

type c20ImpFile struct {
	rel  string // below the configuration directory: "cyc1.conf", "cyc2", "sub/sib4.conf", "main.conf"
	id   int
	body strings.Builder
}

type c20ImpGen struct {
	r       *vh.Rng
	files   []*c20ImpFile
	alias   map[string]*c20ImpFile // other spellings of a file's full name
	aliasIn []string               // in order of creation
	nStmt   int
	forms   map[string]bool
}

func (g *c20ImpGen) file(rel string) *c20ImpFile {
	f := &c20ImpFile{rel: rel, id: len(g.files)}
	g.files = append(g.files, f)
	return f
}

// ref writes the name under which the file `from` can import the file `to`, in one of the spellings the
// reader accepts: with or without the `.conf` extension, bare, `./`, through the parent directory, doubled
// slash, absolute. Relative spellings that mean something else when read from the other directory are
// only used in the directory where they are right (the model's file system is keyed by the name alone).
func (g *c20ImpGen) ref(from, to *c20ImpFile) string {
	r := g.r
	fromSub, toSub := strings.HasPrefix(from.rel, "sub/"), strings.HasPrefix(to.rel, "sub/")
	full := to.rel
	var prefix string
	switch {
	case !fromSub:
		prefix = r.Pick("", "", "", "./", "./", "../conf/", ".//", "./../conf/", c20AbsMarker+"/", c20AbsMarker+"/", "../../p/conf/", c20AbsMarker+"/../conf/")
	case toSub:
		full = filepath.Base(to.rel)
		prefix = r.Pick("./", "./", "../sub/", c20AbsMarker+"/sub/", "../../conf/sub/", ".//")
	default:
		prefix = r.Pick("../", "../", "./../", "../../conf/", c20AbsMarker+"/", "..//")
	}
	name := prefix + full
	if name != to.rel {
		if _, ok := g.alias[name]; !ok {
			g.alias[name] = to
			g.aliasIn = append(g.aliasIn, name)
		}
	}
	ext := "full-name"
	if strings.HasSuffix(full, ".conf") && r.Chance(65) {
		name = strings.TrimSuffix(name, ".conf")
		ext = "without-ext"
	} else if !strings.HasSuffix(full, ".conf") {
		ext = "no-ext-file"
	}
	form := "bare"
	switch {
	case strings.HasPrefix(prefix, c20AbsMarker):
		form = "absolute"
	case strings.Contains(prefix, ".."):
		form = "dotdot"
	case prefix != "":
		form = "dot"
	}
	g.forms[form+"/"+ext] = true
	return name
}

// stmt writes an import of `name` into the file f: plain, quoted, inside blocks, or through a snippet of
// that file (declared before or after its use, used at top level or inside a block).
func (g *c20ImpGen) stmt(f *c20ImpFile, name string) {
	r := g.r
	g.nStmt++
	k := strconv.Itoa(g.nStmt)
	b := &f.body
	if r.Chance(40) {
		b.WriteString("p" + k + " v" + k + "\n")
	}
	imp := "import " + name + "\n"
	if r.Chance(20) {
		imp = "import \"" + name + "\"\n"
	}
	block := func(body string) string {
		d := 1 + r.Intn(3)
		var s strings.Builder
		for i := 0; i < d; i++ {
			s.WriteString(strings.Repeat(" ", i) + "b" + k + " x {\n")
		}
		if r.Chance(30) {
			s.WriteString(strings.Repeat(" ", d) + "in" + k + "\n")
		}
		s.WriteString(strings.Repeat(" ", d) + body)
		for i := d - 1; i >= 0; i-- {
			s.WriteString(strings.Repeat(" ", i) + "}\n")
		}
		return s.String()
	}
	switch x := r.Intn(100); {
	case x < 40:
		b.WriteString(imp)
		g.forms["stmt/top"] = true
	case x < 65:
		b.WriteString(block(imp))
		g.forms["stmt/in-block"] = true
	default:
		sn := "via" + k
		decl := "(" + sn + ") {\n " + imp + "}\n"
		use := "import " + sn + "\n"
		if r.Chance(40) {
			use = block(use)
		}
		if r.Bool() {
			b.WriteString(decl + use)
		} else {
			b.WriteString(use + decl)
		}
		g.forms["stmt/via-snippet"] = true
	}
	if r.Chance(25) {
		b.WriteString("q" + k + "\n")
	}
}

func (g *c20ImpGen) finish(mainOnDisk bool) *c20Case {
	cs := &c20Case{files: c20DirEntries()}
	cs.input = []byte(g.files[0].body.String())
	for _, f := range g.files {
		if f.id == 0 && !mainOnDisk {
			continue
		}
		cs.files = append(cs.files, c20File{f.rel, f.id, []byte(f.body.String())})
	}
	for _, name := range g.aliasIn {
		f := g.alias[name]
		if f.id == 0 && !mainOnDisk {
			continue
		}
		cs.files = append(cs.files, c20File{name, f.id, []byte(f.body.String())})
	}
	return cs
}

var c20ImpNames = []string{"cyc1.conf", "cyc2", "cyc3.conf", "inc.conf", "sub/sib4.conf", "sub/sib5", "lib6.conf", "sub/sib7.conf"}

func c20NewImpGen(r *vh.Rng) *c20ImpGen {
	g := &c20ImpGen{r: r, alias: map[string]*c20ImpFile{}, forms: map[string]bool{}}
	g.file("main.conf")
	return g
}

// pickFiles: k different files of the pool, in random order
func (g *c20ImpGen) pickFiles(k int) []*c20ImpFile {
	perm := make([]int, len(c20ImpNames))
	for i := range perm {
		perm[i] = i
	}
	for i := len(perm) - 1; i > 0; i-- {
		j := g.r.Intn(i + 1)
		perm[i], perm[j] = perm[j], perm[i]
	}
	var out []*c20ImpFile
	for _, p := range perm {
		used := false
		for _, f := range g.files {
			used = used || f.rel == c20ImpNames[p]
		}
		if !used && len(out) < k {
			out = append(out, g.file(c20ImpNames[p]))
		}
	}
	return out
}

// c20GenImports: files importing files. Cycles of one, two or three files (the main file among them or not),
// and for contrast chains that end in a leaf (a tree with nodes of every file comes back).
func c20GenImports(r *vh.Rng, out *vh.Out) (*c20Case, string) {
	g := c20NewImpGen(r)
	main := g.files[0]
	tag := ""
	mainOnDisk := r.Chance(30)
	if r.Chance(60) {
		k := 1 + r.Intn(3)
		var cyc []*c20ImpFile
		if r.Chance(40) {
			mainOnDisk = true
			cyc = append([]*c20ImpFile{main}, g.pickFiles(k-1)...)
			tag = "cycle-with-main/" + strconv.Itoa(k)
		} else {
			cyc = g.pickFiles(k)
			if r.Chance(30) { // reached through one more file
				via := g.pickFiles(1)[0]
				g.stmt(main, g.ref(main, via))
				g.stmt(via, g.ref(via, cyc[0]))
			} else {
				g.stmt(main, g.ref(main, cyc[0]))
			}
			tag = "cycle/" + strconv.Itoa(k)
		}
		for i, f := range cyc {
			next := cyc[(i+1)%len(cyc)]
			if r.Chance(25) {
				f.body.WriteString("d" + strconv.Itoa(i) + " 1\n")
			}
			g.stmt(f, g.ref(f, next))
			if r.Chance(12) {
				g.stmt(f, g.ref(f, next)) // twice
			}
		}
	} else {
		k := 1 + r.Intn(5)
		chain := append([]*c20ImpFile{main}, g.pickFiles(k)...)
		for i := 0; i+1 < len(chain); i++ {
			g.stmt(chain[i], g.ref(chain[i], chain[i+1]))
			if r.Chance(15) {
				g.stmt(chain[i], g.ref(chain[i], chain[len(chain)-1]))
			}
		}
		leaf := chain[len(chain)-1]
		leaf.body.WriteString("leaf a b\nblk {\n inner {env:H}\n}\n")
		if r.Chance(40) {
			leaf.body.WriteString("(fromleaf) {\n sl 1\n}\n$(lm) = lv\n")
			main.body.WriteString("import fromleaf\nuse $(lm)\n")
		}
		tag = "chain/" + strconv.Itoa(k)
	}
	for f := range g.forms {
		out.Stat("imports.form=" + f)
	}
	cs := g.finish(mainOnDisk)
	if r.Chance(40) {
		cs.env = append(cs.env, [2]string{"H", "example.org"})
	}
	return cs, "imports/" + tag
}

// c20LongChain: main → e1 → … → eL, every file importing the next one under an alternating spelling; the
// last one is a leaf. The expansion depth is counted across files: 256 files are accepted, 257 are not.
func c20LongChain(L int, variant int) *c20Case {
	cs := &c20Case{files: c20DirEntries()}
	name := func(i int) string {
		switch (i + variant) % 4 {
		case 0:
			return "e" + strconv.Itoa(i)
		case 1:
			return "./e" + strconv.Itoa(i)
		case 2:
			return c20AbsMarker + "/e" + strconv.Itoa(i)
		default:
			return "e" + strconv.Itoa(i) + ".conf"
		}
	}
	alias := func(i int) string {
		switch (i + variant) % 4 {
		case 1:
			return "./e" + strconv.Itoa(i) + ".conf"
		case 2:
			return c20AbsMarker + "/e" + strconv.Itoa(i) + ".conf"
		}
		return ""
	}
	cs.input = []byte("import " + name(1) + "\n")
	var aliases []c20File
	for i := 1; i <= L; i++ {
		content := "last " + strconv.Itoa(L) + "\n"
		if i < L {
			content = "import " + name(i+1) + "\n"
			if variant%2 == 1 {
				content = "w {\n " + content + "}\n"
			}
		}
		cs.files = append(cs.files, c20File{"e" + strconv.Itoa(i) + ".conf", i, []byte(content)})
		if a := alias(i); a != "" {
			aliases = append(aliases, c20File{a, i, []byte(content)})
		}
	}
	cs.files = append(cs.files, aliases...)
	return cs
}

// fixed part: the reviewers' shapes and the boundary of the depth limit
func c20ImportsFixed() []*c20Case {
	mk := func(input string, files ...c20File) *c20Case {
		cs := &c20Case{input: []byte(input), files: c20DirEntries()}
		cs.files = append(cs.files, c20File{"main.conf", 0, []byte(input)})
		cs.files = append(cs.files, files...)
		for _, p := range []string{"./", c20AbsMarker + "/", "../conf/"} {
			cs.files = append(cs.files, c20File{p + "main.conf", 0, []byte(input)})
			for _, f := range files {
				cs.files = append(cs.files, c20File{p + f.name, f.id, f.content})
			}
		}
		return cs
	}
	f := func(name string, id int, content string) c20File { return c20File{name, id, []byte(content)} }
	abs := c20AbsMarker
	return []*c20Case{
		mk("import main\n"),
		mk("import main.conf\n"),
		mk("x 1\nimport ./main\n"),
		mk("import " + abs + "/main\n"),
		mk("import " + abs + "/main.conf\n"),
		mk("import ../conf/main\n"),
		mk("blk {\n import main\n}\n"),
		mk("(s) {\n import main\n}\nimport s\n"),
		mk("import main\nimport main\n"),
		mk("import inc\n", f("inc.conf", 1, "import main\n")),
		mk("import inc\n", f("inc.conf", 1, "import inc\n")),
		mk("import inc.conf\n", f("inc.conf", 1, "y {\n import ./inc\n}\n")),
		mk("a {\n import inc\n}\n", f("inc.conf", 1, "b {\n import other\n}\n"), f("other.conf", 2, "c {\n import "+abs+"/inc\n}\n")),
		mk("import inc\n", f("inc.conf", 1, "import other\n"), f("other.conf", 2, "import third\n"), f("third.conf", 3, "z\nimport ./inc\n")),
		mk("import inc\n", f("inc.conf", 1, "(t) {\n import ../conf/inc\n}\nimport t\n")),
		mk("import inc\nafter\n", f("inc.conf", 1, "import other\nmid {env:H}\n"), f("other.conf", 2, "leaf 1 2\n")),
		c20LongChain(255, 0), c20LongChain(256, 2), c20LongChain(257, 2), c20LongChain(300, 0), c20LongChain(128, 1), c20LongChain(129, 3),
	}
}

// ---------------------------------------------------------------- nested and spliced environment placeholders

var c20NestSetNames = []string{"H", "HOME", "DOMAIN", "E", "V1", "X}Y", "a b"}
var c20NestUnsetNames = []string{"UNSET", "U", "NOPE", "U2", "x-y", ""}
var c20NestVals = []string{"example.org", "example.org", "", "v", "mx", "with space", "{env:U}", "{env:H}", "}", "{env:", "nv:H", "HOME", "$", "a$b", "{env:HOME}"}
var c20NestLits = []string{"", "", "", "pre", "/x", "$", "}", "{", "a b", "-", "{env:", "{env", "é", "$x$"}

type c20NestGen struct {
	r     *vh.Rng
	shape map[string]bool
}

func (g *c20NestGen) name() string {
	if g.r.Bool() {
		return c20NestUnsetNames[g.r.Intn(len(c20NestUnsetNames))]
	}
	return c20NestSetNames[g.r.Intn(len(c20NestSetNames))]
}

func (g *c20NestGen) inner(d int) string {
	if d >= 3 || g.r.Chance(55) {
		return "{env:" + g.name() + "}"
	}
	return g.ph(d + 1)
}

// ph: one placeholder, possibly with other placeholders inside its text, around its halves or inside its name
func (g *c20NestGen) ph(d int) string {
	r := g.r
	nm := g.name()
	switch x := r.Intn(100); {
	case x < 25:
		g.shape["plain"] = true
		return "{env:" + nm + "}"
	case x < 35:
		g.shape["before-name"] = true
		return "{env:" + g.inner(d) + nm + "}"
	case x < 45:
		g.shape["after-name"] = true
		return "{env:" + nm + g.inner(d) + "}"
	case x < 53:
		g.shape["split-e|nv"] = true
		return "{e" + g.inner(d) + "nv:" + nm + "}"
	case x < 59:
		g.shape["split-env|:"] = true
		return "{env" + g.inner(d) + ":" + nm + "}"
	case x < 64:
		g.shape["split-{|env"] = true
		return "{" + g.inner(d) + "env:" + nm + "}"
	case x < 72:
		g.shape["inside-name"] = true
		k := 0
		if len(nm) > 0 {
			k = r.Intn(len(nm) + 1)
		}
		return "{env:" + nm[:k] + g.inner(d) + nm[k:] + "}"
	case x < 78:
		g.shape["name-is-placeholder"] = true
		return "{env:" + g.inner(d) + "}"
	case x < 84:
		g.shape["before-close"] = true
		return "{env:" + nm + g.inner(d) + g.inner(d) + "}"
	case x < 92:
		g.shape["two-with-text"] = true
		return "{env:" + nm + "}" + r.Pick("", "-", " ", "$", "}", "{") + "{env:" + g.name() + "}"
	default:
		g.shape["unclosed"] = true
		return "{env:" + nm + g.inner(d)
	}
}

func (g *c20NestGen) arg() string {
	r := g.r
	a := c20NestLits[r.Intn(len(c20NestLits))] + g.ph(0) + c20NestLits[r.Intn(len(c20NestLits))]
	if r.Chance(15) {
		a += g.ph(1)
	}
	plain := a != "" && a != "{" && a != "}" && !strings.ContainsAny(a, " \t#\"")
	if plain && r.Chance(35) {
		return a
	}
	return c20Quote(a)
}

func (g *c20NestGen) args() string {
	s := g.arg()
	for k := g.r.Intn(3); k > 0; k-- {
		s += " " + g.arg()
	}
	return s
}

// c20GenEnvNest: placeholders (set, unset, nested, spliced) in every place a string of the tree can come
// from: directives of the main file, blocks, snippet bodies imported at top level / inside a block /
// through another snippet, an imported file and its snippets, macro values.
func c20GenEnvNest(r *vh.Rng, out *vh.Out) (*c20Case, string) {
	g := &c20NestGen{r: r, shape: map[string]bool{}}
	cs := &c20Case{files: c20DirEntries()}
	var b strings.Builder
	var parts []string
	place := map[string]bool{}
	if r.Chance(55) {
		parts = append(parts, "(es1) {\n sd1 "+g.args()+"\n}\n")
		uses := []string{"import es1\n", "eb1 {\n import es1\n}\n", "eb2 " + g.arg() + " {\n eb3 {\n  import es1\n }\n}\n"}
		parts = append(parts, uses[r.Intn(len(uses))])
		place["snippet"] = true
		if r.Chance(50) {
			parts = append(parts, "(es2) {\n import es1\n sd2 "+g.args()+" {\n  sd3 "+g.arg()+"\n }\n}\n", r.Pick("import es2\n", "eb4 {\n import es2\n}\n"))
			place["snippet-through-snippet"] = true
		}
	}
	if r.Chance(35) {
		var f strings.Builder
		f.WriteString("fd " + g.args() + "\n")
		if r.Chance(60) {
			f.WriteString("(fs1) {\n fsd " + g.args() + "\n}\nfblk {\n import fs1\n}\n")
			place["file-snippet"] = true
		}
		name := r.Pick("elib", "elib.conf")
		cs.files = append(cs.files, c20File{name, 1, []byte(f.String())})
		parts = append(parts, r.Pick("import elib\n", "eb5 {\n import elib\n}\n"))
		if place["file-snippet"] && r.Chance(60) {
			parts = append(parts, r.Pick("import fs1\n", "eb6 {\n import fs1\n}\n")) // may come before `import elib`: then unknown
		}
		place["file"] = true
	}
	if r.Chance(25) {
		parts = append(parts, "$(em) = "+g.arg()+"\nmu $(em) \"x$(em)y\"\n")
		place["macro-value"] = true
	}
	for k := 1 + r.Intn(3); k > 0; k-- {
		if r.Chance(30) {
			parts = append(parts, "tb "+g.arg()+" {\n ti "+g.args()+"\n}\n")
			place["block"] = true
		} else {
			parts = append(parts, "td "+g.args()+"\n")
			place["top"] = true
		}
	}
	// shuffle, keeping the two lines of a macro part together (they are one element)
	for i := len(parts) - 1; i > 0; i-- {
		j := r.Intn(i + 1)
		parts[i], parts[j] = parts[j], parts[i]
	}
	for _, p := range parts {
		b.WriteString(p)
	}
	cs.input = []byte(b.String())
	for _, k := range c20NestSetNames {
		if r.Chance(60) {
			cs.env = append(cs.env, [2]string{k, c20NestVals[r.Intn(len(c20NestVals))]})
		}
	}
	if r.Chance(10) {
		cs.env = append(cs.env, [2]string{"a$b", "dollar"})
	}
	for s := range g.shape {
		out.Stat("envnest.shape=" + s)
	}
	for p := range place {
		out.Stat("envnest.place=" + p)
	}
	return cs, "env-nest"
}

var c20EnvNestFixed = []string{
	"a \"{env:{env:UNSET}H}\"\n",
	"a \"{e{env:UNSET}nv:H}\" {e{env:UNSET}nv:H}\n",
	"a {env:{env:UNSET}H} x{env:H{env:UNSET}}y\n",
	"a \"{env:{env:{env:UNSET}U2}H}\" \"{env{env:UNSET}:H}\" \"{{env:UNSET}env:H}\"\n",
	"a \"{env:U{env:H}}\" \"{env:{env:H}}\" \"{env:H}{env:UNSET}\" \"{env:UNSET} mid {env:U2}\"\n",
	"a \"{env:UNSET}$x{env:H}\" \"{e{env:UNSET}$nv:H}\" \"{env:{env:UNSET}$H}\"\n",
	"(s) {\n a {env:H} {env:UNSET} x{env:H}y \"{env:{env:UNSET}H}\"\n}\nimport s\nb {\n import s\n}\n",
	"(s) {\n a {env:H}\n}\n(t) {\n import s\n c {env:UNSET}z\n}\nd {\n import t\n}\n",
	"$(m) = {env:H}\n(s) {\n a $(m) p$(m)q\n}\nimport s\n",
}
