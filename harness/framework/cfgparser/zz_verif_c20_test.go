package parser

import (
	"bytes"
	"fmt"
	"io"
	"os"
	"path/filepath"
	"reflect"
	"regexp"
	"runtime"
	"runtime/debug"
	"sort"
	"strconv"
	"strings"
	"testing"
	"time"
	"unicode"

	"github.com/foxcpp/maddy/framework/config/lexer"
	"github.com/foxcpp/maddy/internal/verifshim/vcfg"
	"github.com/foxcpp/maddy/internal/verifshim/vh"
)

// ---------------------------------------------------------------- cases

type c20File struct {
	name    string
	id      int
	content []byte
}

type c20Case struct {
	input []byte
	env   [][2]string
	files []c20File
	obls  []c20Obl // what the generator knows about the macro references it wrote (c20GenOddRefs)
}

// c20Obl: the generator wrote the reference `ref` into an argument of the directive named `dir`.
// class: wd / wu = the reference is the whole argument and the macro is / is not declared at that point;
// ed = inside a longer argument, macro declared; eu = inside a longer argument, macro not declared and the
// name is an ordinary one; edx = inside a longer argument, macro declared, `$` in its name.
type c20Obl struct{ dir, class, ref string }

const c20NestLimit = 257 // deepest node the parser itself can produce (readNodes: nesting > 255)

// c20NodeLimit: the number of nodes import expansion may add to a tree (maxExpandedNodes of fix 3, restated
// here: the monitor does not read the constant of the code under test). What is not added by imports
// was written in the source: one node per token at most.
const c20NodeLimit = 100000

func (cs *c20Case) sourceSize() int {
	n := len(cs.input)
	for _, f := range cs.files {
		n += len(f.content)
	}
	return n
}

func c20Tables(cs *c20Case) string {
	seen := map[rune]bool{}
	var letters, digits []rune
	add := func(b []byte) {
		for _, r := range string(b) {
			if seen[r] {
				continue
			}
			seen[r] = true
			if unicode.IsLetter(r) {
				letters = append(letters, r)
			}
			if unicode.IsDigit(r) {
				digits = append(digits, r)
			}
		}
	}
	add(cs.input)
	for _, f := range cs.files {
		add(f.content)
	}
	sort.Slice(letters, func(i, j int) bool { return letters[i] < letters[j] })
	sort.Slice(digits, func(i, j int) bool { return digits[i] < digits[j] })
	return " | L " + vh.HexRunes(string(letters)) + " | D " + vh.HexRunes(string(digits))
}

func (cs *c20Case) opArgs() string {
	var b strings.Builder
	b.WriteString(vh.HexBytes(cs.input))
	for _, e := range cs.env {
		b.WriteString(" | e " + vh.HexRunes(e[0]) + " " + vh.HexRunes(e[1]))
	}
	for _, f := range cs.files {
		b.WriteString(" | f " + strconv.Itoa(f.id) + " " + vh.HexRunes(f.name) + " " + vh.HexBytes(f.content))
	}
	b.WriteString(c20Tables(cs))
	for _, o := range cs.obls {
		b.WriteString(" | r " + vh.HexRunes(o.dir) + " " + o.class + " " + vh.HexRunes(o.ref))
	}
	return b.String()
}

func c20ParseOp(op string) (*c20Case, string) {
	f := strings.Fields(op)
	if len(f) < 3 || f[0] != "C20" {
		return nil, ""
	}
	cs := &c20Case{input: vh.UnhexBytes(f[2])}
	i := 3
	for i < len(f) {
		if f[i] != "|" {
			i++
			continue
		}
		i++
		if i >= len(f) {
			break
		}
		switch f[i] {
		case "e":
			cs.env = append(cs.env, [2]string{vh.UnhexRunes(f[i+1]), vh.UnhexRunes(f[i+2])})
			i += 3
		case "f":
			id, _ := strconv.Atoi(f[i+1])
			cs.files = append(cs.files, c20File{name: vh.UnhexRunes(f[i+2]), id: id, content: vh.UnhexBytes(f[i+3])})
			i += 4
		case "r":
			if i+3 < len(f) {
				cs.obls = append(cs.obls, c20Obl{vh.UnhexRunes(f[i+1]), f[i+2], vh.UnhexRunes(f[i+3])})
			}
			i += 4
		default:
			i++
		}
	}
	return cs, f[1]
}

// ---------------------------------------------------------------- running the real code

type c20Result struct {
	nodes     []Node
	err       error
	panicked  interface{}
	timeout   bool   // gave up waiting: deadline, memory cap or stack cap
	exhausted string // which bound, for the report
	recursion bool   // the bound that was hit is the one on goroutine stacks
	unwound   bool   // the call came back after the configuration directory was taken away: the process can go on
}

type c20Runner struct {
	base     string // temporary directory (removed at the end, or before an emergency exit)
	dir      string // configuration directory
	location string
}

// Resource bounds of one call of Read. They are far above what the reader needs on any generated input
// (the largest trees, ~10^5 nodes, take well under a second and a few hundred MB): they only decide when a
// run-away call is given up. A call that exceeds them cannot be stopped from outside, so the harness
// reports the violation, closes its output and ends the process (the remaining cases of this run are lost;
// the op line replays the one that ran away).
const (
	c20Deadline = 60 * time.Second
	c20HeapCap  = 1 << 30 // bytes of live heap
	// goroutine stacks of the whole process. The reader at its own limits (257 blocks, 256 levels of import
	// expansion) needs well under 1 MB; a goroutine that reaches 1 GB is killed by the runtime together with
	// the process (not recoverable), so a recursion that runs away has to be noticed long before.
	c20StackCap = 32 << 20
	c20Unwind   = 30 * time.Second // how long a call is given to come back once its files are gone
)

// c20AbsMarker stands for the configuration directory in absolute import paths: the op line (and the model)
// see the marker, the real reader sees the directory of this run.
const c20AbsMarker = "/VERIFC20ABS"

// An `f` entry whose name contains a slash is another spelling of a real file (`./x`, `../conf/x`, the
// absolute path, …: what the model's file system answers for that name) unless it is a file of the one
// sub-directory `sub/`.
func c20IsAlias(name string) bool {
	return strings.Contains(name, "/") && !(strings.HasPrefix(name, "sub/") && strings.Count(name, "/") == 1)
}

func (rn *c20Runner) abs(b []byte) []byte {
	if !bytes.Contains(b, []byte(c20AbsMarker)) {
		return b
	}
	return bytes.ReplaceAll(b, []byte(c20AbsMarker), []byte(rn.dir))
}

// unabs puts the marker back into names and arguments (a path that was not consumed by an import).
func (rn *c20Runner) unabs(ns []Node) {
	for i := range ns {
		ns[i].Name = strings.ReplaceAll(ns[i].Name, rn.dir, c20AbsMarker)
		for j := range ns[i].Args {
			ns[i].Args[j] = strings.ReplaceAll(ns[i].Args[j], rn.dir, c20AbsMarker)
		}
		rn.unabs(ns[i].Children)
	}
}

func c20NewRunner(t *testing.T) *c20Runner {
	base, err := os.MkdirTemp("", "verifc20")
	if err != nil {
		t.Fatal(err)
	}
	dir := filepath.Join(base, "p", "conf")
	if err := os.MkdirAll(dir, 0o755); err != nil {
		t.Fatal(err)
	}
	t.Cleanup(func() { os.RemoveAll(base) })
	return &c20Runner{base: base, dir: dir, location: filepath.Join(dir, "main.conf")}
}

func (rn *c20Runner) prepare(cs *c20Case) {
	os.Clearenv()
	for _, e := range cs.env {
		os.Setenv(e[0], e[1])
	}
	rn.wipe()
	for _, f := range cs.files {
		if f.name == "" || f.name == "." || f.name == ".." || c20IsAlias(f.name) {
			continue // the directory entries themselves; other spellings of a file written below
		}
		if strings.HasPrefix(f.name, "sub/") {
			os.MkdirAll(filepath.Join(rn.dir, "sub"), 0o755)
		}
		if err := os.WriteFile(filepath.Join(rn.dir, f.name), rn.abs(f.content), 0o644); err != nil {
			panic(err)
		}
	}
}

// wipe empties the configuration directory.
func (rn *c20Runner) wipe() {
	os.MkdirAll(rn.dir, 0o755)
	ents, _ := os.ReadDir(rn.dir)
	for _, e := range ents {
		os.RemoveAll(filepath.Join(rn.dir, e.Name()))
	}
}

func (rn *c20Runner) read(input []byte) c20Result {
	marked := bytes.Contains(input, []byte(c20AbsMarker))
	input = rn.abs(input)
	res := rn.watch(func() ([]Node, error) { return Read(bytes.NewReader(input), rn.location) })
	if marked && !res.timeout {
		rn.unabs(res.nodes)
	}
	return res
}

// readTreeCounted runs readTree the way Read does, with a counter of its own for the import budget
// (Read allocates it and throws it away), and without the environment expansion.
func (rn *c20Runner) readTreeCounted(input []byte) (c20Result, int) {
	cnt := 0
	input = rn.abs(input)
	res := rn.watch(func() ([]Node, error) {
		nodes, err, _ := c20CallReadTree(bytes.NewReader(input), rn.location, &cnt)
		return nodes, err
	})
	if res.timeout {
		return res, 0 // the goroutine is still running
	}
	return res, cnt
}

// c20CallReadTree calls the unexported readTree by reflection, so that a change of its parameter list
// (a further parameter, another order) does not stop the whole harness from compiling: the reader, the
// location and the budget counter go to the first parameter of their type, everything else (the expansion
// depth, whatever was added) gets its zero value, as in Read. ok=false: the function has no such parameters
// any more or returns no tree.
func c20CallReadTree(r io.Reader, location string, cnt *int) (nodes []Node, err error, ok bool) {
	fn := reflect.ValueOf(readTree)
	ft := fn.Type()
	n := ft.NumIn()
	if ft.IsVariadic() {
		n--
	}
	args := make([]reflect.Value, n)
	var haveR, haveLoc, haveCnt bool
	readerT := reflect.TypeOf((*io.Reader)(nil)).Elem()
	for i := range args {
		t := ft.In(i)
		switch {
		case !haveR && t.Kind() == reflect.Interface && reflect.TypeOf(r).Implements(t) && t.NumMethod() > 0 && readerT.Implements(t):
			args[i], haveR = reflect.ValueOf(r), true
		case !haveLoc && t.Kind() == reflect.String:
			args[i], haveLoc = reflect.ValueOf(location).Convert(t), true
		case !haveCnt && t == reflect.TypeOf(cnt):
			args[i], haveCnt = reflect.ValueOf(cnt), true
		default:
			args[i] = reflect.Zero(t)
		}
	}
	if !haveR || !haveLoc {
		return nil, nil, false
	}
	outs := fn.Call(args)
	found := false
	for _, o := range outs {
		switch v := o.Interface().(type) {
		case []Node:
			if !found {
				nodes, found = v, true
			}
		case error:
			err = v
		}
	}
	return nodes, err, found && haveCnt
}

func (rn *c20Runner) watch(call func() ([]Node, error)) c20Result {
	ch := make(chan c20Result, 1)
	go func() {
		var res c20Result
		defer func() {
			if p := recover(); p != nil {
				res.panicked = p
			}
			ch <- res
		}()
		res.nodes, res.err = call()
	}()
	start := time.Now()
	tick := time.NewTicker(100 * time.Millisecond)
	defer tick.Stop()
	for {
		select {
		case r := <-ch:
			return r
		case <-tick.C:
			var why string
			recursion := false
			var ms runtime.MemStats
			runtime.ReadMemStats(&ms)
			switch {
			case time.Since(start) > c20Deadline:
				why = fmt.Sprintf("no result after %v", c20Deadline)
			case ms.StackInuse > c20StackCap:
				why = fmt.Sprintf("goroutine stacks %d MB after %v and growing, no result", ms.StackInuse>>20, time.Since(start).Round(100*time.Millisecond))
				recursion = true
			case ms.HeapAlloc > c20HeapCap:
				runtime.GC() // garbage of earlier cases does not count
				runtime.ReadMemStats(&ms)
				if ms.HeapAlloc > c20HeapCap {
					why = fmt.Sprintf("live heap %d MB after %v and growing, no result", ms.HeapAlloc>>20, time.Since(start).Round(100*time.Millisecond))
				}
			}
			if why == "" {
				continue
			}
			// The call cannot be stopped from outside. When it runs away THROUGH THE FILES of the configuration
			// directory (files importing each other), taking the files away makes the next import fail and the
			// recursion unwinds: the verdict is the same, but the process and the remaining cases survive.
			rn.wipe()
			res := c20Result{timeout: true, exhausted: why, recursion: recursion}
			// (a call that goes on growing is not recursing through the files: no point in waiting until the
			// runtime kills the process at 1 GB of stack — the caller has to write its report first)
			giveUpAt := time.Now().Add(c20Unwind)
			for time.Now().Before(giveUpAt) {
				select {
				case <-ch:
					res.unwound = true
					res.exhausted += "; the call came back only after the imported files were removed"
					runtime.GC()
					debug.FreeOSMemory()
					return res
				case <-tick.C:
					runtime.ReadMemStats(&ms)
					if ms.StackInuse > 8*c20StackCap || ms.HeapAlloc > 2*c20HeapCap {
						return res
					}
				}
			}
			return res
		}
	}
}

// giveUp is called after a run-away call of Read was reported: the goroutine is still running and
// allocating, nothing more can be done in this process.
func (rn *c20Runner) giveUp(out *vh.Out) {
	out.Note("a call of Read ran away (see the C20/timeout violation); harness process ended early")
	out.Close()
	os.RemoveAll(rn.base)
	os.Exit(3)
}

// runaway reports a call of Read that exceeded the resource bounds and says whether the process can go on.
func (rn *c20Runner) runaway(out *vh.Out, op string, res c20Result) {
	sig, what := "C20/timeout", "configuration parsing does not terminate within the resource bounds: "
	if res.recursion {
		sig, what = "C20/unbounded-recursion", "configuration parsing recurses without bound: "
	}
	out.Violation(sig, op, what+res.exhausted)
	out.Corr(op, "timeout")
	out.Stat("outcome=runaway")
	if !res.unwound {
		rn.giveUp(out)
	}
}

func (rn *c20Runner) fileID(cs *c20Case, path string) int {
	if path == rn.location {
		return 0
	}
	base := filepath.Base(path)
	for _, f := range cs.files {
		if !c20IsAlias(f.name) && (f.name == base || (f.name != "" && strings.HasPrefix(f.name, "sub/") && filepath.Base(f.name) == base)) {
			return f.id
		}
	}
	for _, f := range cs.files {
		if !c20IsAlias(f.name) && (f.name == base+".conf" || (strings.HasPrefix(f.name, "sub/") && filepath.Base(f.name) == base+".conf")) {
			return f.id
		}
	}
	return 99
}

func (rn *c20Runner) hasForeign(cs *c20Case, ns []Node) bool {
	for _, n := range ns {
		if rn.fileID(cs, n.File) != 0 || rn.hasForeign(cs, n.Children) {
			return true
		}
	}
	return false
}

// ---------------------------------------------------------------- canonical forms

func (rn *c20Runner) showNodes(cs *c20Case, ns []Node, b *strings.Builder) {
	for _, n := range ns {
		b.WriteString(" N " + vh.HexRunes(n.Name) + " " + strconv.Itoa(len(n.Args)))
		for _, a := range n.Args {
			b.WriteString(" " + vh.HexRunes(a))
		}
		if n.Children != nil {
			b.WriteString(" B ")
		} else {
			b.WriteString(" - ")
		}
		if n.Snippet {
			b.WriteString("S")
		} else {
			b.WriteString("-")
		}
		if n.Macro {
			b.WriteString("M")
		} else {
			b.WriteString("-")
		}
		b.WriteString(" " + strconv.Itoa(rn.fileID(cs, n.File)) + " " + strconv.Itoa(n.Line) + " " + strconv.Itoa(len(n.Children)))
		rn.showNodes(cs, n.Children, b)
	}
}

var c20ErrRe = regexp.MustCompile(`(?s)^(.*?):(\d+)( - Error during parsing: | - Syntax error: |: )(.*)$`)

var c20ErrKinds = []struct{ pre, kind string }{
	{"Unexpected token '{', expecting 'block header'", "blockHeader"},
	{"macro name must end with )", "macroNoClose"},
	{"at least 2 arguments are required", "macroFewArgs"},
	{"missing = in macro declaration", "macroNoEq"},
	{"nesting limit reached", "nestingLimit"},
	{"newline is required after closing brace", "newlineAfterBrace"},
	{"unexpected }", "unexpectedClose"},
	{"macro declarations are only allowed at top-level", "macroNotTop"},
	{"snippet declarations are only allowed at top-level", "snippetNotTop"},
	{"snippet declarations can't have arguments", "snippetArgs"},
	{"can't use macro argument as directive name", "macroAsName"},
	{"can't expand macro with multiple arguments inside a string", "macroMultiInString"},
	{"unexpected EOF when looking for }", "unexpectedEOF"},
	{"hit import expansion limit: too many nodes", "importNodes"},
	{"hit import expansion limit", "importLimit"},
	{"import directive requires exactly 1 argument", "importArgs"},
	{"unknown import: ", "unknownImport"},
}

// c20ErrClass maps an error of Read to "err <kind> <line>"; ok=false: outside the model (OS error).
func c20ErrClass(err error) (string, bool) {
	msg := err.Error()
	switch {
	case msg == "empty directive name":
		return "err emptyName 0", true
	case msg == "directive name cannot start with a digit":
		return "err digitName 0", true
	case strings.HasPrefix(msg, "character not allowed in directive name: "):
		return "err badNameChar 0", true
	}
	if _, isPath := err.(*os.PathError); isPath {
		return "oserr", false
	}
	m := c20ErrRe.FindStringSubmatch(msg)
	if m == nil {
		return "err unclassified:" + msg, true
	}
	for _, k := range c20ErrKinds {
		if strings.HasPrefix(m[4], k.pre) {
			return "err " + k.kind + " " + m[2], true
		}
	}
	return "err unclassified:" + msg, true
}

// ---------------------------------------------------------------- canonical printer (Go side)

func c20Quote(s string) string { return `"` + strings.ReplaceAll(s, `"`, `\"`) + `"` }

func c20Print(ns []Node, b *strings.Builder) {
	for _, n := range ns {
		b.WriteString(c20Quote(n.Name))
		for _, a := range n.Args {
			b.WriteString(" " + c20Quote(a))
		}
		if n.Children != nil {
			b.WriteString(" {\n")
			c20Print(n.Children, b)
			b.WriteString("}\n")
		} else {
			b.WriteString("\n")
		}
	}
}

// ---------------------------------------------------------------- the property, stated in Go

func c20Quotable(s string) bool {
	odd := false
	for _, ch := range s {
		switch ch {
		case '\\':
			odd = !odd
		case '"':
			if odd {
				return false
			}
			odd = false
		default:
			odd = false
		}
	}
	return !odd
}

// well-formed directive name: non-empty, does not start with a digit, letters/digits/._- only
func c20NameOK(s string) bool {
	if s == "" {
		return false
	}
	for i, ch := range s {
		if i == 0 && unicode.IsDigit(ch) {
			return false
		}
		if !(unicode.IsLetter(ch) || unicode.IsDigit(ch) || ch == '.' || ch == '-' || ch == '_') {
			return false
		}
	}
	return true
}

func c20Depth(ns []Node) int {
	d := 0
	for _, n := range ns {
		if x := 1 + c20Depth(n.Children); x > d {
			d = x
		}
	}
	return d
}

// c20WellFormed: what the property promises about every returned tree.
func c20WellFormed(ns []Node) string {
	for _, n := range ns {
		switch {
		case n.Macro:
			return "macro node left: " + n.Name
		case n.Snippet:
			return "snippet node left: " + n.Name
		case n.Name == "import":
			return "import left unexpanded"
		case !c20NameOK(n.Name):
			return "ill-formed directive name: " + strconv.Quote(n.Name)
		}
		if n.Children == nil && len(n.Children) != 0 {
			return "nil children with elements"
		}
		if s := c20WellFormed(n.Children); s != "" {
			return s
		}
	}
	return ""
}

// ---- "no macro, snippet or import remains unexpanded", for the text of names and arguments
//
// The reader substitutes macro values textually, once, and expands the environment afterwards; it never
// looks at the result again. Text of the form `$(…)` in the output is therefore not always a reference
// that was left alone: it can be assembled from pieces (`x$(a$(b)$(b)c)` with `$(b)` undefined gives
// `x$(ac)`; a value `(` or `$`; `{env:X}` with X="$(m1)"). The rule is applied to the cases where nothing
// of that kind is possible (c20PlainRefs): every token that contains `$(` consists of plain references
// `$(name)` (name without `$`, `(`, `)`) and text without parentheses — or is as a whole one reference
// `$(`…`)` with any name free of parentheses (c20WholeRefRe) —, and no macro or environment value
// contains `$`, `(` or `)`. In such a case the reader's own reference syntax (`$(` + characters other
// than `$` + `)`, or a whole argument from `$(` to `)`) recognises exactly the plain references, each is
// replaced by a value without `$(`, and so NO `$(` may be left anywhere in the tree.

// c20ResidualRef returns the first `$(` found in a name or an argument.
func c20ResidualRef(ns []Node) string {
	for _, n := range ns {
		if strings.Contains(n.Name, "$(") {
			return "macro reference left in directive name " + strconv.Quote(n.Name)
		}
		for _, a := range n.Args {
			if i := strings.Index(a, "$("); i >= 0 {
				return "unexpanded macro reference left in argument " + strconv.Quote(a) + " of directive " + strconv.Quote(n.Name)
			}
		}
		if s := c20ResidualRef(n.Children); s != "" {
			return s
		}
	}
	return ""
}

var c20PlainRefRe = regexp.MustCompile(`\$\([^$()]+\)`)

// A token that is a reference as a whole, `$(` … `)` with no further parenthesis: whatever stands between
// (nothing, `$`, blanks, quotes) is the name, and as an argument it is replaced by the macro's values or
// stands for no argument (round 6). Inside a longer token only the plain form above is a reference.
var c20WholeRefRe = regexp.MustCompile(`^\$\([^()]*\)$`)

// c20PlainRefs: see above. Tokens are taken from the real lexer; a token is (over-approximately) part of
// a macro declaration when it follows, on the same logical line, a token that starts with `$(` and
// stands where a directive name can stand (start of a line, or right after a brace).
func c20PlainRefs(cs *c20Case) bool {
	for _, e := range cs.env {
		if strings.ContainsAny(e[1], "$()") {
			return false
		}
	}
	scan := func(content []byte) bool {
		d := lexer.NewDispenser("", bytes.NewReader(content))
		inDecl, first := false, true
		prevEnd, prev := 0, ""
		for d.Next() {
			t := d.Val()
			newLine := first || d.Line() > prevEnd
			if newLine && prev == "\\" {
				newLine = false // line continuation
			}
			if newLine {
				inDecl = false
			}
			rest := c20PlainRefRe.ReplaceAllString(t, "")
			if c20WholeRefRe.MatchString(t) {
				rest = ""
			}
			if strings.Contains(t, "$(") && strings.ContainsAny(rest, "()") {
				return false
			}
			if strings.HasPrefix(t, "$(") && (newLine || prev == "{" || prev == "}") {
				inDecl = true
			} else if inDecl && strings.ContainsAny(rest, "$()") {
				return false
			}
			first = false
			prevEnd = d.Line() + strings.Count(t, "\n")
			prev = t
		}
		return true
	}
	if !scan(cs.input) {
		return false
	}
	for _, f := range cs.files {
		if !scan(f.content) {
			return false
		}
	}
	return true
}

// c20Expressible: every token of the tree can be written in the quoted syntax and is not subject to
// further interpretation by the reader (brace, continuation, macro reference, env placeholder).
// `{env:` may occur as long as it is inert: no complete placeholder follows it (c20Residue) and no
// placeholder of a variable of the current environment (whose name may contain `$`) occurs.
// withResidue: complete placeholders are let through — for the trees that, by the property, should not
// contain any and are reported for that; printing and reading them again shows the second consequence.
func c20Expressible(ns []Node, env [][2]string, withResidue bool) bool {
	for _, n := range ns {
		if !c20NameOK(n.Name) || n.Name == "import" || n.Macro || n.Snippet {
			return false
		}
		for i, a := range n.Args {
			if !c20Quotable(a) || a == "{" {
				return false
			}
			if strings.Contains(a, "$(") && strings.Contains(a, ")") {
				return false
			}
			if strings.Contains(a, "{env:") && !withResidue {
				if c20Residue(a) != "" {
					return false
				}
				for _, e := range env {
					if strings.Contains(a, "{env:"+e[0]+"}") {
						return false
					}
				}
			}
			if i == len(n.Args)-1 && (a == "}" || a == `\`) {
				return false
			}
		}
		if !c20Expressible(n.Children, env, withResidue) {
			return false
		}
	}
	return true
}

// ---- "no environment placeholder remains" (round 9)
//
// A placeholder is `{env:` + a name + `}`. The reader replaces the placeholders of the variables that are set
// and removes the others; a name is whatever stands between — anything but `$` (the reader's own notion:
// braces and blanks included, which is what makes nested and spliced forms disappear as a whole). What the
// property promises about every string of a returned tree: no complete placeholder is left, wherever the
// string came from (main file, snippet body, imported file, macro value) and however it was assembled.
// Stated here with a loop of its own, not with the regexp of the code under test.
func c20Residue(s string) string {
	for i := 0; i+5 <= len(s); i++ {
		if !strings.HasPrefix(s[i:], "{env:") {
			continue
		}
		for j := i + 5; j < len(s) && s[j] != '$'; j++ {
			if s[j] == '}' && j > i+5 {
				return s[i : j+1]
			}
		}
	}
	return ""
}

func c20TreeResidue(ns []Node) string {
	for _, n := range ns {
		if r := c20Residue(n.Name); r != "" {
			return "environment placeholder " + strconv.Quote(r) + " left in directive name " + strconv.Quote(n.Name)
		}
		for _, a := range n.Args {
			if r := c20Residue(a); r != "" {
				return "environment placeholder " + strconv.Quote(r) + " left in argument " + strconv.Quote(a) + " of directive " + strconv.Quote(n.Name)
			}
		}
		if s := c20TreeResidue(n.Children); s != "" {
			return s
		}
	}
	return ""
}

func c20HasEnvText(ns []Node) bool {
	for _, n := range ns {
		for _, a := range n.Args {
			if strings.Contains(a, "{env:") {
				return true
			}
		}
		if c20HasEnvText(n.Children) {
			return true
		}
	}
	return false
}

func c20SameShape(a, b []Node) bool {
	if len(a) != len(b) {
		return false
	}
	for i := range a {
		if a[i].Name != b[i].Name || len(a[i].Args) != len(b[i].Args) || (a[i].Children == nil) != (b[i].Children == nil) ||
			a[i].Macro != b[i].Macro || a[i].Snippet != b[i].Snippet {
			return false
		}
		for j := range a[i].Args {
			if a[i].Args[j] != b[i].Args[j] {
				return false
			}
		}
		if !c20SameShape(a[i].Children, b[i].Children) {
			return false
		}
	}
	return true
}

// ---------------------------------------------------------------- one case

func c20Bucket(n int) string {
	switch {
	case n == 0:
		return "0"
	case n <= 3:
		return "1-3"
	case n <= 10:
		return "4-10"
	case n <= 50:
		return "11-50"
	case n <= 256:
		return "51-256"
	case n <= 257:
		return "257"
	default:
		return ">257"
	}
}

func c20Count(ns []Node) int {
	c := 0
	for _, n := range ns {
		c += 1 + c20Count(n.Children)
	}
	return c
}

func (rn *c20Runner) runCase(out *vh.Out, cs *c20Case, withPrint bool, tag string) {
	op := "C20 parse " + cs.opArgs()
	rn.prepare(cs)
	res := rn.read(cs.input)
	out.Stat("gen=" + tag)
	switch {
	case res.timeout:
		rn.runaway(out, op, res)
		return
	case res.panicked != nil:
		out.Violation("C20/panic", op, fmt.Sprint(res.panicked))
		out.Corr(op, "panic")
		out.Stat("outcome=panic")
		return
	case res.err != nil:
		cls, inModel := c20ErrClass(res.err)
		if !inModel {
			out.Stat("skipped=os-error")
			return
		}
		out.Corr(op, cls)
		out.Stat("outcome=" + strings.Join(strings.Fields(cls)[:2], " "))
		out.Stat("bygen=" + tag + "/err")
		return
	}
	var b strings.Builder
	b.WriteString("ok " + strconv.Itoa(len(res.nodes)))
	rn.showNodes(cs, res.nodes, &b)
	out.Corr(op, b.String())
	out.Stat("outcome=ok")
	out.Stat("bygen=" + tag + "/ok")
	out.Stat("ok.nodes=" + c20Bucket(c20Count(res.nodes)))
	depth := c20Depth(res.nodes)
	out.Stat("ok.depth=" + c20Bucket(depth))
	if rn.hasForeign(cs, res.nodes) {
		out.Stat("ok.with-nodes-from-imported-file")
	}

	// T3: the property on the real execution
	if s := c20WellFormed(res.nodes); s != "" {
		out.Violation("C20/ill-formed-output", op, s)
	}
	if n, bound := c20Count(res.nodes), c20NodeLimit+cs.sourceSize(); n > bound {
		out.Violation("C20/expansion-unbounded", op, fmt.Sprintf("Read returned %d nodes from %d bytes of configuration: more than the import expansion limit %d + the size of the source", n, cs.sourceSize(), c20NodeLimit))
	}
	if depth > c20NestLimit {
		out.Violation("C20/nesting-unbounded", op, fmt.Sprintf("tree depth %d exceeds the parser's nesting limit %d", depth, c20NestLimit))
		out.Violation("C20/ill-formed-output", op, fmt.Sprintf("blocks nested %d deep, deeper than the limit %d the parser itself enforces", depth, c20NestLimit))
	}
	if !c20PlainRefs(cs) {
		out.Stat("residual-ref=not-applicable")
	} else {
		out.Stat("residual-ref=checked")
		if s := c20ResidualRef(res.nodes); s != "" {
			out.Violation("C20/ill-formed-output", op, s)
		}
	}
	if len(cs.obls) != 0 {
		c20CheckObls(out, op, cs, res.nodes)
	}
	residue := c20TreeResidue(res.nodes)
	if residue != "" {
		out.Violation("C20/placeholder-residue", op, residue)
		out.Stat("placeholder-residue=LEFT")
	} else {
		out.Stat("placeholder-residue=none")
	}
	var pr strings.Builder
	c20Print(res.nodes, &pr)
	if withPrint {
		out.Corr("C20 print "+cs.opArgs(), "ok "+vh.HexRunes(pr.String()))
	}
	if !c20Expressible(res.nodes, cs.env, residue != "") {
		out.Stat("roundtrip=skipped-inexpressible")
		return
	}
	if c20HasEnvText(res.nodes) {
		out.Stat("roundtrip=with-inert-env-text")
	}
	if depth > c20NestLimit {
		out.Stat("roundtrip=skipped-too-deep")
		return
	}
	res2 := rn.read([]byte(pr.String()))
	switch {
	case res2.timeout || res2.panicked != nil:
		out.Violation("C20/roundtrip", op, fmt.Sprintf("re-parse of the printed tree crashed or hung: %v %s", res2.panicked, res2.exhausted))
		if res2.timeout && !res2.unwound {
			rn.giveUp(out)
		}
	case res2.err != nil:
		out.Violation("C20/roundtrip", op, "re-parse of the printed tree failed: "+res2.err.Error())
	case !c20SameShape(res.nodes, res2.nodes):
		var b2 strings.Builder
		rn.showNodes(cs, res2.nodes, &b2)
		out.Violation("C20/roundtrip", op, "re-parse of the printed tree differs: "+b2.String())
	}
	out.Stat("roundtrip=checked")
}

// ---------------------------------------------------------------- generators

var c20EnvVals = []string{"example.org", "", "{env:H}", "{env:a$b}", "with space", "$(m1)", "}", "x{env:E}y", "mx.example.org", "\"q\""}

func c20GenCase(r *vh.Rng) (*c20Case, string) {
	g := &vcfg.Gen{R: r, CRLF: r.Chance(10)}
	switch x := r.Intn(100); {
	case x < 45:
		g.Chaos = 0
	case x < 75:
		g.Chaos = 1
	default:
		g.Chaos = 2
	}
	for _, s := range vcfg.SnipNames {
		if r.Chance(30) {
			g.Snips = append(g.Snips, s)
		}
	}
	cs := &c20Case{}
	// files of the configuration directory
	cs.files = c20DirEntries()
	if r.Chance(35) {
		id := 1
		addf := func(name, content string) {
			cs.files = append(cs.files, c20File{name, id, []byte(content)})
			id++
		}
		sub := func() string {
			gg := &vcfg.Gen{R: r, CRLF: r.Chance(10), InDir: true, Chaos: g.Chaos}
			if r.Chance(40) {
				gg.Snips = []string{"sc"}
			}
			s := gg.Config()
			if g.Chaos > 0 && r.Chance(30) {
				s = gg.Mutate(s, 1+r.Intn(2))
			}
			return s
		}
		if r.Chance(70) {
			addf("inc1", sub())
			g.Files = append(g.Files, "inc1")
		}
		if r.Chance(60) {
			addf("inc2.conf", sub())
			g.Files = append(g.Files, "inc2", "inc2.conf")
		}
		if r.Chance(30) {
			addf("inc3", sub())
			addf("inc3.conf", sub())
			g.Files = append(g.Files, "inc3")
		}
		if r.Chance(20) {
			addf("selfinc", "x 1\nimport selfinc\n")
			if g.Chaos > 0 {
				g.Files = append(g.Files, "selfinc")
			}
		}
		if r.Chance(40) {
			last := g.Pick3("sb", "inc1", "muta")
			addf("muta", "(sb) {\n from_muta\n}\n$(m2) = from muta\nimport mutb\n")
			addf("mutb.conf", "y $(m2)\nimport "+last+"\n")
			if g.Chaos > 0 || last == "sb" {
				g.Files = append(g.Files, "muta")
			}
		}
		if r.Chance(10) {
			addf("inc4", "") // empty file
			g.Files = append(g.Files, "inc4", ".")
		}
	}
	tag := ""
	switch x := r.Intn(100); {
	case x < 50:
		cs.input = []byte(g.Config())
		tag = fmt.Sprintf("grammar/chaos%d", g.Chaos)
	case x < 75:
		cs.input = []byte(g.Mutate(g.Config(), 1+r.Intn(4)))
		tag = "grammar+mutation"
	case x < 83:
		cs.input = []byte(g.Raw())
		tag = "raw"
	case x < 90:
		d := 250 + r.Intn(14)
		closeN := d
		if r.Chance(30) {
			closeN = r.Intn(d + 2)
		}
		cs.input = []byte(g.Deep(d, closeN, r.Chance(15)))
		if r.Chance(30) {
			cs.input = []byte(g.Mutate(string(cs.input), 1))
		}
		tag = "deep"
	default:
		// depth through snippet expansion: main chain j with `import deep` at the bottom, snippet body chain k
		j, k := r.Intn(258), r.Intn(256)
		if r.Chance(50) {
			j, k = 250+r.Intn(8), r.Intn(8)
		}
		inner := g.Pick3("leaf y", "import deep", "import sa")
		var b strings.Builder
		b.WriteString("(deep) {\n" + strings.Repeat("s {\n", k) + inner + "\n" + strings.Repeat("}\n", k) + "}\n")
		b.WriteString("(sa) {\n q {\n  w\n }\n}\n")
		b.WriteString(strings.Repeat("m {\n", j) + "import deep\n" + strings.Repeat("}\n", j))
		cs.input = []byte(b.String())
		tag = "deep-snippet"
	}
	// environment
	for _, k := range vcfg.EnvKeys {
		if r.Chance(40) {
			cs.env = append(cs.env, [2]string{k, c20EnvVals[r.Intn(len(c20EnvVals))]})
		}
	}
	return cs, tag
}

// ---- inputs whose import expansion multiplies the tree (fix 3: maxExpandedNodes)
//
// Nothing here is skipped or pre-computed: the reader has to come back with a tree or an error within
// the resource bounds of c20Runner.read, whatever the multiplication factor.
func c20GenExpo(r *vh.Rng) (*c20Case, string) {
	cs := &c20Case{files: c20DirEntries()}
	var b strings.Builder
	payload := func(n int) string {
		var p strings.Builder
		for i := 0; i < n; i++ {
			p.WriteString(" " + vcfg.TreeNames[r.Intn(len(vcfg.TreeNames))] + " " + strconv.Itoa(i) + "\n")
		}
		return p.String()
	}
	imports := func(name string, f int) string { return strings.Repeat(" import "+name+"\n", f) }
	// levels of a chain: mostly small (the whole tree is returned), sometimes around the limit, often far above
	levels := func() int {
		switch x := r.Intn(100); {
		case x < 55:
			return 1 + r.Intn(9)
		case x < 62:
			return 10 + r.Intn(7)
		default:
			return 17 + r.Intn(40)
		}
	}
	wrap := func(body string) string { // the top-level import, possibly inside blocks
		d := r.Intn(3)
		return strings.Repeat("w {\n", d) + body + strings.Repeat("}\n", d)
	}
	tag := ""
	switch kind := r.Intn(9); kind {
	case 0: // a snippet importing itself several times
		f := 2 + r.Intn(2)
		if r.Chance(30) {
			b.WriteString("(a) { import a \n" + strings.Repeat(" import a \n", f-2) + " import a }\n")
		} else {
			b.WriteString("(a) {\n" + payload(r.Intn(3)) + imports("a", f) + "}\n")
		}
		b.WriteString(wrap("import a\n"))
		tag = "self"
	case 1, 2: // s_k imports s_(k-1) f times: f^k nodes from O(k) bytes, no recursion
		k, f := levels(), 2
		if r.Chance(20) {
			f, k = 3, 1+k*5/8
		}
		var decls []string
		if kind == 2 {
			decls = append(decls, "(s0) {\n}\n") // everything vanishes at the end; only the import directives multiply
		} else {
			decls = append(decls, "(s0) {\n"+payload(1+r.Intn(2))+"}\n")
		}
		for i := 1; i <= k; i++ {
			decls = append(decls, "(s"+strconv.Itoa(i)+") {\n"+imports("s"+strconv.Itoa(i-1), f)+"}\n")
		}
		if r.Chance(50) { // declaration order does not matter
			for i, j := 0, len(decls)-1; i < j; i, j = i+1, j-1 {
				decls[i], decls[j] = decls[j], decls[i]
			}
		}
		top := wrap("import s" + strconv.Itoa(k) + "\n")
		if r.Chance(50) {
			b.WriteString(strings.Join(decls, "") + top)
		} else {
			b.WriteString(top + strings.Join(decls, ""))
		}
		tag = "chain"
	case 3: // mutual recursion
		n := 2 + r.Intn(2)
		for i := 0; i < n; i++ {
			f := 2
			if i > 0 && r.Chance(40) {
				f = 1
			}
			b.WriteString("(c" + strconv.Itoa(i) + ") {\n" + payload(r.Intn(2)) + imports("c"+strconv.Itoa((i+1)%n), f) + "}\n")
		}
		b.WriteString(wrap("import c0\n"))
		tag = "mutual"
	case 4: // doubling below a block of the snippet: every level is one block deeper
		b.WriteString("(a) {\n x {\n" + imports("a", 2) + " }\n}\n" + wrap("import a\n"))
		tag = "nested"
	case 5, 6: // files e1 → e2 → …, each importing the next one twice; with or without any directive at the end
		k := 1 + r.Intn(11)
		if r.Chance(6) {
			k = 17 + r.Intn(8)
		}
		last := []string{"", "$(m1) = 1\n", "y 1\n", "(sq) {\n q\n}\n"}[r.Intn(4)]
		if kind == 6 {
			last = "n 1\nn 2\n"
		}
		for i := 1; i <= k; i++ {
			content := last
			if i < k {
				content = "import e" + strconv.Itoa(i+1) + "\nimport e" + strconv.Itoa(i+1) + "\n"
				if kind == 6 {
					content = "f" + strconv.Itoa(i) + "\n" + content
				}
			}
			name := "e" + strconv.Itoa(i)
			if r.Chance(30) {
				name += ".conf"
			}
			cs.files = append(cs.files, c20File{name, i, []byte(content)})
		}
		b.WriteString(wrap("import e1\n"))
		tag = "files"
	case 7: // the doubling snippets come from an imported file
		cs.files = append(cs.files, c20File{"exlib", 1, []byte("(la) {\n import lb\n import lb\n}\n(lb) {\n import " + []string{"la", "lc"}[r.Intn(2)] + "\n import lc\n}\n(lc) {\n z\n}\nfromlib\n")})
		b.WriteString("import exlib\n" + wrap(imports("la", 1+r.Intn(3))))
		tag = "file-snippets"
	default: // no multiplication at all: one snippet imported many times, around the limit
		// (the snippet is large so that the input stays short: the model's dispenser is a list)
		p := 60 + r.Intn(120)
		c := 100000/(p+1) + r.Intn(5) - 2
		if r.Chance(60) {
			c = r.Intn(200)
		}
		b.WriteString("(a) {\n" + payload(p) + "}\n" + strings.Repeat("import a\n", c))
		tag = "wide"
	}
	cs.input = []byte(b.String())
	return cs, "expo/" + tag
}

// the fixed part of the same: the reviewer's 40-byte input, chains on both sides of the limit, the exact
// boundary of the counter (1000 imports of a 99-node snippet: 1000·(1+99) = maxExpandedNodes, one more is too many)
func c20ExpoFixed() []*c20Case {
	mk := func(input string, files ...c20File) *c20Case {
		return &c20Case{input: []byte(input), files: append(c20DirEntries(), files...)}
	}
	chain := func(k int, base string) string {
		var b strings.Builder
		b.WriteString("(s0) {\n" + base + "}\n")
		for i := 1; i <= k; i++ {
			b.WriteString("(s" + strconv.Itoa(i) + ") {\n import s" + strconv.Itoa(i-1) + "\n import s" + strconv.Itoa(i-1) + "\n}\n")
		}
		return b.String() + "import s" + strconv.Itoa(k) + "\n"
	}
	var p99 strings.Builder
	for i := 0; i < 99; i++ {
		p99.WriteString(" d" + strconv.Itoa(i) + "\n")
	}
	var efiles []c20File
	for i := 1; i <= 18; i++ {
		content := ""
		if i < 18 {
			content = "import e" + strconv.Itoa(i+1) + "\nimport e" + strconv.Itoa(i+1) + "\n"
		}
		efiles = append(efiles, c20File{"e" + strconv.Itoa(i), i, []byte(content)})
	}
	return []*c20Case{
		mk("(a) { import a \n import a }\nimport a\n"),
		mk("(a) { import a \n import a }\n"),
		mk(chain(12, " x\n")),
		mk(chain(40, " x\n")),
		mk(chain(200, "")),
		mk("(a) {\n import b\n import b\n}\n(b) {\n import a\n import a\n}\nimport a\n"),
		mk("(a) {\n" + p99.String() + "}\n" + strings.Repeat("import a\n", 1000)),
		mk("(a) {\n" + p99.String() + "}\n" + strings.Repeat("import a\n", 1001)),
		mk("import e1\n", efiles...),
	}
}

// ---- the import budget itself (round 8)
//
// runCharge calls readTree with a counter of its own and compares counter and tree size with the model
// (`C20 charge`: ok <charged> <nodes>). Independently of the model: the budget is respected, and it pays
// for everything that was added — the tree has at most one node per token of the main file plus what was
// charged. A budget that does not count what an import splices in (only the top level of it, only some
// kinds of node, …) fails the second clause as soon as a tree is returned.
func c20Tokens(content []byte) int {
	d := lexer.NewDispenser("", bytes.NewReader(content))
	n := 0
	for d.Next() {
		n++
	}
	return n
}

func (rn *c20Runner) runCharge(out *vh.Out, cs *c20Case, tag string) {
	op := "C20 charge " + cs.opArgs()
	rn.prepare(cs)
	res, cnt := rn.readTreeCounted(cs.input)
	out.Stat("gen=" + tag + "[charge]")
	switch {
	case res.timeout:
		rn.runaway(out, op, res)
		return
	case res.panicked != nil:
		out.Violation("C20/panic", op, fmt.Sprint(res.panicked))
		out.Corr(op, "panic")
		return
	case res.err != nil:
		cls, inModel := c20ErrClass(res.err)
		if !inModel {
			return
		}
		out.Corr(op, cls)
		out.Stat("charge.outcome=" + strings.Join(strings.Fields(cls)[:2], " "))
		return
	}
	n := c20Count(res.nodes)
	out.Corr(op, fmt.Sprintf("ok %d %d", cnt, n))
	out.Stat("charge.outcome=ok")
	switch {
	case cnt == 0:
		out.Stat("charge.charged=0")
	case cnt <= 100:
		out.Stat("charge.charged=1-100")
	case cnt <= 10000:
		out.Stat("charge.charged=101-1e4")
	default:
		out.Stat("charge.charged=1e4-1e5")
	}
	if cnt > c20NodeLimit {
		out.Violation("C20/expansion-unbounded", op, fmt.Sprintf("import budget charged %d, above the limit %d, and a tree was returned", cnt, c20NodeLimit))
	}
	if toks := c20Tokens(cs.input); n > toks+cnt {
		out.Violation("C20/expansion-unbounded", op, fmt.Sprintf("the tree has %d nodes, the main file has %d tokens and the import budget was charged %d: imports added nodes that were never charged", n, toks, cnt))
	}
}

// Doubling / tripling chains whose bodies are NOT flat: the imports and the payload of a snippet (or file)
// sit inside 1..3 levels of blocks, with payload (leaves, empty blocks, or blocks holding a leaf) and imports at every level, also mixed with
// flat ones. What one import splices in is then a few top-level nodes with many descendants.
type c20NestedParams struct {
	fan     int   // imports of the previous link per body
	wrap    int   // levels of blocks in a body
	payload []int // payload directives at level 0 (flat) … wrap
	pkind   []int // what they are, per level (nil = leaves): 0 leaves, 1 empty blocks, 2 blocks holding one leaf
	imports []int // imports at level 0 (flat) … wrap; sum = fan
	links   int
	files   bool // links are files e1 → e2 → … instead of snippets
	reverse bool
	topWrap int
}

func (p c20NestedParams) kind(lv int) int {
	if lv < len(p.pkind) {
		return p.pkind[lv]
	}
	return 0
}

func (p c20NestedParams) perBody() int {
	n := p.wrap
	for lv, x := range p.payload {
		if p.kind(lv) == 2 {
			x *= 2
		}
		n += x
	}
	return n + 1
}

func c20NestedBody(p c20NestedParams, link int, importName string) string {
	var b strings.Builder
	for lv := 0; lv <= p.wrap; lv++ {
		ind := strings.Repeat(" ", lv+1)
		if lv > 0 {
			b.WriteString(strings.Repeat(" ", lv) + "w" + strconv.Itoa(lv) + " a" + strconv.Itoa(link) + " {\n")
		}
		for i := 0; i < p.payload[lv]; i++ {
			b.WriteString(ind + "p" + strconv.Itoa(lv) + " " + strconv.Itoa(i) + []string{"\n", " {\n" + ind + "}\n", " {\n" + ind + " l\n" + ind + "}\n"}[p.kind(lv)])
		}
		if importName != "" {
			b.WriteString(strings.Repeat(ind+"import "+importName+"\n", p.imports[lv]))
		}
	}
	for lv := p.wrap; lv > 0; lv-- {
		b.WriteString(strings.Repeat(" ", lv) + "}\n")
	}
	return b.String()
}

func c20NestedCase(p c20NestedParams) *c20Case {
	cs := &c20Case{files: c20DirEntries()}
	top := func(body string) string {
		return strings.Repeat("t {\n", p.topWrap) + body + strings.Repeat("}\n", p.topWrap)
	}
	if p.files {
		// e1 imports e2 … e<links> is the leaf
		for i := 1; i <= p.links; i++ {
			next := ""
			if i < p.links {
				next = "e" + strconv.Itoa(i+1)
			}
			cs.files = append(cs.files, c20File{"e" + strconv.Itoa(i), i, []byte(c20NestedBody(p, i, next))})
		}
		cs.input = []byte(top("import e1\n"))
		return cs
	}
	var decls []string
	for i := 0; i <= p.links; i++ {
		prev := ""
		if i > 0 {
			prev = "s" + strconv.Itoa(i-1)
		}
		decls = append(decls, "(s"+strconv.Itoa(i)+") {\n"+c20NestedBody(p, i, prev)+"}\n")
	}
	if p.reverse {
		for i, j := 0, len(decls)-1; i < j; i, j = i+1, j-1 {
			decls[i], decls[j] = decls[j], decls[i]
		}
	}
	cs.input = []byte(strings.Join(decls, "") + top("import s"+strconv.Itoa(p.links)+"\n"))
	return cs
}

func c20GenNestedExpo(r *vh.Rng) (*c20Case, string) {
	p := c20NestedParams{fan: 2, wrap: 1 + r.Intn(3), files: r.Chance(20), reverse: r.Bool(), topWrap: r.Intn(3)}
	if r.Chance(25) {
		p.fan = 3
	}
	p.payload = make([]int, p.wrap+1)
	p.imports = make([]int, p.wrap+1)
	p.pkind = make([]int, p.wrap+1)
	for lv := range p.payload {
		if r.Chance(35) {
			p.pkind[lv] = 1 + r.Intn(2) // the payload is made of blocks
		}
		switch r.Intn(3) {
		case 0:
			p.payload[lv] = r.Intn(3)
		case 1:
			p.payload[lv] = 3 + r.Intn(20)
		default:
			p.payload[lv] = 20 + r.Intn(45)
		}
	}
	style := "nested"
	switch x := r.Intn(100); {
	case x < 45: // all imports in the innermost block
		p.imports[p.wrap] = p.fan
	case x < 70: // spread over the nested levels
		for i := 0; i < p.fan; i++ {
			p.imports[1+r.Intn(p.wrap)]++
		}
		style = "spread"
	default: // flat and nested mixed
		p.imports[0] = 1
		for i := 1; i < p.fan; i++ {
			p.imports[1+r.Intn(p.wrap)]++
		}
		style = "mixed"
	}
	// size of the full expansion ≈ perBody · fan^links: a few thousand nodes (returned whole), around the
	// limit, or several times the limit (must be refused; nothing is pre-computed or skipped: the reader has
	// to come back with an error, or with a tree within the bound, under the watch of c20Runner)
	var target int
	switch x := r.Intn(100); {
	case x < 35:
		target = 500 + r.Intn(40000)
	case x < 60:
		target = 60000 + r.Intn(90000)
	default:
		target = 150000 + r.Intn(450000)
	}
	size := p.perBody()
	for size*p.fan <= target && p.links < 40 {
		size *= p.fan
		p.links++
	}
	if p.links == 0 {
		p.links = 1
	}
	if p.files && p.links > 14 {
		p.links = 14 // every import of a file reads and parses it again
	}
	kind := "snippets"
	if p.files {
		kind = "files"
		p.links++ // e1 … e<links>, the last one is the leaf
	}
	return c20NestedCase(p), fmt.Sprintf("expo-nested/%s/%s/fan%d", kind, style, p.fan)
}

// fixed part: bodies wrapped in one block whose full expansion is just above the limit (refused by a budget
// that counts what it splices in; a tree of that size is the violation), below it (the charge is compared
// with the model), flat + nested mixed, three levels, files.
func c20NestedFixed() []*c20Case {
	return []*c20Case{
		c20NestedCase(c20NestedParams{fan: 2, wrap: 1, payload: []int{0, 60}, imports: []int{0, 2}, links: 11}),
		c20NestedCase(c20NestedParams{fan: 2, wrap: 1, payload: []int{0, 60}, imports: []int{0, 2}, links: 6}),
		c20NestedCase(c20NestedParams{fan: 3, wrap: 2, payload: []int{1, 4, 30}, imports: []int{0, 1, 2}, links: 8, reverse: true}),
		c20NestedCase(c20NestedParams{fan: 2, wrap: 1, payload: []int{2, 50}, imports: []int{1, 1}, links: 12, topWrap: 1}),
		c20NestedCase(c20NestedParams{fan: 2, wrap: 3, payload: []int{0, 0, 0, 40}, imports: []int{0, 0, 0, 2}, links: 12}),
		c20NestedCase(c20NestedParams{fan: 2, wrap: 3, payload: []int{3, 3, 3, 3}, imports: []int{0, 1, 0, 1}, links: 7}),
		c20NestedCase(c20NestedParams{fan: 2, wrap: 1, payload: []int{0, 55}, imports: []int{0, 2}, links: 12, files: true}),
		c20NestedCase(c20NestedParams{fan: 2, wrap: 1, payload: []int{0, 60}, pkind: []int{0, 1}, imports: []int{0, 2}, links: 11}),
		c20NestedCase(c20NestedParams{fan: 2, wrap: 1, payload: []int{30, 0}, pkind: []int{2, 0}, imports: []int{1, 1}, links: 11}),
		c20NestedCase(c20NestedParams{fan: 2, wrap: 2, payload: []int{1, 1, 1}, imports: []int{0, 0, 2}, links: 5, files: true}),
	}
}

// ---- macro references inside longer arguments: defined, undefined, value-less, defined later or elsewhere
//
// Every case is "plain" in the sense of c20PlainRefs, so the residual-reference rule applies to all of them.
func c20GenEmbedded(r *vh.Rng) (*c20Case, string) {
	cs := &c20Case{files: c20DirEntries()}
	lits := []string{"", "", "pre-", "-post", "/etc/", "/x", "user@", ".example.org", ":25", "a b", "\u00e9", "tcp://", "=", "$", "{env:H}", "_", "#", "{", "}x"}
	names := []string{"host", "dom", "zero", "nope", "hostnme", "late", "m1", "empty", "a.b", "x-y", "\u00e9", "1"}
	ref := func() string { return "$(" + names[r.Intn(len(names))] + ")" }
	arg := func() string {
		var a string
		switch x := r.Intn(100); {
		case x < 15:
			a = ref() // the whole argument
		case x < 70:
			a = lits[r.Intn(len(lits))] + ref() + lits[r.Intn(len(lits))]
		case x < 90:
			a = lits[r.Intn(len(lits))] + ref() + lits[r.Intn(len(lits))] + ref() + lits[r.Intn(len(lits))]
		default:
			m := ref()
			a = lits[r.Intn(len(lits))] + m + m + lits[r.Intn(len(lits))] + m
		}
		if a == "" || strings.ContainsAny(a, " #{}") || r.Chance(15) {
			return "\"" + a + "\""
		}
		return a
	}
	decl := func(b *strings.Builder, name string) {
		switch r.Intn(6) {
		case 0:
			b.WriteString("$(" + name + ") = $(nope)\n") // declared, no value at all
		case 1:
			b.WriteString("$(" + name + ") = $(nope) $(hostnme)\n")
		case 2:
			b.WriteString("$(" + name + ") = \"\"\n") // one empty value
		case 3:
			b.WriteString("$(" + name + ") = v-$(dom)\n") // defined through another one (possibly undefined)
		default:
			b.WriteString("$(" + name + ") = " + []string{"mx.example.org", "example.org", "x", "\"a b\"", "10"}[r.Intn(5)] + "\n")
		}
	}
	var b strings.Builder
	for _, nm := range []string{"host", "dom", "zero", "m1", "empty", "a.b", "x-y", "\u00e9", "1"} {
		if r.Chance(45) {
			decl(&b, nm)
		}
	}
	useFile := r.Chance(20)
	if useFile {
		var f strings.Builder
		decl(&f, "late") // macros of an imported file are visible after the import only
		f.WriteString("infile " + arg() + "\n")
		cs.files = append(cs.files, c20File{"mlib", 1, []byte(f.String())})
	}
	useSnip := r.Chance(30)
	if useSnip {
		b.WriteString("(ms) {\n insnip " + arg() + " " + arg() + "\n}\n")
	}
	n := 1 + r.Intn(5)
	for i := 0; i < n; i++ {
		nm := vcfg.TreeNames[r.Intn(len(vcfg.TreeNames))]
		b.WriteString(nm)
		for k := 1 + r.Intn(3); k > 0; k-- {
			b.WriteString(" " + arg())
		}
		if r.Chance(30) {
			b.WriteString(" {\n  inner " + arg() + "\n")
			if useSnip && r.Chance(50) {
				b.WriteString("  import ms\n")
			}
			b.WriteString("}")
		}
		b.WriteString("\n")
		if useFile && r.Chance(40) {
			b.WriteString("import mlib\n")
		}
	}
	if r.Chance(50) {
		decl(&b, "late") // too late for the uses above
	}
	for _, k := range []string{"H", "DOMAIN"} {
		if r.Chance(50) {
			cs.env = append(cs.env, [2]string{k, []string{"example.org", "", "with space", "mx"}[r.Intn(4)]})
		}
	}
	cs.input = []byte(b.String())
	return cs, "embedded-ref"
}

// ---- references to macros with unusual names, whole arguments and inside arguments (round 6)
//
// A macro declaration accepts any text between `$(` and `)` as the name (only the empty name cannot be
// declared: `$() = v` is read as a directive called `$()`). The generator declares macros with such names
// and writes references to them — and to names that are not declared — keeping a record of every
// reference: the directive it stands in (every directive of a case has its own name), whether it is the
// whole argument, and whether the macro is declared AT THAT POINT of the text (declarations are top-level
// lines of the same file; a snippet body is expanded where it is written). The record travels in the op
// line (`| r <directive> <class> <reference>`) so that a replay checks the same obligations. It is
// derived from what the generator wrote, never from what the reader made of it.
//
// Literal text, macro values and environment values contain no `(` or `)` and no name contains `$(`, so a
// text `$(name)` in the output can only be a reference that was copied from the input.
//
// What is demanded (c20CheckObls), in the directive the reference was written into:
//   wd, wu  a reference that is the whole argument does not remain as an argument, declared or not
//           (declared: its values stand there; not declared: it stands for no argument);
//   ed      a reference to a declared macro inside a longer argument does not remain in any argument;
//   eu      the same for an undeclared macro with an ordinary name (not empty, no `$`, `(`, `)`), as in
//           the residual-reference rule of round 4;
//   edx     = ed for a name that contains `$`. The unchanged reader violates this one (its pattern for
//           references inside a string excludes `$` from names although declarations and whole-argument
//           references accept it): reported under its own signature, a known finding.
// A reference inside a longer argument to an UNDECLARED macro whose name is empty or contains `$`, `(` or `)`
// carries no obligation: it is text.

var c20OddNames = []string{
	"", "", "$", "$", "dom$1", "dom$1", "a$", "$x", "$$", "1$", "a$b$c", "$ ", "us$er name",
	"a b", " ", "a\tb", "a\"b", "\"", "'", "a  b",
	"a(b", "(", "((", "a)b", ")", "a)", "))", "()", "(x)", ")(", "a) b",
	"=", "{", "}", "a{b}", "#", "a#b", "\\", "a\\b", "*", ",", ";x", "%d", "&", "!", "a/b",
	"é", "日本", "٣", "a.b", "x-y", "1", "dom", "host", "m1", "import", "A",
}

func c20NameClassOrdinary(name string) bool { return name != "" && !strings.ContainsAny(name, "$()") }

type c20OddGen struct {
	r     *vh.Rng
	names []string // the names this case plays with
	obls  []c20Obl
	nDir  int
	// per directive: names referenced as a whole argument / inside an argument without obligation. The
	// two sets are kept disjoint: what is around a reference can vanish ({env:H}, other references), and
	// a reference that may stay must not be mistaken for a whole-argument reference that must not.
	whole, free map[string]bool
}

// tok writes a token text in the configuration syntax; ok=false when it cannot be written.
func (g *c20OddGen) tok(s string) (string, bool) {
	need := s == "" || strings.HasPrefix(s, "\"") || strings.ContainsAny(s, "#") || s == "{" || s == "}"
	for _, ch := range s {
		if unicode.IsSpace(ch) {
			need = true
		}
	}
	if !need && !g.r.Chance(20) {
		return s, true
	}
	if !c20Quotable(s) {
		return "", false
	}
	return c20Quote(s), true
}

var c20OddLits = []string{"", "", "", "pre-", "-post", "/etc/", "/x", "user@", ".example.org", ":25", "a b", "é", "=", "_", "{", "}x", "#", "$", "{env:H}", "\"", "\\", "'", "x"}
var c20OddVals = []string{"example.org", "mx.example.org", "10", "a b", "", "v-1", "é", "x=y", "_"}

func (g *c20OddGen) lit() string  { return c20OddLits[g.r.Intn(len(c20OddLits))] }
func (g *c20OddGen) name() string { return g.names[g.r.Intn(len(g.names))] }

// arg writes one argument of the directive dir; declared: name → number of values, at this point of the text.
func (g *c20OddGen) arg(dir string, declared map[string]int) string {
	r := g.r
	for {
		var text string
		var obls []c20Obl
		var newWhole, newFree []string
		clash := false
		emb := func(name string) string {
			ref := "$(" + name + ")"
			n, isDecl := declared[name]
			if isDecl && n > 1 && !r.Chance(8) {
				// several values inside a string: an error of the reader, kept rare
				return "x"
			}
			switch {
			case isDecl && strings.Contains(name, "$"):
				obls = append(obls, c20Obl{dir, "edx", ref})
				// (the unchanged reader leaves it, see above: not to be mistaken for a whole argument either)
				newFree = append(newFree, name)
				clash = clash || g.whole[name]
			case isDecl:
				obls = append(obls, c20Obl{dir, "ed", ref})
			case c20NameClassOrdinary(name):
				obls = append(obls, c20Obl{dir, "eu", ref})
			default:
				newFree = append(newFree, name)
				clash = clash || g.whole[name]
			}
			return ref
		}
		switch x := r.Intn(100); {
		case x < 40:
			name := g.name()
			text = "$(" + name + ")"
			newWhole = append(newWhole, name)
			clash = clash || g.free[name]
			if _, isDecl := declared[name]; isDecl {
				obls = append(obls, c20Obl{dir, "wd", text})
			} else {
				obls = append(obls, c20Obl{dir, "wu", text})
			}
		case x < 80:
			pre, post := g.lit(), g.lit()
			if pre == "" && post == "" {
				if r.Bool() {
					pre = "x"
				} else {
					post = "y"
				}
			}
			text = pre + emb(g.name()) + post
		default:
			text = g.lit() + emb(g.name()) + g.lit() + emb(g.name()) + g.lit()
		}
		if clash {
			continue
		}
		if t, ok := g.tok(text); ok {
			g.obls = append(g.obls, obls...)
			for _, n := range newWhole {
				g.whole[n] = true
			}
			for _, n := range newFree {
				g.free[n] = true
			}
			return t
		}
	}
}

func (g *c20OddGen) dirName() string {
	g.nDir++
	return "o" + strconv.Itoa(g.nDir)
}

// directive writes `name args…` (+ optional block with one more directive / an import of the snippet)
func (g *c20OddGen) directive(b *strings.Builder, declared map[string]int, depth int, snip string) {
	r := g.r
	dir := g.dirName()
	g.whole, g.free = map[string]bool{}, map[string]bool{}
	b.WriteString(strings.Repeat(" ", depth) + dir)
	for k := 1 + r.Intn(3); k > 0; k-- {
		b.WriteString(" " + g.arg(dir, declared))
	}
	if depth < 2 && r.Chance(25) {
		b.WriteString(" {\n")
		for k := r.Intn(3); k > 0; k-- {
			g.directive(b, declared, depth+1, snip)
		}
		if snip != "" && r.Chance(50) {
			b.WriteString(strings.Repeat(" ", depth+1) + "import " + snip + "\n")
		}
		b.WriteString(strings.Repeat(" ", depth) + "}")
	}
	b.WriteString("\n")
}

// decl writes a declaration of name and returns the number of values it has.
func (g *c20OddGen) decl(b *strings.Builder, name string, declared map[string]int) {
	r := g.r
	for {
		t, ok := g.tok("$(" + name + ")")
		if !ok {
			continue
		}
		val := func() string {
			for {
				if v, ok := g.tok(c20OddVals[r.Intn(len(c20OddVals))]); ok {
					return v
				}
			}
		}
		switch x := r.Intn(100); {
		case x < 70:
			b.WriteString(t + " = " + val() + "\n")
			declared[name] = 1
		case x < 82:
			b.WriteString(t + " = " + val() + " " + val() + "\n")
			declared[name] = 2
		case x < 90:
			// declared from a reference to something undeclared: no value at all
			u, ok := g.tok("$(never " + name + ")")
			if !ok {
				continue
			}
			b.WriteString(t + " = " + u + "\n")
			declared[name] = 0
		default:
			// declared from another macro of the case (whatever it is at this point)
			other := g.name()
			u, ok := g.tok("$(" + other + ")")
			if !ok {
				continue
			}
			b.WriteString(t + " = " + u + "\n")
			declared[name] = declared[other] // 0 when not declared
		}
		return
	}
}

func c20GenOddRefs(r *vh.Rng) (*c20Case, string) {
	cs := &c20Case{files: c20DirEntries()}
	g := &c20OddGen{r: r}
	pick := func(k int) []string {
		var out []string
		for len(out) < k {
			n := c20OddNames[r.Intn(len(c20OddNames))]
			dup := false
			for _, o := range out {
				dup = dup || o == n
			}
			if !dup {
				out = append(out, n)
			}
		}
		return out
	}
	all := pick(3 + r.Intn(4))
	g.names = all
	var b strings.Builder
	declared := map[string]int{}

	// an imported file with names of its own (macros of a file are expanded in that file)
	if r.Chance(20) {
		mainNames := g.names
		g.names = nil
		for _, n := range pick(4) {
			dup := false
			for _, o := range mainNames {
				dup = dup || o == n
			}
			if !dup {
				g.names = append(g.names, n)
			}
		}
		if len(g.names) != 0 {
			var f strings.Builder
			fdecl := map[string]int{}
			for _, n := range g.names {
				if n != "" && r.Chance(60) {
					g.decl(&f, n, fdecl)
				}
				if r.Chance(50) {
					g.directive(&f, fdecl, 0, "")
				}
			}
			g.directive(&f, fdecl, 0, "")
			cs.files = append(cs.files, c20File{"olib", 1, []byte(f.String())})
		}
		g.names = mainNames
	}
	useFile := len(cs.files) > 3

	snip := ""
	for _, name := range g.names {
		if name != "" && r.Chance(40) {
			g.decl(&b, name, declared) // declared before everything else; the others later, or never
		}
	}
	n := 2 + r.Intn(5)
	for i := 0; i < n; i++ {
		switch x := r.Intn(100); {
		case x < 25:
			name := g.name()
			if name == "" {
				// `$() = v` is not a declaration; the directive name `$()` is refused
				continue
			}
			g.decl(&b, name, declared)
		case x < 45 && snip == "":
			snip = "os"
			b.WriteString("(os) {\n")
			for k := 1 + r.Intn(2); k > 0; k-- {
				g.directive(&b, declared, 1, "")
			}
			b.WriteString("}\n")
		case x < 55 && snip != "":
			b.WriteString("import " + snip + "\n")
		case x < 62 && useFile:
			b.WriteString("import olib\n")
		default:
			g.directive(&b, declared, 0, snip)
		}
	}
	g.directive(&b, declared, 0, snip)
	if r.Chance(50) {
		cs.env = append(cs.env, [2]string{"H", []string{"example.org", "", "with space", "mx"}[r.Intn(4)]})
	}
	cs.input = []byte(b.String())
	cs.obls = g.obls
	return cs, "odd-ref"
}

// c20CheckObls: none of the references the generator wrote may still stand in the directive it was written into.
func c20CheckObls(out *vh.Out, op string, cs *c20Case, ns []Node) {
	byDir := map[string][]c20Obl{}
	for _, o := range cs.obls {
		byDir[o.dir] = append(byDir[o.dir], o)
	}
	reported := map[c20Obl]bool{}
	var walk func(ns []Node)
	walk = func(ns []Node) {
		for _, n := range ns {
			for _, o := range byDir[n.Name] {
				left := ""
				for _, a := range n.Args {
					if (o.class[0] == 'w' && a == o.ref) || (o.class[0] == 'e' && strings.Contains(a, o.ref)) {
						left = a
					}
				}
				if left == "" {
					out.Stat("odd-ref." + o.class + "=gone")
					continue
				}
				out.Stat("odd-ref." + o.class + "=LEFT")
				if reported[o] {
					continue
				}
				reported[o] = true
				switch o.class {
				case "wd":
					out.Violation("C20/ill-formed-output", op, "unexpanded macro reference left: "+strconv.Quote(o.ref)+", a whole argument of directive "+strconv.Quote(n.Name)+" that refers to a macro declared above, is still there")
				case "wu":
					out.Violation("C20/ill-formed-output", op, "unexpanded macro reference left: "+strconv.Quote(o.ref)+", a whole argument of directive "+strconv.Quote(n.Name)+" (macro not declared: stands for no argument), is still there")
				case "ed":
					out.Violation("C20/ill-formed-output", op, "unexpanded macro reference left: "+strconv.Quote(o.ref)+" refers to a macro declared above and is still in argument "+strconv.Quote(left)+" of directive "+strconv.Quote(n.Name))
				case "eu":
					out.Violation("C20/ill-formed-output", op, "unexpanded macro reference left: "+strconv.Quote(o.ref)+" (macro not declared) is still in argument "+strconv.Quote(left)+" of directive "+strconv.Quote(n.Name))
				case "edx":
					out.Violation("C20/macro-with-dollar-name-left-in-string", op, "unexpanded macro reference left: "+strconv.Quote(o.ref)+" refers to a macro declared above (its name contains `$`) and is still in argument "+strconv.Quote(left)+" of directive "+strconv.Quote(n.Name))
				}
			}
			walk(n.Children)
		}
	}
	walk(ns)
}

// ---- declarations closed by `}` on their own line
//
// Before fix 4 `x { $(m) = v }` and `x { (s) }` decremented ctx.nesting and carried on INSIDE the block
// (readNodes `continue`d past the shouldStop break): every following line was one block — and one level of
// recursion — deeper while ctx.nesting stayed at 1, and only the walk after import expansion (checkNesting)
// bounded the depth of what Read returned. Since fix 4 such a declaration is refused ("only allowed at
// top-level"); the generator stays: whatever the reader makes of these lines, the tree it returns is
// bounded (and the deep variant of the same text is parsed in a child process, zz_verif_c20_deep_test.go).
func c20GenSameLine(r *vh.Rng) (*c20Case, string) {
	cs := &c20Case{files: c20DirEntries()}
	var n int
	switch x := r.Intn(100); {
	case x < 30:
		n = 1 + r.Intn(40)
	case x < 50:
		n = 240 + r.Intn(17)
	case x < 97:
		n = 257 + r.Intn(30)
	default:
		n = 400 + r.Intn(400)
	}
	if vh.Thorough() && r.Chance(2) {
		n = 1000 + r.Intn(1000) // recursion depth of the parser grows with the number of lines
	}
	decls := []string{"$(m1) = v }", "(sa) }", "$(m2) = v w }", "$(mm) = \"a b\" }", "$(m1) = $(m2) }", "(sb) }"}
	var b strings.Builder
	withImport := r.Chance(35)
	if withImport {
		b.WriteString("(st) {\n q 1\n}\n")
	}
	one := r.Chance(60)
	d0 := decls[r.Intn(len(decls))]
	for i := 0; i < n; i++ {
		d := d0
		if !one {
			d = decls[r.Intn(len(decls))]
		}
		b.WriteString(vcfg.TreeNames[r.Intn(len(vcfg.TreeNames))] + " { " + d + "\n")
		if r.Chance(3) {
			b.WriteString("between " + strconv.Itoa(i) + "\n")
		}
	}
	// ordinary blocks below, counted by ctx.nesting
	k := 0
	switch x := r.Intn(100); {
	case x < 50:
	case x < 80:
		k = 1 + r.Intn(12)
	default:
		k = 245 + r.Intn(14)
	}
	b.WriteString(strings.Repeat("o {\n", k))
	switch r.Intn(4) {
	case 0:
		b.WriteString("leaf x$(m1)y $(mm)\n")
	case 1:
		b.WriteString("leaf\n")
	}
	if withImport {
		b.WriteString("import st\n")
	}
	closeN := k
	if r.Chance(15) {
		closeN = r.Intn(k + 2)
	}
	b.WriteString(strings.Repeat("}\n", closeN))
	cs.input = []byte(b.String())
	if r.Chance(15) {
		g := &vcfg.Gen{R: r}
		cs.input = []byte(g.Mutate(string(cs.input), 1))
	}
	tag := "sameline-close"
	if withImport {
		tag += "+import"
	}
	return cs, tag
}

// the configuration directory itself is always reachable through "", "." and ".."
func c20DirEntries() []c20File {
	return []c20File{{"", 90, nil}, {".", 91, nil}, {"..", 92, nil}}
}

// c20GenTree builds a tree directly (not by parsing); expressible ones are printed in the canonical
// syntax and must parse back to exactly this tree.
func c20GenTree(r *vh.Rng, depth int) []Node {
	n := r.Intn(4)
	if depth == 0 {
		n = 1 + r.Intn(4)
	}
	var out []Node
	for i := 0; i < n; i++ {
		nd := Node{Name: vcfg.TreeNames[r.Intn(len(vcfg.TreeNames))]}
		for k := r.Intn(4); k > 0; k-- {
			nd.Args = append(nd.Args, vcfg.TreeWords[r.Intn(len(vcfg.TreeWords))])
		}
		if r.Chance(40 / (depth + 1)) {
			nd.Children = c20GenTree(r, depth+1)
			if nd.Children == nil {
				nd.Children = []Node{}
			}
		}
		out = append(out, nd)
	}
	return out
}

func (rn *c20Runner) runTree(out *vh.Out, cs *c20Case, tree []Node) {
	if !c20Expressible(tree, cs.env, false) {
		out.Stat("tree=inexpressible")
		return
	}
	var pr strings.Builder
	c20Print(tree, &pr)
	cs.input = []byte(pr.String())
	op := "C20 parse " + cs.opArgs()
	rn.prepare(cs)
	res := rn.read(cs.input)
	out.Stat("tree=checked")
	switch {
	case res.timeout || res.panicked != nil:
		out.Violation("C20/roundtrip", op, fmt.Sprintf("parse of a printed tree crashed or hung: %v %s", res.panicked, res.exhausted))
		if res.timeout && !res.unwound {
			rn.giveUp(out)
		}
	case res.err != nil:
		out.Violation("C20/roundtrip", op, "parse of a printed expressible tree failed: "+res.err.Error())
	case !c20SameShape(tree, res.nodes):
		var b2 strings.Builder
		rn.showNodes(cs, res.nodes, &b2)
		out.Violation("C20/roundtrip", op, "parse of a printed expressible tree gives a different tree: "+b2.String())
	}
	// and the usual correspondence + monitors on the same text
	rn.runCase(out, cs, true, "tree")
}

var c20Fixed = []string{
	"",
	"a",
	"a b c\n",
	"a {\n}\n",
	"a { }\n",
	"a { b }\n",
	"a { b { c } }\n",
	"a {\n b\n} c\n",
	"{\n",
	"}\n",
	"a }\n",
	"a {\n",
	"a \\\n b\n",
	"a x \\ {\n}\n b\n",
	"a \\ \\\n",
	"$(m) = 1 2\nx $(m) y$(m)\n",
	"$(m) = 1\nx y$(m)z $(m)\n",
	"$(a) = $(b)\nx y$(a)z\n",
	"$(a) = $(b)\nx $(a)\n",
	"$(a) =\n",
	"$(a) x y\n",
	"$(a = 1 2\n",
	"$() = 1\nx $() y$()\n",
	"x $() tail\n",
	"x head $($)\n",
	"x { \n y \"$()\" $(a$b) z\n}\n",
	"$(dom$1) = example.org\nx $(dom$1)\n",
	"$(dom$1) = example.org\nx $(dom$1) user@$(dom$1)\n",
	"$(a$) = x y\nblk {\n dir $(a$) z\n}\n",
	"$($) = v\n$(w) = $($) $()\nx $(w) $($)\n",
	"\"$(a b)\" = v w\nx \"$(a b)\" z\nx \"$( )\" \"$(a  b)\"\n",
	"\"$(a\\\"b)\" = v\nx \"$(a\\\"b)\" \"p$(a\\\"b)q\"\n",
	"$(a)b) = v\nx $(a)b) p$(a)b)q\n",
	"$(a) = 1\n$(a)) = 2\nx $(a)) p$(a))q $(a)\n",
	"$(() = v\n$()) = w\nx $(() p$(()q $()) p$())q\n",
	"$(a)$(b) = v\n$(a) = 1\n$(b) = 2\nx $(a)$(b) y$(a)$(b)\n",
	"$(=) = v\n$({) = w\nx $(=) $({) p$(=)q$({)\n",
	"$($(x)) = 1 2\n",
	"$(m) = 1\n$($(m)) = 2 3\n",
	"a $(a)\n",
	"$(x)\n",
	"x {\n $(m) = 1\n}\n",
	"(s) {\n a\n}\nimport s\n",
	"(s) {\n import s\n}\nimport s\n",
	"(s)\nimport s\n",
	"import s\n(s) {\n import s\n}\n",
	"import a\n(a) {\n import b\n}\n(b) {\n import a\n}\n",
	"x {\n import s\n}\n(s) {\n y {\n  import t\n }\n}\n(t) {\n z 1 2\n}\n",
	"(s) x {\n}\n",
	"x {\n (s) {\n }\n}\n",
	"import\n",
	"import a b\n",
	"import nothing\n",
	"x {\n import nothing\n}\n",
	"()\nimport \"\"\n",
	"(a) {\n import b\n}\n(b) {\n import a\n}\nimport a\n",
	"1a\n",
	"\"\"\n",
	"a! b\n",
	"a {env:H} x{env:H}y {env:UNSET} {env:a$b}\n",
	"{env:H} x\n",
	"a \"{\"\n",
	"a \"}\"\n",
	"a {\n b \"}\"\n",
	"a # c\n b\n",
	"a#b c\n",
	"a \"x\ny\" z\n w\n",
	"a \"x\ny\"\n z\n",
	"\ufeffa b\n",
	"a\r\n{\r\n}\r\n",
	"a {\n}\n}\n",
	"a { } }\n",
	"a { b } c\n",
	"a { }\nb\n",
	"a {\n} b {\n}\n",
	"import s {\n x\n}\n(s) {\n y\n}\n",
}

// ---------------------------------------------------------------- tests

func TestVerifC20Parse(t *testing.T) {
	out := vh.Open("c20parse")
	defer out.Close()
	rn := c20NewRunner(t)
	// read the run parameters before the cases start replacing the process environment
	seed, n := vh.Seed(), vh.N(3000)
	savedEnv := os.Environ()
	defer func() {
		os.Clearenv()
		for _, e := range savedEnv {
			kv := strings.SplitN(e, "=", 2)
			if len(kv) == 2 {
				os.Setenv(kv[0], kv[1])
			}
		}
	}()

	if rp := vh.Replay(); rp != nil {
		for _, op := range rp {
			cs, kind := c20ParseOp(op)
			if cs != nil && (kind == "parse" || kind == "print") {
				rn.runCase(out, cs, kind == "print", "replay")
			}
			if cs != nil && kind == "charge" {
				rn.runCharge(out, cs, "replay")
			}
		}
		return
	}

	// assumption of C20_output_wellformed (UniBrace) and of the name part of the round trip (UniStd)
	for _, r := range "{}($\"\\" {
		if unicode.IsLetter(r) || unicode.IsDigit(r) {
			out.Violation("C20/assumption-unistd", "C20 parse -", fmt.Sprintf("unicode classifies %q as letter or digit", r))
		}
	}

	// the configuration files shipped with maddy
	for _, fn := range []string{"maddy.conf", "maddy.conf.docker"} {
		b, err := os.ReadFile(filepath.Join("..", "..", fn))
		if err != nil {
			out.Violation("C20/shipped-missing", "C20 shipped "+fn, err.Error())
			continue
		}
		cs := &c20Case{input: b, env: [][2]string{{"MADDY_HOSTNAME", "mx.example.org"}, {"MADDY_DOMAIN", "example.org"}}, files: c20DirEntries()}
		rn.prepare(cs)
		res := rn.read(b)
		if res.err != nil || res.panicked != nil || res.timeout {
			out.Violation("C20/shipped-does-not-parse", "C20 parse "+cs.opArgs(), fmt.Sprint(res.err, res.panicked, res.timeout))
			if res.timeout && !res.unwound {
				rn.giveUp(out)
			}
		}
		rn.runCase(out, cs, true, "shipped")
		if !c20Expressible(res.nodes, cs.env, false) {
			out.Violation("C20/shipped-inexpressible", "C20 parse "+cs.opArgs(), "the shipped file's tree should be covered by the round-trip theorem")
		}
	}

	for _, s := range c20Fixed {
		for _, env := range [][][2]string{nil, {{"H", "example.org"}, {"a$b", "v"}}} {
			rn.runCase(out, &c20Case{input: []byte(s), env: env, files: c20DirEntries()}, true, "fixed")
		}
	}

	for _, cs := range c20ExpoFixed() {
		rn.runCase(out, cs, false, "expo/fixed")
		rn.runCharge(out, cs, "expo/fixed")
	}
	for _, cs := range c20NestedFixed() {
		rn.runCase(out, cs, false, "expo-nested/fixed")
		rn.runCharge(out, cs, "expo-nested/fixed")
	}
	for _, s := range c20Fixed {
		rn.runCharge(out, &c20Case{input: []byte(s), files: c20DirEntries()}, "fixed")
	}
	for _, cs := range c20ImportsFixed() {
		rn.runCase(out, cs, false, "imports/fixed")
	}
	for _, s := range c20EnvNestFixed {
		for _, env := range [][][2]string{nil, {{"H", "example.org"}}, {{"H", ""}, {"U2", "{env:"}}, {{"HOME", "/root"}, {"H", "{env:UNSET}"}}} {
			rn.runCase(out, &c20Case{input: []byte(s), env: env, files: c20DirEntries()}, true, "env-nest/fixed")
		}
	}

	for i := 0; i < n; i++ {
		r := vh.NewRng(seed*7919 + uint64(i))
		if i%600 == 11 {
			cs, tag := c20GenExpo(r)
			rn.runCase(out, cs, false, tag)
			rn.runCharge(out, cs, tag)
			continue
		}
		if i%600 == 311 {
			cs, tag := c20GenNestedExpo(r)
			rn.runCase(out, cs, false, tag)
			rn.runCharge(out, cs, tag)
			continue
		}
		if i%120 == 13 {
			cs, tag := c20GenSameLine(r)
			rn.runCase(out, cs, i%12 == 1, tag)
			continue
		}
		if i%20 == 3 {
			cs, tag := c20GenOddRefs(r)
			rn.runCase(out, cs, i%3 == 0, tag)
			continue
		}
		if i%20 == 9 {
			cs, tag := c20GenEmbedded(r)
			if !c20PlainRefs(cs) {
				out.Violation("C20/harness-self-check", "C20 parse "+cs.opArgs(), "embedded-ref generator produced a case the residual-reference rule does not apply to")
			}
			rn.runCase(out, cs, i%3 == 0, tag)
			continue
		}
		if i%4000 == 1057 {
			L := 250 + r.Intn(13)
			rn.runCase(out, c20LongChain(L, r.Intn(4)&^1), false, "imports/long-chain")
			continue
		}
		if i%200 == 57 {
			cs, tag := c20GenImports(r, out)
			rn.runCase(out, cs, i%3 == 0, tag)
			continue
		}
		if i%20 == 17 {
			cs, tag := c20GenEnvNest(r, out)
			rn.runCase(out, cs, i%3 == 0, tag)
			continue
		}
		if i%8 == 7 {
			cs := &c20Case{files: c20DirEntries()}
			for _, k := range vcfg.EnvKeys {
				if r.Chance(40) {
					cs.env = append(cs.env, [2]string{k, c20EnvVals[r.Intn(len(c20EnvVals))]})
				}
			}
			rn.runTree(out, cs, c20GenTree(r, 0))
			continue
		}
		cs, tag := c20GenCase(r)
		rn.runCase(out, cs, i%3 == 0, tag)
		if i%40 == 1 {
			rn.runCharge(out, cs, tag)
		}
	}
}
