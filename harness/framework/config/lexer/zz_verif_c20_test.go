package lexer

import (
	"bufio"
	"bytes"
	"fmt"
	"io"
	"strconv"
	"strings"
	"testing"
	"unicode"

	"github.com/foxcpp/maddy/internal/verifshim/vcfg"
	"github.com/foxcpp/maddy/internal/verifshim/vh"
)

func c20HexInts(rs []rune) string {
	if len(rs) == 0 {
		return "-"
	}
	parts := make([]string, len(rs))
	for i, r := range rs {
		parts[i] = strconv.FormatInt(int64(r), 16)
	}
	return strings.Join(parts, ".")
}

func c20ShowTokens(ts []Token) string {
	if len(ts) == 0 {
		return "-"
	}
	parts := make([]string, len(ts))
	for i, t := range ts {
		parts[i] = fmt.Sprintf("%d:%s", t.Line, vh.HexRunes(t.Text))
	}
	return strings.Join(parts, " ")
}

// quotable: the token text survives `"` + escape(`"`->`\"`) + `"` (independent statement of the
// lexer's escape rule: a backslash run of odd length must not be followed by a quote or the end).
func c20Quotable(s string) bool {
	odd := false
	for _, ch := range s {
		switch ch {
		case '\\':
			odd = !odd
		case '"':
			if odd {
				return false
			}
		default:
			odd = false
		}
	}
	return !odd
}

func c20Quote(s string) string {
	return `"` + strings.ReplaceAll(s, `"`, `\"`) + `"`
}

func c20LexSafe(b []byte) (ts []Token, panicked interface{}) {
	defer func() {
		if p := recover(); p != nil {
			panicked = p
		}
	}()
	ts, _ = allTokens(bytes.NewReader(b))
	return
}

func c20LexCase(out *vh.Out, in []byte) {
	op := "C20 lex " + vh.HexBytes(in)
	ts, p := c20LexSafe(in)
	if p != nil {
		out.Violation("C20/lexer-panic", op, fmt.Sprint(p))
		out.Corr(op, "panic")
		return
	}
	out.Corr(op, c20ShowTokens(ts))
	out.Stat(fmt.Sprintf("lex.tokens=%s", vh_bucket(len(ts))))
	// T3: lex(print(tokens)) = tokens for quotable tokens, lines as laid out by the printer
	allQ := true
	for _, t := range ts {
		if !c20Quotable(t.Text) {
			allQ = false
		}
	}
	if !allQ {
		out.Stat("lex.roundtrip=skipped-unquotable")
		return
	}
	var b strings.Builder
	wantLines := make([]int, len(ts))
	line := 1
	for i, t := range ts {
		wantLines[i] = line
		b.WriteString(c20Quote(t.Text))
		line += strings.Count(t.Text, "\n")
		if i%3 == 2 {
			b.WriteString("\n")
			line++
		} else {
			b.WriteString(" ")
		}
	}
	ts2, p := c20LexSafe([]byte(b.String()))
	bad := p != nil || len(ts2) != len(ts)
	if !bad {
		for i := range ts {
			if ts2[i].Text != ts[i].Text || ts2[i].Line != wantLines[i] {
				bad = true
			}
		}
	}
	if bad {
		out.Violation("C20/lex-print-roundtrip", op, "printed "+vh.HexBytes([]byte(b.String()))+" relexed "+c20ShowTokens(ts2))
	}
	out.Stat("lex.roundtrip=checked")
}

func vh_bucket(n int) string {
	switch {
	case n == 0:
		return "0"
	case n <= 3:
		return "1-3"
	case n <= 10:
		return "4-10"
	case n <= 50:
		return "11-50"
	default:
		return ">50"
	}
}

func TestVerifC20Lex(t *testing.T) {
	out := vh.Open("c20lex")
	defer out.Close()
	if rp := vh.Replay(); rp != nil {
		for _, op := range rp {
			f := strings.Fields(op)
			if len(f) >= 3 && f[0] == "C20" && f[1] == "lex" {
				c20LexCase(out, vh.UnhexBytes(f[2]))
			}
			if len(f) >= 3 && f[0] == "C20" && f[1] == "decode" {
				c20Decode(out, vh.UnhexBytes(f[2]))
			}
		}
		return
	}
	// unicode.IsSpace, exhaustively
	var sp []rune
	for r := rune(0); r <= unicode.MaxRune; r++ {
		if r >= 0xD800 && r <= 0xDFFF {
			continue
		}
		if unicode.IsSpace(r) {
			sp = append(sp, r)
		}
	}
	out.Corr("C20 spaces", c20HexInts(sp))

	fixed := []string{"", "a", "\"", "\"\"", "\"a", "a\"b", "\"a\\\"b\"", "\"a\\\\\"", "\"\\", "a#b c", "#x\ny", "a\r\nb", "\ufeffa", "a\ufeffb",
		"\"multi\nline\" x\ny", "a\\\nb", "{}", "a{ }b", "\xff\xfe", "a\u00a0b", "a\u2028b", "\"\r\"", "x \"y\"z", "\"\"\"\""}
	for _, s := range fixed {
		c20LexCase(out, []byte(s))
		c20Decode(out, []byte(s))
	}
	n := vh.N(3000)
	for i := 0; i < n; i++ {
		r := vh.NewRng(vh.Seed()*1000003 + uint64(i))
		g := &vcfg.Gen{R: r, CRLF: r.Chance(10)}
		var s string
		switch x := r.Intn(10); {
		case x < 5:
			s = g.Mutate(g.Config(), r.Intn(5))
		case x < 8:
			s = g.Raw()
		default:
			s = g.Config()
		}
		c20LexCase(out, []byte(s))
		if i%4 == 0 {
			c20Decode(out, []byte(g.Mutate(g.Raw(), 2)))
		}
	}
}

// bufio.Reader.ReadRune, as used by the lexer
func c20Decode(out *vh.Out, in []byte) {
	rd := bufio.NewReader(bytes.NewReader(in))
	var rs []rune
	for {
		r, _, err := rd.ReadRune()
		if err == io.EOF {
			break
		}
		rs = append(rs, r)
	}
	out.Corr("C20 decode "+vh.HexBytes(in), c20HexInts(rs))
	out.Stat("decode.cases")
}
