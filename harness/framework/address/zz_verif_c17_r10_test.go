package address

// Round 10: the answer to a call must not depend on WHEN it is asked.
//
//   - histories (`C17 hist <call> ; <call> ; …`): one caller makes several calls one after the other about names
//     the process has never looked up before (fresh domains of every class: valid, undecodable A-label, disallowed
//     code points, over-long, empty label, literal), the same calls again later in another order, with calls about
//     another fresh name in between. Monitor: the same call gets the same answer at every point of the history
//     (C17/result-depends-on-history), Equal(a,b) / Equal(b,a) asked at different points agree
//     (C17/equal-not-symmetric-in-history), Equal agrees with the keys ForLookup hands out at any other point of the
//     history (C17/equal-vs-key-in-history; dns.Equal: C17/dns-equal-vs-key-in-history).
//   - concurrent callers (`C17 par <goroutines> <rounds> <call> ; …`): the calls are answered once by a single
//     caller, then by several goroutines at the same time (each goroutine walks the list from another starting
//     point, <rounds> times). Monitor: every concurrent answer is the answer the single caller got
//     (C17/concurrent-result-differs), no concurrent call panics (C17/concurrent-panic).
//
// The model answers both ops call by call with `run` (runHist: C17_hist_answer, C17_par_answer).

import (
	"fmt"
	"strings"
	"sync"

	"github.com/foxcpp/maddy/framework/dns"
	"github.com/foxcpp/maddy/internal/verifshim/vh"
	"golang.org/x/net/idna"
	"golang.org/x/text/unicode/norm"
)

type c17C struct {
	fn   string
	args []string
}

func (c c17C) spell() string { return strings.TrimPrefix(c17Call(c.fn, c.args...), "C17 ") }

func (c c17C) goSpell() string {
	qs := make([]string, len(c.args))
	for i, a := range c.args {
		qs[i] = fmt.Sprintf("%q", a)
	}
	return c17GoName[c.fn] + "(" + strings.Join(qs, ", ") + ")"
}

func c17SpellCalls(cs []c17C) string {
	ss := make([]string, len(cs))
	for i, c := range cs {
		ss[i] = c.spell()
	}
	return strings.Join(ss, " ; ")
}

func c17AllArgs(cs []c17C) []string {
	seen := map[string]bool{}
	var all []string
	for _, c := range cs {
		for _, a := range c.args {
			if !seen[a] {
				seen[a] = true
				all = append(all, a)
			}
		}
	}
	return all
}

// c17ParseCalls: the calls of a hist / par op line (code-point spelling only)
func c17ParseCalls(toks []string) []c17C {
	var cs []c17C
	cur := []string{}
	flush := func() {
		if len(cur) >= 2 {
			c := c17C{fn: cur[0]}
			for _, t := range cur[1:] {
				c.args = append(c.args, vh.UnhexRunes(t))
			}
			cs = append(cs, c)
		}
		cur = []string{}
	}
	for _, t := range toks {
		if t == ";" {
			flush()
		} else {
			cur = append(cur, t)
		}
	}
	flush()
	return cs
}

// ---- fresh names ----

var c17FreshN int

// c17FreshDomain: a domain no call of this process has seen yet (a counter is part of one label), of a class
// chosen by what the normalisation makes of it
func c17FreshDomain(out *vh.Out, r *vh.Rng) string {
	c17FreshN++
	k := fmt.Sprintf("%d", c17FreshN*10+r.Intn(10))
	var d string
	cl := r.Intn(10)
	switch cl {
	case 0, 1, 2, 3: // A-labels that do not decode
		d = r.Pick("xn--99999999999"+k, "xn--99999999999"+k+".x", "xn--99999999999"+k+".example.org", "mail.xn--9999999999"+k+".example.org",
			"xn--zz"+k+"--.example", "xn--mnchen-3ya"+k+"ü.de", "ok.xn--9999999999"+k, "xn--a"+k+".xn--b", "xn--"+k+"é", "xn--"+k+"-",
			"XN--99999999999"+k+".org", "Xn--99999999999"+k)
		out.Stat("fresh.class.bad-punycode")
	case 4, 5: // valid
		d = r.Pick("h"+k+".example.org", "mün"+k+"chen.de", "xn--mnchen-3ya.h"+k+".de", "H"+k+".EXAMPLE.org", "ασ"+k+".gr", "straße"+k+".example", "n"+k)
		out.Stat("fresh.class.valid")
	case 6: // code points no host name may contain
		d = r.Pick("exa mple"+k+".org", "bad!"+k+".org", "☃"+k+".net", "a\u0000b"+k, "́a"+k+".org", "A̸"+k+".ORG")
		out.Stat("fresh.class.disallowed")
	case 7:
		d = r.Pick(strings.Repeat("b", 64)+k+".org", "xn--"+strings.Repeat("a", 66)+k, strings.Repeat("é", 40)+k+".de")
		out.Stat("fresh.class.over-long")
	case 8:
		d = r.Pick("a..b"+k, ".a"+k, "a"+k+"...", "xn--.o"+k, "a"+k+"..xn--99999999999")
		out.Stat("fresh.class.empty-label")
	default:
		d = r.Pick("[bad"+k, "[xn--9999"+k+"]", "[192.0.2."+k+"]", "[IPv6:2001:db8::"+k+"]")
		out.Stat("fresh.class.literal")
	}
	// what the LIBRARY makes of it (the code under test is not asked: the name has to stay fresh)
	if _, err := idna.ToUnicode(asciiLowerStr(d)); err != nil {
		out.Stat("fresh.idna.err")
	} else {
		out.Stat("fresh.idna.ok")
	}
	return d
}

// another spelling of the same fresh name
func c17FreshRespell(r *vh.Rng, d string) string {
	switch r.Intn(10) {
	case 0:
		return asciiUpper(d)
	case 1:
		return asciiRandCase(r, d)
	case 2:
		return strings.ToUpper(d)
	case 3:
		return norm.NFD.String(d)
	case 4:
		return d + "."
	default:
		return d
	}
}

// ---- histories ----

// c17HistCase: two addresses (a local-part row x a fresh domain and a respelling of it), a script of calls about
// them, the same calls again (same order / reversed / shuffled), now and then calls about another fresh name in
// between
func c17HistCase(out *vh.Out, r *vh.Rng) {
	row := c17LocalRows[r.Intn(len(c17LocalRows))]
	m1, m2 := row[r.Intn(len(row))], row[r.Intn(len(row))]
	switch r.Intn(6) {
	case 0:
		m2 = m1
	case 1:
		m2 = r.Pick(norm.NFD.String(m1), norm.NFC.String(m1), strings.ToUpper(m1), strings.ToLower(m1))
	case 2:
		pre, suf := r.Pick("", "x", "a."), r.Pick("", "y", "+tag")
		m1, m2 = pre+m1+suf, pre+m2+suf
	}
	if norm.NFC.String(m1) != m1 || norm.NFC.String(m2) != m2 {
		out.Stat("hist.local.nfc-changes")
	} else {
		out.Stat("hist.local.nfc-keeps")
	}
	d1 := c17FreshDomain(out, r)
	d2 := c17FreshRespell(r, d1)
	a, b := m1+"@"+d1, m2+"@"+d2
	pool := []c17C{
		{"forlookup", []string{a}}, {"forlookup", []string{b}}, {"equal", []string{a, b}}, {"equal", []string{b, a}},
		{"forlookup", []string{a}}, {"forlookup", []string{b}}, {"equal", []string{a, b}}, {"equal", []string{b, a}},
		{"cleandomain", []string{a}}, {"toascii", []string{a}}, {"tounicode", []string{b}}, {"valid", []string{a}},
		{"dnsforlookup", []string{d1}}, {"dnsforlookup", []string{d2}}, {"dnsequal", []string{d1, d2}}, {"dnsequal", []string{d2, d1}},
		{"dnstounicode", []string{d1}}, {"validdomain", []string{d2}},
	}
	// a third address in front of the same name that is NOT the same mailbox (another row)
	if r.Chance(40) {
		orow := c17LocalRows[r.Intn(len(c17LocalRows))]
		c := orow[r.Intn(len(orow))] + "@" + r.Pick(d1, d2)
		pool = append(pool, c17C{"forlookup", []string{c}}, c17C{"equal", []string{a, c}}, c17C{"equal", []string{c, b}}, c17C{"equal", []string{a, c}},
			c17C{"forlookup", []string{c}}, c17C{"cleandomain", []string{c}})
		out.Stat("hist.third-address")
	}
	n := 2 + r.Intn(4)
	var first []c17C
	for i := 0; i < n; i++ {
		first = append(first, pool[r.Intn(len(pool))])
	}
	// a pair of lookups + the comparison is what callers do: make sure it is frequent
	if r.Chance(50) {
		first = append(first, pool[0], pool[1], pool[2+r.Intn(2)])
		for i := len(first) - 1; i > 0; i-- {
			j := r.Intn(i + 1)
			first[i], first[j] = first[j], first[i]
		}
	}
	script := append([]c17C{}, first...)
	if r.Chance(30) { // calls about another fresh name in between (a memo of the last answer would be overwritten)
		o := r.Pick("user", "É", "é") + "@" + c17FreshDomain(out, r)
		script = append(script, c17C{"forlookup", []string{o}}, c17C{"equal", []string{o, a}})
		out.Stat("hist.interposed")
	}
	again := append([]c17C{}, first...)
	switch r.Intn(3) {
	case 0:
		for i, j := 0, len(again)-1; i < j; i, j = i+1, j-1 {
			again[i], again[j] = again[j], again[i]
		}
	case 1:
		for i := len(again) - 1; i > 0; i-- {
			j := r.Intn(i + 1)
			again[i], again[j] = again[j], again[i]
		}
	}
	script = append(script, again...)
	out.Stat("hist.first." + first[0].fn)
	out.Stat(fmt.Sprintf("hist.len.%d", len(script)))
	c17HistRun(out, script)
}

func c17ResKey(obs string) (string, bool) {
	if strings.HasPrefix(obs, "ok ") {
		return obs[3:], true
	}
	if strings.HasPrefix(obs, "err ") {
		return obs[4:], true
	}
	return "", false
}

// c17HistRun: the script on the real code, one call after the other; correspondence op + the monitors
func c17HistRun(out *vh.Out, script []c17C) {
	if len(script) == 0 {
		return
	}
	op := "C17 hist " + c17SpellCalls(script)
	obs := make([]string, len(script))
	for i, c := range script {
		obs[i], _, _ = c17Observe(c.fn, c.args)
	}
	out.Corr(op+c17Table(c17AllArgs(script)...), strings.Join(obs, " ; "))
	out.Stat("op.hist")
	// the same call, the same answer
	firstAt := map[string]int{}
	unstable := false
	for i, c := range script {
		sp := c.spell()
		j, ok := firstAt[sp]
		if !ok {
			firstAt[sp] = i
			continue
		}
		if obs[i] != obs[j] && !unstable {
			unstable = true
			out.Violation("C17/result-depends-on-history", op,
				fmt.Sprintf("%s: call %d of the history answers %s, call %d answers %s", c.goSpell(), j+1, c17ShowObs(obs[j]), i+1, c17ShowObs(obs[i])))
		}
	}
	if unstable {
		out.Stat("hist.unstable")
	}
	// Equal at one point of the history vs Equal the other way round / the keys handed out at other points
	reported := map[string]bool{}
	report := func(sig, detail string) {
		if !reported[sig] {
			reported[sig] = true
			out.Violation(sig, op, detail)
		}
	}
	for i, c := range script {
		if obs[i] == "panic" {
			continue
		}
		var keyFn, symSig, keySig string
		switch c.fn {
		case "equal":
			keyFn, symSig, keySig = "forlookup", "C17/equal-not-symmetric-in-history", "C17/equal-vs-key-in-history"
		case "dnsequal":
			keyFn, symSig, keySig = "dnsforlookup", "C17/dns-equal-not-symmetric-in-history", "C17/dns-equal-vs-key-in-history"
		default:
			continue
		}
		x, y := c.args[0], c.args[1]
		for j, o := range script {
			if o.fn == c.fn && o.args[0] == y && o.args[1] == x && obs[j] != "panic" && obs[j] != obs[i] {
				report(symSig, fmt.Sprintf("%s = %s (call %d), %s = %s (call %d)", c.goSpell(), obs[i], i+1, o.goSpell(), obs[j], j+1))
			}
		}
		for j, o := range script {
			if o.fn != keyFn || o.args[0] != x {
				continue
			}
			kx, ok := c17ResKey(obs[j])
			if !ok {
				continue
			}
			for k, p := range script {
				if p.fn != keyFn || p.args[0] != y {
					continue
				}
				ky, ok := c17ResKey(obs[k])
				if !ok {
					continue
				}
				if (obs[i] == "1") != (kx == ky) {
					report(keySig, fmt.Sprintf("%s = %s (call %d), keys %q (call %d) and %q (call %d)", c.goSpell(), obs[i], i+1,
						vh.UnhexRunes(kx), j+1, vh.UnhexRunes(ky), k+1))
				}
			}
		}
	}
}

// readable form of an observation that carries a hex string
func c17ShowObs(obs string) string {
	if k, ok := c17ResKey(obs); ok {
		return fmt.Sprintf("%s %q", obs[:strings.Index(obs, " ")], vh.UnhexRunes(k))
	}
	return obs
}

// ---- concurrent callers ----

// c17ObserveRaw: one call of the real function, no reporting (safe to use from several goroutines); a panic is
// returned as the observation "panic" + its text
func c17ObserveRaw(c c17C) (obs string, panicText string) {
	defer func() {
		if p := recover(); p != nil {
			obs, panicText = "panic", fmt.Sprint(p)
		}
	}()
	s := c.args[0]
	t := c.args[len(c.args)-1]
	switch c.fn {
	case "split":
		m, d, err := Split(s)
		if err != nil {
			return "err", ""
		}
		return "ok " + vh.HexRunes(m) + " " + vh.HexRunes(d), ""
	case "unquote":
		r, err := UnquoteMbox(s)
		if err != nil {
			return "err", ""
		}
		return "ok " + vh.HexRunes(r), ""
	case "quote":
		return vh.HexRunes(QuoteMbox(s)), ""
	case "isascii":
		return b01(IsASCII(s)), ""
	case "validmbox":
		return b01(ValidMailboxName(s)), ""
	case "toascii":
		return res(ToASCII(s)), ""
	case "tounicode":
		return res(ToUnicode(s)), ""
	case "forlookup":
		return res(ForLookup(s)), ""
	case "cleandomain":
		return res(CleanDomain(s)), ""
	case "dnsforlookup":
		return res(dns.ForLookup(s)), ""
	case "dnstounicode":
		return res(dns.ToUnicode(s)), ""
	case "valid":
		return b01(Valid(s)), ""
	case "validdomain":
		return b01(ValidDomain(s)), ""
	case "equal":
		return b01(Equal(s, t)), ""
	case "dnsequal":
		return b01(dns.Equal(s, t)), ""
	}
	return "unknown-fn", ""
}

// local parts that keep the folding busy for a while: every letter is changed by NFC and / or by lower-casing
func c17BusyLocal(r *vh.Rng) string {
	pieces := []string{"É", "É", "Å", "Å", "Ö", "Σ", "Я", "İ", "q̣̇", "ǅ", "가", "가", "ﬁ", "K", "ǖ",
		"a", "Z", ".", "+", "x"}
	n := 3 + r.Intn(30)
	var sb strings.Builder
	for i := 0; i < n; i++ {
		p := pieces[r.Intn(len(pieces))]
		if p == "." && (i == 0 || i == n-1 || strings.HasSuffix(sb.String(), ".")) {
			p = "o"
		}
		sb.WriteString(p)
	}
	return sb.String()
}

// c17ParCase: a handful of calls on different addresses (variants of valid addresses, key pairs of every domain
// class, busy local parts), answered by one caller and then by several goroutines at once
func c17ParCase(out *vh.Out, r *vh.Rng) {
	defer c17Recover()
	var addrs []string
	for len(addrs) < 6 {
		switch r.Intn(4) {
		case 0:
			a := c17Valid(r)
			vs := c17Variants(out, r, a)
			addrs = append(addrs, vs[0], vs[len(vs)-1])
		case 1:
			a, b := c17KeyPair(out, r)
			if len(a)+len(b) < 200 {
				addrs = append(addrs, a, b)
			}
		default:
			m := c17BusyLocal(r)
			d := r.Pick("example.org", "münchen.de", "XN--MNCHEN-3YA.de", "пример.испытание", "xn--99999999999.example.org", "straße.example", "Bücher.Example.")
			addrs = append(addrs, m+"@"+d, r.Pick(norm.NFD.String(m), strings.ToUpper(m), norm.NFC.String(m), strings.ToLower(m))+"@"+d)
		}
	}
	fns := []string{"forlookup", "forlookup", "forlookup", "equal", "equal", "cleandomain", "toascii", "tounicode", "valid", "dnsforlookup",
		"dnsequal", "dnstounicode", "validdomain", "quote", "unquote", "split", "validmbox", "isascii"}
	var cs []c17C
	for i := 0; i+1 < len(addrs) && len(cs) < 8; i += 2 {
		a, b := addrs[i], addrs[i+1]
		ma, da := c17SplitAt(a)
		_, db := c17SplitAt(b)
		for k := 0; k < 2; k++ {
			fn := fns[r.Intn(len(fns))]
			if k == 0 && r.Chance(60) {
				fn = r.Pick("forlookup", "equal")
			}
			switch fn {
			case "equal":
				cs = append(cs, c17C{fn, []string{a, b}})
			case "dnsequal":
				cs = append(cs, c17C{fn, []string{da, db}})
			case "dnsforlookup", "dnstounicode", "validdomain":
				cs = append(cs, c17C{fn, []string{r.Pick(da, db)}})
			case "quote", "unquote", "validmbox":
				cs = append(cs, c17C{fn, []string{ma}})
			default:
				cs = append(cs, c17C{fn, []string{r.Pick(a, b)}})
			}
		}
	}
	g := 2 + r.Intn(7)
	out.Stat(fmt.Sprintf("par.goroutines.%d", g))
	for _, c := range cs {
		out.Stat("par.fn." + c.fn)
	}
	c17ParRun(out, g, 120, cs, 1)
}

type c17ParDiff struct {
	call           int
	obs, panicText string
}

// c17ParRun: the calls by one caller, then by g goroutines at once (goroutine i starts at call i, walks the list
// `rounds` times); `repeat` > 1 (replay): the concurrent phase is repeated until an answer differs, at most that often
func c17ParRun(out *vh.Out, g, rounds int, cs []c17C, repeat int) {
	if len(cs) == 0 || g < 1 || rounds < 1 {
		return
	}
	if g > 64 {
		g = 64
	}
	op := fmt.Sprintf("C17 par %d %d %s", g, rounds, c17SpellCalls(cs))
	alone := make([]string, len(cs))
	for i, c := range cs {
		alone[i], _, _ = c17Observe(c.fn, c.args) // a panic here is C17/panic with the single call as replay
	}
	// … and once more: what differs between two passes of ONE caller is not a matter of concurrency; the second
	// pass is the reference for the concurrent phase
	for i, c := range cs {
		if o, _ := c17ObserveRaw(c); o != alone[i] {
			out.Violation("C17/result-depends-on-history", op, fmt.Sprintf("%s answers %s the first time and %s the second time (single caller)", c.goSpell(), c17ShowObs(alone[i]), c17ShowObs(o)))
			out.Stat("par.unstable-alone")
			alone[i] = o
		}
	}
	var diffs [][]c17ParDiff
	var counts []int
	total := 0
	for rep := 0; rep < repeat; rep++ {
		diffs = make([][]c17ParDiff, g)
		counts = make([]int, g)
		start := make(chan struct{})
		var wg sync.WaitGroup
		for gi := 0; gi < g; gi++ {
			wg.Add(1)
			go func(gi int) {
				defer wg.Done()
				<-start
				for rd := 0; rd < rounds; rd++ {
					for k := range cs {
						j := (k + gi) % len(cs)
						o, pt := c17ObserveRaw(cs[j])
						if o != alone[j] {
							counts[gi]++
							if len(diffs[gi]) < 4 {
								diffs[gi] = append(diffs[gi], c17ParDiff{j, o, pt})
							}
						}
					}
				}
			}(gi)
		}
		close(start)
		wg.Wait()
		total = 0
		for _, n := range counts {
			total += n
		}
		if total > 0 {
			break
		}
	}
	// afterwards, alone again (a concurrent phase must not leave anything behind either)
	obs := make([]string, len(cs))
	copy(obs, alone)
	for i, c := range cs {
		if o, _ := c17ObserveRaw(c); o != alone[i] {
			obs[i] = "unstable"
			out.Violation("C17/result-depends-on-history", op, fmt.Sprintf("%s answers %s before and %s after the concurrent phase", c.goSpell(), c17ShowObs(alone[i]), c17ShowObs(o)))
		}
	}
	var differs, panics *c17ParDiff
	for gi := range diffs {
		for k := range diffs[gi] {
			d := &diffs[gi][k]
			obs[d.call] = "unstable"
			if d.obs == "panic" {
				if panics == nil {
					panics = d
				}
			} else if differs == nil {
				differs = d
			}
		}
	}
	all := g * rounds * len(cs)
	if differs != nil {
		c := cs[differs.call]
		out.Violation("C17/concurrent-result-differs", op, fmt.Sprintf("%s answers %s to a single caller and %s next to %d other goroutines (%d of %d concurrent answers differ)",
			c.goSpell(), c17ShowObs(alone[differs.call]), c17ShowObs(differs.obs), g-1, total, all))
	}
	if panics != nil {
		c := cs[panics.call]
		out.Violation("C17/concurrent-panic", op, fmt.Sprintf("%s answers %s to a single caller and panics next to %d other goroutines: %s (%d of %d concurrent answers differ)",
			c.goSpell(), c17ShowObs(alone[panics.call]), g-1, panics.panicText, total, all))
	}
	if total > 0 {
		out.Stat("par.differs")
	}
	out.Corr(op+c17Table(c17AllArgs(cs)...), strings.Join(obs, " ; "))
	out.Stat("op.par")
}

// c17Replay10: `C17 hist …` and `C17 par <g> <rounds> …`
func c17Replay10(out *vh.Out, toks []string) {
	defer c17Recover()
	switch toks[1] {
	case "hist":
		c17HistRun(out, c17ParseCalls(toks[2:]))
	case "par":
		if len(toks) < 5 {
			return
		}
		var g, rounds int
		fmt.Sscanf(toks[2], "%d", &g)
		fmt.Sscanf(toks[3], "%d", &rounds)
		c17ParRun(out, g, rounds, c17ParseCalls(toks[4:]), 25)
	}
}
