package address

// Round 11: valid internationalized names whose two forms have very different sizes.
//
// The limits of RFC 1035 (63 octets per label, 253/255 octets per name) are limits of the A-label form. A name
// made of long non-Latin labels fits them as A-labels while its UTF-8 U-label form takes far more octets
// (2..4 octets per letter, the NFD spelling more still). `c17BigIDN` builds such names from eight scripts
// (labels sized by their A-label form: up to 63 octets, names up to 253 octets; U-label forms of ~60..700 octets,
// most of them beyond 255) and the harness' own list of spellings of each (NFD, upper case, A-labels in any letter
// case, per-label mixes, trailing dot). Monitors (independent of the model):
//
//   - every spelling shares the ForLookup / dns.ForLookup key and the cleaned domain of the NFC lower-case
//     U-label spelling AND of the A-label spelling, Equal / dns.Equal hold both ways (c17CheckPair:
//     C17/variant-different-key, -not-equal, -different-dns-key, -dns-not-equal, -different-cleandomain);
//   - the key is the normal form the harness computes itself: NFC + simple lower case of the local part, '@', the
//     NFC lower-case U-label name without root dot (C17/key-not-normal-form, C17/dns-key-not-normal-form);
//   - the functions are idempotent on what they hand out for ANY spelling: ForLookup(ForLookup(v)),
//     dns.ForLookup(dns.ForLookup(d)), CleanDomain(CleanDomain(v)) (C17/forlookup-not-idempotent,
//     C17/dns-forlookup-not-idempotent, C17/cleandomain-not-idempotent), op `C17 idem <address>`;
//   - ToASCII / ToUnicode are inverse to one another on the two canonical spellings (C17/idna-roundtrip).
//
// One or two calls per case also go to the model (ordinary correspondence ops).

import (
	"fmt"
	"strings"

	"github.com/foxcpp/maddy/internal/verifshim/vh"
	"golang.org/x/net/idna"
	"golang.org/x/text/unicode/norm"
)

// letters per script; every script has letters NFD takes apart and / or letters with an upper-case form
var c17BigScripts = [][]string{
	{"п", "р", "и", "в", "е", "т", "й", "ё", "ж", "я", "ї"}, // Cyrillic, 2 octets
	{"α", "β", "γ", "ά", "ή", "ώ", "ϊ", "λ", "ο", "ΐ"},      // Greek, 2 octets (no sigma: its final form is another story)
	{"é", "ü", "ñ", "ö", "å", "ç", "ž", "ő", "ą", "ǖ"},      // Latin with marks, 2 octets
	{"ա", "բ", "գ", "դ", "ե", "զ"},                          // Armenian, 2 octets
	{"한", "국", "어", "메", "일", "가", "힣"},                     // Hangul, 3 octets, NFD: 2..3 jamo each
	{"例", "え", "テ", "ス", "ト", "日", "本", "が", "ぱ"},           // kana / Han, 3 octets
	{"ა", "ბ", "გ", "დ", "ე", "ვ"},                          // Georgian, 3 octets (upper case: Mtavruli)
	{"ก", "ข", "ค", "ง", "จ"},                               // Thai, 3 octets, no case
	{"𐐨", "𐐩", "𐐪", "𐐫"},                                    // Deseret, 4 octets, with upper case
}

var c17BigTLDs = []string{"рф", "org", "ελ", "한국", "中国", "de", "example", "հայ", "укр"}

var c17BigLocals = []string{"user", "postmaster", "rené", "дима", "first.last", "a+tag", "用户", "ünï", "q"}

// one label of the script: `want` letters from a pool of 1..all letters (few distinct letters encode compactly,
// so the label gets long), now and then with an ASCII piece; cut back until its A-label form fits 63 octets
func c17BigLabel(r *vh.Rng, script []string, want int) string {
	pool := 1 + r.Intn(len(script))
	off := r.Intn(len(script))
	ls := []string{}
	if r.Chance(15) {
		ls = append(ls, r.Pick("mail", "mx1", "a", "www-"))
	}
	for i := 0; i < want; i++ {
		ls = append(ls, script[(off+r.Intn(pool))%len(script)])
	}
	if r.Chance(10) {
		ls = append(ls, r.Pick("-1", "2", "x"))
	}
	for len(ls) > 1 {
		l := strings.Join(ls, "")
		if a, err := idna.ToASCII(l); err == nil && len(a) <= 63 && !strings.HasSuffix(l, "-") {
			return l
		}
		ls = ls[:len(ls)-1]
	}
	return strings.Join(ls, "")
}

// a name in NFC lower-case U-label form and its A-label form (within the DNS limits), or ok = false
func c17BigIDN(out *vh.Out, r *vh.Rng) (u, a string, ok bool) {
	nl := 1 + r.Intn(5)
	labels := []string{}
	for i := 0; i < nl; i++ {
		script := c17BigScripts[r.Intn(len(c17BigScripts))]
		want := 1 + r.Intn(62)
		if r.Chance(50) {
			want = 28 + r.Intn(34)
		}
		labels = append(labels, c17BigLabel(r, script, want))
	}
	labels = append(labels, c17BigTLDs[r.Intn(len(c17BigTLDs))])
	for len(labels) >= 2 {
		u = strings.Join(labels, ".")
		var err error
		a, err = idna.ToASCII(u)
		if err != nil {
			out.Stat("bigidn.skip.toascii")
			return "", "", false
		}
		if len(a) <= 253 {
			break
		}
		labels = labels[1:]
	}
	// the harness' own conditions, none of them asks the code under test
	if !norm.NFC.IsNormalString(u) || c17Fold(u) != u || strings.Contains(u, "..") || strings.HasPrefix(u, ".") {
		out.Stat("bigidn.skip.not-canonical")
		return "", "", false
	}
	for _, l := range strings.Split(a, ".") {
		if len(l) > 63 || l == "" {
			out.Stat("bigidn.skip.label")
			return "", "", false
		}
	}
	if back, err := idna.ToUnicode(a); err != nil || back != u {
		out.Stat("bigidn.skip.no-roundtrip")
		return "", "", false
	}
	return u, a, true
}

// the spellings of one name (u: NFC lower-case U-labels, a: A-labels)
func c17BigSpellings(out *vh.Out, r *vh.Rng, u, a string) []string {
	nfd := norm.NFD.String(u)
	cands := []string{
		nfd,
		strings.ToUpper(u),
		a,
		asciiUpper(a),
		asciiRandCase(r, a),
		u + ".",
		nfd + ".",
		strings.ToUpper(nfd),
		norm.NFD.String(strings.ToUpper(u)) + ".",
		a + ".",
		asciiUpper(a) + ".",
		caseVariant(r, u),
	}
	// labels spelled independently
	ul, al := strings.Split(u, "."), strings.Split(a, ".")
	if len(ul) == len(al) {
		for k := 0; k < 2; k++ {
			mix := make([]string, len(ul))
			for i := range ul {
				switch r.Intn(6) {
				case 0:
					mix[i] = ul[i]
				case 1:
					mix[i] = norm.NFD.String(ul[i])
				case 2:
					mix[i] = strings.ToUpper(ul[i])
				case 3:
					mix[i] = al[i]
				case 4:
					mix[i] = asciiUpper(al[i])
				default:
					mix[i] = asciiRandCase(r, al[i])
				}
			}
			cands = append(cands, strings.Join(mix, "."))
		}
	}
	vs := []string{}
	for i, c := range cands {
		// a spelling counts when the harness' own fold (A-labels decoded by the library, per label) gives the name
		fl := []string{}
		for _, l := range strings.Split(c17TrimDot(c), ".") {
			if len(l) >= 4 && strings.EqualFold(l[:4], "xn--") {
				d, err := idna.ToUnicode(asciiLowerStr(l))
				if err != nil {
					d = l
				}
				l = d
			}
			fl = append(fl, c17Fold(l))
		}
		if strings.Join(fl, ".") != u {
			out.Stat(fmt.Sprintf("bigidn.spelling.%d.not-a-variant", i))
			continue
		}
		vs = append(vs, c)
	}
	return vs
}

func c17BigSizeClass(n int) string {
	switch {
	case n <= 63:
		return "<=63"
	case n <= 253:
		return "64..253"
	case n <= 255:
		return "254..255"
	case n <= 256:
		return "256"
	case n <= 512:
		return "257..512"
	default:
		return ">512"
	}
}

// idempotence on what the functions hand out for the spelling v
func c17CheckIdem(out *vh.Out, v string) {
	defer c17Recover()
	op := "C17 idem " + vh.HexRunes(v)
	out.Stat("idem.checked")
	if k1, err := c17xForLookup(v); err == nil {
		k2, err2 := c17xForLookup(k1)
		if k1 != k2 || err2 != nil {
			out.Violation("C17/forlookup-not-idempotent", op, fmt.Sprintf("%q -> %q (%d octets) -> %q %v", v, k1, len(k1), k2, err2))
		}
	}
	if c1, err := c17xCleanDomain(v); err == nil {
		c2, err2 := c17xCleanDomain(c1)
		if c1 != c2 || err2 != nil {
			out.Violation("C17/cleandomain-not-idempotent", op, fmt.Sprintf("%q -> %q -> %q %v", v, c1, c2, err2))
		}
	}
	if _, d := c17SplitAt(v); d != "" {
		if k1, err := c17xDNSForLookup(d); err == nil {
			k2, err2 := c17xDNSForLookup(k1)
			if k1 != k2 || err2 != nil {
				out.Violation("C17/dns-forlookup-not-idempotent", op, fmt.Sprintf("%q -> %q (%d octets) -> %q %v", d, k1, len(k1), k2, err2))
			}
		}
	}
}

// the keys of a spelling are the normal form the harness computes itself
func c17CheckNormalForm(out *vh.Out, v, wantLocal, wantDomain string) {
	defer c17Recover()
	op := "C17 normalform " + vh.HexRunes(v) + " " + vh.HexRunes(wantLocal+"@"+wantDomain)
	out.Stat("normalform.checked")
	if k, err := c17xForLookup(v); err != nil || k != wantLocal+"@"+wantDomain {
		out.Violation("C17/key-not-normal-form", op, fmt.Sprintf("ForLookup(%q) = %q (%d octets), %v; the NFC lower-case U-label form is %q (%d octets)", v, k, len(k), err, wantLocal+"@"+wantDomain, len(wantLocal)+1+len(wantDomain)))
	}
	if _, d := c17SplitAt(v); d != "" {
		if k, err := c17xDNSForLookup(d); err != nil || k != wantDomain {
			out.Violation("C17/dns-key-not-normal-form", op, fmt.Sprintf("dns.ForLookup(%q) = %q (%d octets), %v; the NFC lower-case U-label form is %q (%d octets)", d, k, len(k), err, wantDomain, len(wantDomain)))
		}
	}
}

var c17BigFns = []string{"forlookup", "dnsforlookup", "cleandomain", "equal", "dnsequal", "tounicode", "dnstounicode", "toascii", "validdomain", "valid", "forlookup", "equal"}

func c17BigIDNCase(out *vh.Out, r *vh.Rng, k int) {
	defer c17Recover()
	u, a, ok := c17BigIDN(out, r)
	if !ok {
		return
	}
	out.Stat("bigidn.cases")
	out.Stat("bigidn.u-octets." + c17BigSizeClass(len(u)))
	out.Stat("bigidn.a-octets." + c17BigSizeClass(len(a)))
	out.Stat("bigidn.nfd-octets." + c17BigSizeClass(len(norm.NFD.String(u))))
	m := c17BigLocals[r.Intn(len(c17BigLocals))]
	canon, acanon := m+"@"+u, m+"@"+a
	ds := c17BigSpellings(out, r, u, a)
	vs := []string{}
	for _, d := range ds {
		m2 := m
		if r.Chance(50) {
			m2 = c17Respell(out, r, m)
		}
		vs = append(vs, m2+"@"+d)
	}
	for _, v := range vs {
		c17CheckPair(out, canon, v)
		c17CheckPair(out, acanon, v)
		c17CheckIdem(out, v)
		c17CheckNormalForm(out, v, c17Fold(m), u)
	}
	c17CheckPair(out, canon, acanon)
	c17CheckIdem(out, canon)
	c17CheckIdem(out, acanon)
	c17CheckNormalForm(out, canon, c17Fold(m), u)
	c17CheckNormalForm(out, acanon, c17Fold(m), u)
	c17CheckRoundtrip(out, canon, acanon)
	// model vs code: one call on a spelling, one on a pair; the biggest strings only now and then (the
	// primitive table repeats the string a few dozen times)
	if len(vs) == 0 {
		return
	}
	v := vs[r.Intn(len(vs))]
	w := vs[r.Intn(len(vs))]
	if len(v)+len(w) > 700 && !r.Chance(30) {
		out.Stat("bigidn.op.skipped-size")
		return
	}
	_, dv := c17SplitAt(v)
	_, dw := c17SplitAt(w)
	fn := c17BigFns[k%len(c17BigFns)]
	switch fn {
	case "dnsforlookup", "dnstounicode", "validdomain":
		c17Op(out, fn, dv)
	case "dnsequal":
		c17Op(out, fn, dv, dw)
	case "equal":
		c17Op(out, fn, v, w)
	default:
		c17Op(out, fn, v)
	}
	out.Stat("bigidn.op." + fn)
}

// the two conversions are inverse to one another on the canonical spellings (ASCII local part)
func c17CheckRoundtrip(out *vh.Out, canon, acanon string) {
	defer c17Recover()
	if m, _ := c17SplitAt(acanon); !c17xIsASCII(m) {
		return
	}
	out.Stat("roundtrip.checked")
	op := "C17 roundtrip " + vh.HexRunes(canon) + " " + vh.HexRunes(acanon)
	as, err := c17xToASCII(canon)
	if err != nil || as != acanon {
		out.Violation("C17/idna-roundtrip", op, fmt.Sprintf("ToASCII(%q) = %q %v, the A-label form is %q", canon, as, err, acanon))
	}
	us, err := c17xToUnicode(acanon)
	if err != nil || us != canon {
		out.Violation("C17/idna-roundtrip", op, fmt.Sprintf("ToUnicode(%q) = %q %v, the U-label form is %q", acanon, us, err, canon))
	}
}

func c17Replay11(out *vh.Out, toks []string) {
	switch toks[1] {
	case "idem":
		c17CheckIdem(out, vh.UnhexRunes(toks[2]))
	case "roundtrip":
		c17CheckRoundtrip(out, vh.UnhexRunes(toks[2]), vh.UnhexRunes(toks[3]))
	case "normalform":
		v, want := vh.UnhexRunes(toks[2]), vh.UnhexRunes(toks[3])
		i := strings.LastIndex(want, "@")
		c17CheckNormalForm(out, v, want[:i], want[i+1:])
	}
}
