package address

// Round 9: crash-freedom as a monitored outcome of EVERY call, and size extremes as inputs of every function.
//
//   - every call of a function under test anywhere in the C17 harness (correspondence ops, monitors, generators
//     that ask the code something, the crash stream) goes through a c17x… wrapper: a panic is the violation
//     C17/panic with the call as a replayable op line (`C17 <fn> <code points>` / `C17 b <fn> <hex bytes>`), the
//     monitor section that made the call is abandoned (c17Abort) and the run continues;
//   - the primitives of the table (x/text, x/net/idna) run under recover too (C17/panic-in-primitive);
//   - c17LongCase: labels of 62..300 octets with and without the ACE prefix in every letter case, over-long
//     names, many labels, over-long local parts, through every function.

import (
	"fmt"
	"strings"

	"github.com/foxcpp/maddy/framework/dns"
	"github.com/foxcpp/maddy/internal/verifshim/vh"
	"golang.org/x/net/idna"
	"golang.org/x/text/unicode/norm"
)

// c17Abort is what a wrapper panics with after it has reported a panic of the function under test: the
// enclosing monitor section (defer c17Recover()) ends quietly, nothing is concluded from a call that crashed
type c17Abort struct{}

var c17Out *vh.Out

var c17PanicSeen = map[string]bool{}

func c17Recover() {
	if p := recover(); p != nil {
		if _, ok := p.(c17Abort); !ok {
			panic(p) // not from a function under test: a bug of the harness itself, fail loudly
		}
	}
}

// c17Guard runs one call of a function under test
func c17Guard(fn string, f func(), args ...string) {
	defer func() {
		if p := recover(); p != nil {
			if _, ok := p.(c17Abort); ok {
				panic(p)
			}
			op := c17Call(fn, args...)
			if !c17PanicSeen[op] {
				c17PanicSeen[op] = true
				qs := make([]string, len(args))
				for i, a := range args {
					qs[i] = fmt.Sprintf("%q", a)
				}
				c17Out.Violation("C17/panic", op, fmt.Sprintf("%s(%s) panics: %v", c17GoName[fn], strings.Join(qs, ", "), p))
			}
			c17Out.Stat("panic." + fn)
			panic(c17Abort{})
		}
	}()
	f()
}

var c17GoName = map[string]string{
	"split": "address.Split", "unquote": "address.UnquoteMbox", "quote": "address.QuoteMbox", "isascii": "address.IsASCII",
	"toascii": "address.ToASCII", "tounicode": "address.ToUnicode", "forlookup": "address.ForLookup", "cleandomain": "address.CleanDomain",
	"valid": "address.Valid", "validmbox": "address.ValidMailboxName", "validdomain": "address.ValidDomain", "equal": "address.Equal",
	"dnsforlookup": "dns.ForLookup", "dnstounicode": "dns.ToUnicode", "dnsequal": "dns.Equal",
	"precisfold": "address.PRECISFold", "precis": "address.PRECIS", "fqdndomain": "address.FQDNDomain",
	"selectidna0": "address.SelectIDNA(false)", "selectidna1": "address.SelectIDNA(true)",
	"dnsselectidna0": "dns.SelectIDNA(false)", "dnsselectidna1": "dns.SelectIDNA(true)", "dnsfqdn": "dns.FQDN",
}

func c17xForLookup(s string) (r string, err error) {
	c17Guard("forlookup", func() { r, err = ForLookup(s) }, s)
	return
}

func c17xCleanDomain(s string) (r string, err error) {
	c17Guard("cleandomain", func() { r, err = CleanDomain(s) }, s)
	return
}

func c17xEqual(s, t string) (r bool) {
	c17Guard("equal", func() { r = Equal(s, t) }, s, t)
	return
}

func c17xIsASCII(s string) (r bool) {
	c17Guard("isascii", func() { r = IsASCII(s) }, s)
	return
}

func c17xToASCII(s string) (r string, err error) {
	c17Guard("toascii", func() { r, err = ToASCII(s) }, s)
	return
}

func c17xToUnicode(s string) (r string, err error) {
	c17Guard("tounicode", func() { r, err = ToUnicode(s) }, s)
	return
}

func c17xSplit(s string) (m, d string, err error) {
	c17Guard("split", func() { m, d, err = Split(s) }, s)
	return
}

func c17xQuoteMbox(s string) (r string) {
	c17Guard("quote", func() { r = QuoteMbox(s) }, s)
	return
}

func c17xUnquoteMbox(s string) (r string, err error) {
	c17Guard("unquote", func() { r, err = UnquoteMbox(s) }, s)
	return
}

func c17xValid(s string) (r bool) {
	c17Guard("valid", func() { r = Valid(s) }, s)
	return
}

func c17xValidMailboxName(s string) (r bool) {
	c17Guard("validmbox", func() { r = ValidMailboxName(s) }, s)
	return
}

func c17xValidDomain(s string) (r bool) {
	c17Guard("validdomain", func() { r = ValidDomain(s) }, s)
	return
}

func c17xPRECISFold(s string) (r string, err error) {
	c17Guard("precisfold", func() { r, err = PRECISFold(s) }, s)
	return
}

func c17xDNSForLookup(s string) (r string, err error) {
	c17Guard("dnsforlookup", func() { r, err = dns.ForLookup(s) }, s)
	return
}

func c17xDNSToUnicode(s string) (r string, err error) {
	c17Guard("dnstounicode", func() { r, err = dns.ToUnicode(s) }, s)
	return
}

func c17xDNSEqual(s, t string) (r bool) {
	c17Guard("dnsequal", func() { r = dns.Equal(s, t) }, s, t)
	return
}

// functions of one argument: the modelled ones (correspondence ops) and those that only have to return
var c17ModelFns1 = []string{"split", "unquote", "quote", "isascii", "validmbox", "toascii", "tounicode", "forlookup", "cleandomain",
	"valid", "dnsforlookup", "dnstounicode", "validdomain"}

var c17CrashFns1 = []string{"precisfold", "precis", "fqdndomain", "selectidna0", "selectidna1", "dnsselectidna0", "dnsselectidna1", "dnsfqdn"}

// c17Invoke: one guarded call, result dropped
func c17Invoke(fn string, args []string) {
	if len(args) == 0 {
		return
	}
	s := args[0]
	switch fn {
	case "split":
		c17xSplit(s)
	case "unquote":
		c17xUnquoteMbox(s)
	case "quote":
		c17xQuoteMbox(s)
	case "isascii":
		c17xIsASCII(s)
	case "validmbox":
		c17xValidMailboxName(s)
	case "toascii":
		c17xToASCII(s)
	case "tounicode":
		c17xToUnicode(s)
	case "forlookup":
		c17xForLookup(s)
	case "cleandomain":
		c17xCleanDomain(s)
	case "valid":
		c17xValid(s)
	case "dnsforlookup":
		c17xDNSForLookup(s)
	case "dnstounicode":
		c17xDNSToUnicode(s)
	case "validdomain":
		c17xValidDomain(s)
	case "equal":
		c17xEqual(s, args[len(args)-1])
	case "dnsequal":
		c17xDNSEqual(s, args[len(args)-1])
	case "precisfold":
		c17xPRECISFold(s)
	case "precis":
		c17Guard(fn, func() { PRECIS(s) }, s)
	case "fqdndomain":
		c17Guard(fn, func() { FQDNDomain(s) }, s)
	case "selectidna0":
		c17Guard(fn, func() { SelectIDNA(false, s) }, s)
	case "selectidna1":
		c17Guard(fn, func() { SelectIDNA(true, s) }, s)
	case "dnsselectidna0":
		c17Guard(fn, func() { dns.SelectIDNA(false, s) }, s)
	case "dnsselectidna1":
		c17Guard(fn, func() { dns.SelectIDNA(true, s) }, s)
	case "dnsfqdn":
		c17Guard(fn, func() { dns.FQDN(s) }, s)
	}
}

func c17CrashOnly(fn string, args []string) { c17Invoke(fn, args) }

func c17Quiet(fn string, args ...string) {
	defer c17Recover()
	c17Invoke(fn, args)
}

// c17NoCrash: every function on s (the two-argument ones on s, t and t, s); each call on its own, a panic of
// one does not keep the others from being tried
func c17NoCrash(out *vh.Out, s, t string) {
	for _, fn := range c17ModelFns1 {
		c17Quiet(fn, s)
	}
	for _, fn := range c17CrashFns1 {
		c17Quiet(fn, s)
	}
	c17Quiet("equal", s, t)
	c17Quiet("dnsequal", s, t)
	c17Quiet("equal", t, s)
	c17Quiet("dnsequal", t, s)
	out.Stat("nocrash")
}

// c17Prims: the four library primitives on one string, under recover
func c17Prims(s string) (n, l, u string, uerr error, a string, aerr error, ok bool) {
	defer func() {
		if p := recover(); p != nil {
			op := "C17 prim x " + vh.HexRunes(s)
			if !c17PanicSeen[op] {
				c17PanicSeen[op] = true
				c17Out.Violation("C17/panic-in-primitive", op, fmt.Sprintf("NFC / ToLower / idna on %q panics: %v", s, p))
			}
			ok = false
		}
	}()
	n = norm.NFC.String(s)
	l = strings.ToLower(s)
	u, uerr = idna.ToUnicode(s)
	a, aerr = idna.ToASCII(s)
	return n, l, u, uerr, a, aerr, true
}

// ---- size extremes ----

// label lengths in octets: around the limit of a label (63), around a power of two, far beyond, around the
// limit of a name (255)
var c17LongLens = []int{62, 63, 63, 64, 64, 65, 65, 66, 70, 100, 100, 127, 128, 129, 200, 255, 256, 300}

// the ACE prefix in every letter case; near misses that are no ACE prefix
var c17ACEPrefixes = []string{"xn--", "XN--", "Xn--", "xN--"}

var c17NearPrefixes = []string{"", "", "", "xn-", "x", "yn--", "xn-a", "-xn-", "n--x", "xn‐-"}

// c17LongLabel: a label of exactly n octets that starts with prefix
func c17LongLabel(out *vh.Out, r *vh.Rng, n int, prefix string) string {
	var b strings.Builder
	b.WriteString(prefix)
	fill := func(alpha string) {
		for b.Len() < n {
			b.WriteByte(alpha[r.Intn(len(alpha))])
		}
	}
	switch k := r.Intn(9); k {
	case 0, 1:
		fill("a")
		out.Stat("long.body.one-letter")
	case 2:
		fill("abcdefghijklmnopqrstuvwxyz0123456789")
		out.Stat("long.body.letters-digits")
	case 3:
		fill("abcxyzABCXYZ09")
		out.Stat("long.body.mixed-case")
	case 4:
		fill("9") // punycode overflow behind an ACE prefix
		out.Stat("long.body.digits")
	case 5:
		// a decodable A-label body at the end: basic code points, delimiter, deltas
		tail := r.Pick("mnchen-3ya", "bcher-kva", "e1afmkfd", "MNCHEN-3YA", "strae-oqa")
		for b.Len()+len(tail) < n {
			b.WriteByte('a')
		}
		b.WriteString(tail)
		out.Stat("long.body.punycode-tail")
	case 6:
		// non-ASCII: two-octet letters (n octets are n/2 characters), one ASCII letter to make the count exact
		for b.Len()+2 <= n {
			b.WriteString(r.Pick("é", "ü", "É", "я"))
		}
		fill("a")
		out.Stat("long.body.non-ascii")
	case 7:
		for b.Len() < n-1 {
			b.WriteString(r.Pick("a", "-", "a-", "--", "_"))
		}
		fill("a")
		out.Stat("long.body.hyphens")
	default:
		fill("aA")
		out.Stat("long.body.two-case")
	}
	return b.String()
}

// c17LongName: short labels joined to a name of (about) n octets, optionally with ACE labels among them
func c17LongName(r *vh.Rng, n int, ace bool) string {
	var ls []string
	total := 0
	for total < n {
		l := r.Pick("a", "ab", "example", "mail", "x1", "münchen")
		if ace && r.Chance(20) {
			l = c17ACEPrefixes[r.Intn(len(c17ACEPrefixes))] + r.Pick("mnchen-3ya", "MNCHEN-3YA", "a", "99999999999", "e1afmkfd", "")
		}
		if total+len(l)+1 > n {
			l = strings.Repeat("a", n-total)
			if l == "" {
				break
			}
		}
		ls = append(ls, l)
		total += len(l) + 1
	}
	return strings.Join(ls, ".")
}

// c17LongDomain: a domain with (at least) one size extreme
func c17LongDomain(out *vh.Out, r *vh.Rng) string {
	n := c17LongLens[r.Intn(len(c17LongLens))]
	label := func() string {
		if r.Chance(60) {
			p := c17ACEPrefixes[r.Intn(len(c17ACEPrefixes))]
			out.Stat("long.label.ace." + p)
			out.Stat(fmt.Sprintf("long.label.octets.%d", n))
			return c17LongLabel(out, r, n, p)
		}
		out.Stat("long.label.plain")
		out.Stat(fmt.Sprintf("long.label.octets.%d", n))
		return c17LongLabel(out, r, n, c17NearPrefixes[r.Intn(len(c17NearPrefixes))])
	}
	var d string
	switch k := r.Intn(20); {
	case k < 5:
		d = label()
		out.Stat("long.shape.alone")
	case k < 8:
		d = label() + "." + r.Pick("org", "example.org", "xn--p1ai", "XN--P1AI")
		out.Stat("long.shape.first")
	case k < 10:
		d = r.Pick("mail", "a", "xn--mnchen-3ya", "münchen") + "." + label()
		out.Stat("long.shape.last")
	case k < 12:
		d = "mail." + label() + ".example"
		out.Stat("long.shape.middle")
	case k < 13:
		n = []int{63, 64, 65}[r.Intn(3)]
		d = label() + "." + label()
		out.Stat("long.shape.two-long-labels")
	case k < 16:
		// over-long NAME made of short labels: around the limits 253 / 255 and beyond
		nn := []int{252, 253, 254, 255, 256, 257, 300, 512, 1000}[r.Intn(9)]
		d = c17LongName(r, nn, r.Bool())
		out.Stat(fmt.Sprintf("long.shape.name.%d", nn))
	case k < 18:
		// many labels
		nl := []int{64, 126, 127, 128, 129, 256, 300}[r.Intn(7)]
		ls := make([]string, nl)
		pure := r.Bool() // one-letter labels only: 128 of them are a name of 255 octets
		for i := range ls {
			ls[i] = r.Pick("a", "b", "x", "a", "xn--a", "XN--", "")
			if pure {
				ls[i] = r.Pick("a", "b", "1", "A")
			}
			if ls[i] == "" && !r.Chance(10) {
				ls[i] = "c"
			}
		}
		d = strings.Join(ls, ".")
		out.Stat(fmt.Sprintf("long.shape.labels.%d", nl))
	default:
		// a short prefix-only / near-prefix label: the other end of the size range
		d = r.Pick("xn--", "XN--", "xn-", "xn", "x", "", ".", "Xn--.", ".xN--", "xn--a", "XN--A") + r.Pick("", "", ".", ".org")
		out.Stat("long.shape.tiny")
	}
	if r.Chance(15) {
		d += "."
	}
	return d
}

// c17LongLocal: a local part; mostly ordinary, sometimes a size extreme of its own
func c17LongLocal(out *vh.Out, r *vh.Rng) string {
	if !r.Chance(35) {
		return r.Pick("user", "postmaster", "rené", "\"a b\"", "a+tag", "x")
	}
	n := []int{63, 64, 65, 100, 255, 256, 300, 1000}[r.Intn(8)]
	out.Stat(fmt.Sprintf("long.local.%d", n))
	switch r.Intn(6) {
	case 0:
		return strings.Repeat("a", n)
	case 1:
		return strings.Repeat("ab.", n/3) + "c"
	case 2:
		return "\"" + strings.Repeat("\\a", n/2) + "\""
	case 3:
		return "\"" + strings.Repeat("\\\\", n/2) + "\""
	case 4:
		return strings.Repeat("é", n/2)
	default:
		return "\"" + strings.Repeat("a b", n/3) + "\""
	}
}

// another spelling of the ACE prefixes / of the ASCII letters of d, or a name that differs from d only near its end
func c17LongPartner(out *vh.Out, r *vh.Rng, d string) string {
	switch r.Intn(6) {
	case 0:
		out.Stat("long.partner.ascii-upper")
		return asciiUpper(d)
	case 1:
		out.Stat("long.partner.ascii-lower")
		return asciiLowerStr(d)
	case 2:
		out.Stat("long.partner.rand-case")
		return asciiRandCase(r, d)
	case 3:
		// only the prefixes respelled
		ls := strings.Split(d, ".")
		for i, l := range ls {
			if len(l) >= 4 && strings.EqualFold(l[:4], "xn--") {
				ls[i] = c17ACEPrefixes[r.Intn(len(c17ACEPrefixes))] + l[4:]
			}
		}
		out.Stat("long.partner.prefix-case")
		return strings.Join(ls, ".")
	case 4:
		// another name: differs in one octet at / near the end (beyond any fixed-size buffer)
		if len(d) > 2 && d[len(d)-1] < 0x80 && d[len(d)-1] != '.' {
			out.Stat("long.partner.last-octet")
			return d[:len(d)-1] + r.Pick("b", "z", "0")
		}
		fallthrough
	default:
		out.Stat("long.partner.same")
		return d
	}
}

// c17LongCase: one domain with a size extreme (k selects the function that gets the correspondence op, so that
// every function sees all of them over a run)
func c17LongCase(out *vh.Out, r *vh.Rng, k int) {
	defer c17Recover()
	d := c17LongDomain(out, r)
	d2 := c17LongPartner(out, r, d)
	m := c17LongLocal(out, r)
	a, a2 := m+"@"+d, m+"@"+d2
	out.Stat("long.cases")
	// every function, every call on its own: domains alone, whole addresses, the local part alone
	c17NoCrash(out, d, d2)
	c17NoCrash(out, a, a2)
	if len(m) > 20 {
		c17NoCrash(out, m, m)
	}
	// Equal <=> same key, dns.Equal <=> same dns key, IsASCII, ToASCII ... on these strings
	c17Strings(out, a, a2)
	c17Strings(out, d, d2)
	// model vs code on one function (round robin over the one- and two-argument functions); strings beyond 400
	// octets only now and then (the primitive table repeats the string a few dozen times)
	if len(a) > 400 && !r.Chance(25) {
		out.Stat("long.op.skipped-size")
		return
	}
	fns := append(append([]string{}, c17ModelFns1...), "equal", "dnsequal")
	fn := fns[k%len(fns)]
	switch fn {
	case "dnsforlookup", "dnstounicode", "validdomain":
		c17Op(out, fn, d)
	case "dnsequal":
		c17Op(out, fn, d, d2)
	case "equal":
		c17Op(out, fn, a, a2)
	case "unquote", "quote", "validmbox":
		if len(m) > 20 {
			c17Op(out, fn, m)
		} else {
			c17Op(out, fn, a)
		}
	default:
		c17Op(out, fn, a)
	}
	out.Stat("long.op." + fn)
}

func c17LongReplay(out *vh.Out, toks []string) {
	if len(toks) < 2 {
		return
	}
	s, t := string(vh.UnhexBytes(toks[0])), string(vh.UnhexBytes(toks[1]))
	c17NoCrash(out, s, t)
	c17Strings(out, s, t)
}
