package address

import (
	"fmt"
	"sort"
	"strings"
	"testing"
	"unicode"
	"unicode/utf8"

	"github.com/foxcpp/maddy/framework/dns"
	"github.com/foxcpp/maddy/internal/verifshim/vh"
	"golang.org/x/net/idna"
	"golang.org/x/text/unicode/norm"
)

// ---- primitive oracle table shipped to the Lean model ----

type c17Tab struct {
	seen map[string]bool
	rows []string
}

func b01(b bool) string {
	if b {
		return "1"
	}
	return "0"
}

// closure of the primitives over the candidate inputs, depth 3
func c17Table(inputs ...string) string {
	t := &c17Tab{seen: map[string]bool{}}
	frontier := map[string]bool{"": true}
	for _, in := range inputs {
		frontier[in] = true
		for i := 0; i < len(in); i++ {
			if in[i] == '@' {
				frontier[in[:i]] = true
				frontier[in[i+1:]] = true
			}
		}
	}
	done := map[string]bool{}
	for depth := 0; depth < 4; depth++ {
		next := map[string]bool{}
		keys := make([]string, 0, len(frontier))
		for k := range frontier {
			keys = append(keys, k)
		}
		sort.Strings(keys)
		for _, s := range keys {
			if done[s] {
				continue
			}
			done[s] = true
			n := norm.NFC.String(s)
			l := strings.ToLower(s)
			u, uerr := idna.ToUnicode(s)
			a, aerr := idna.ToASCII(s)
			t.rows = append(t.rows,
				"n "+vh.HexRunes(s)+" "+vh.HexRunes(n),
				"l "+vh.HexRunes(s)+" "+vh.HexRunes(l),
				"u "+vh.HexRunes(s)+" "+b01(uerr == nil)+" "+vh.HexRunes(u),
				"a "+vh.HexRunes(s)+" "+b01(aerr == nil)+" "+vh.HexRunes(a))
			for _, o := range []string{n, l, u, a, strings.TrimSuffix(s, "."), aceCandidate(s)} {
				if !done[o] {
					next[o] = true
				}
			}
		}
		frontier = next
	}
	return " | " + strings.Join(t.rows, " | ")
}

// candidate input for the model's query toUnicode(lowerACE d): labels carrying the ACE prefix in
// any case, ASCII-lower-cased. Only a candidate generator for the table: a wrong candidate makes
// the model answer MISSING (a divergence), never a silent pass.
func aceCandidate(s string) string {
	labels := strings.Split(s, ".")
	for i, l := range labels {
		if len(l) >= 4 && strings.EqualFold(l[:4], "xn--") {
			labels[i] = asciiLowerStr(l)
		}
	}
	return strings.Join(labels, ".")
}

func asciiLowerStr(s string) string {
	b := []byte(s)
	for i, c := range b {
		if c >= 'A' && c <= 'Z' {
			b[i] = c + 32
		}
	}
	return string(b)
}

func res(s string, err error) string {
	if err != nil {
		return "err " + vh.HexRunes(s)
	}
	return "ok " + vh.HexRunes(s)
}

// ---- one op against the real code ----

func c17Op(out *vh.Out, fn string, args ...string) {
	hex := make([]string, len(args))
	for i, a := range args {
		hex[i] = vh.HexRunes(a)
	}
	call := "C17 " + fn + " " + strings.Join(hex, " ")
	var obs string
	needTab := true
	switch fn {
	case "split":
		m, d, err := Split(args[0])
		if err != nil {
			obs = "err"
		} else {
			obs = "ok " + vh.HexRunes(m) + " " + vh.HexRunes(d)
		}
		needTab = false
	case "unquote":
		r, err := UnquoteMbox(args[0])
		if err != nil {
			obs = "err"
		} else {
			obs = "ok " + vh.HexRunes(r)
		}
		needTab = false
	case "quote":
		obs = vh.HexRunes(QuoteMbox(args[0]))
		needTab = false
	case "isascii":
		obs = b01(IsASCII(args[0]))
		needTab = false
	case "toascii":
		obs = res(ToASCII(args[0]))
	case "tounicode":
		obs = res(ToUnicode(args[0]))
	case "forlookup":
		obs = res(ForLookup(args[0]))
	case "cleandomain":
		obs = res(CleanDomain(args[0]))
	case "dnsforlookup":
		obs = res(dns.ForLookup(args[0]))
	case "equal":
		obs = b01(Equal(args[0], args[1]))
	case "dnsequal":
		obs = b01(dns.Equal(args[0], args[1]))
	}
	if needTab {
		call += c17Table(args...)
	}
	out.Corr(call, obs)
	out.Stat("op." + fn)
}

// ---- generators ----

var c17Alphabet = []string{
	"a", "b", "z", "A", "B", "Z", "s", "S", "k", "K", "i", "I", "0", "9", "-", "_", "+", ".", ".", "@", "@",
	"\"", "\\", " ", "(", ")", "<", ">", "[", "]", ":", ";", ",", "!", "#",
	"́", "̈", "̇", "é", "É", "ü", "Ü", "ß", "ẞ", "İ", "ı", "ς", "σ", "Σ", "ſ", "K",
	"µ", "μ", "Μ", "ǅ", "ǆ", "Ǆ", "Ａ", "ａ", "＠", "．", "。", "中", "\u007f", "\u0080", "\u0081", "ÿ",
	"xn--", "XN--", "xn--mnchen-3ya", "XN--MNCHEN-3YA", "xn--e1afmkfd", "xn--a", "xn---", "postmaster", "POSTMASTER", "poſtmaster",
}

func c17Random(r *vh.Rng, maxLen int) string {
	n := r.Intn(maxLen + 1)
	var b strings.Builder
	for i := 0; i < n; i++ {
		b.WriteString(c17Alphabet[r.Intn(len(c17Alphabet))])
	}
	return b.String()
}

var c17Labels = []string{"example", "org", "com", "münchen", "пример", "испытание", "bücher", "例え", "test-1", "mx", "straße", "ελληνικά", "a"}
var c17Locals = []string{"user", "bob", "postmaster", "rené", "ünïcode", "first.last", "a+tag", "дима", "q", "x_y", "o'neil", "用户",
	// characters for which case mapping and normalisation interact: U+0130 (lower-cases to plain i, its
	// decomposition I + U+0307 does not), U+01F0 (no precomposed upper case), Greek with tonos, Å (U+212B -> U+00C5)
	"İstanbul", "x\u0130", "\u01f0an", "άλφα", "\u212bngström", "ǆemal", "ﬁsh"}

type c17Addr struct{ mbox, domain string }

func c17Valid(r *vh.Rng) c17Addr {
	nl := 1 + r.Intn(3)
	var ls []string
	for i := 0; i < nl; i++ {
		ls = append(ls, c17Labels[r.Intn(len(c17Labels))])
	}
	return c17Addr{c17Locals[r.Intn(len(c17Locals))], strings.Join(ls, ".")}
}

// a letter-case variant: runes whose simple case mapping round-trips are flipped at random
func caseVariant(r *vh.Rng, s string) string {
	var b strings.Builder
	for _, ch := range s {
		up := unicode.ToUpper(ch)
		if up != ch && unicode.ToLower(up) == unicode.ToLower(ch) && unicode.ToLower(ch) == ch && r.Bool() {
			// only flip when upper-casing and lower-casing again is the identity on the NFC form too
			if norm.NFC.String(string(up)) == string(up) {
				b.WriteRune(up)
				continue
			}
		}
		b.WriteRune(ch)
	}
	return b.String()
}

// foldVariant replaces runes by other members of their simple case-folding orbit
// (what strings.EqualFold identifies): 's'/'S'/'ſ', 'σ'/'ς'/'Σ', 'µ'/'μ', 'k'/'K'/Kelvin ...
func foldVariant(r *vh.Rng, s string) string {
	var b strings.Builder
	for _, ch := range s {
		if r.Chance(50) {
			f := unicode.SimpleFold(ch)
			if r.Bool() {
				f = unicode.SimpleFold(f)
			}
			b.WriteRune(f)
		} else {
			b.WriteRune(ch)
		}
	}
	return b.String()
}

func asciiUpper(s string) string {
	b := []byte(s)
	for i, c := range b {
		if c >= 'a' && c <= 'z' {
			b[i] = c - 32
		}
	}
	return string(b)
}

// spelling variants of one valid address (canonical form: NFC, lower case, U-labels)
func c17Variants(r *vh.Rng, a c17Addr) []string {
	vs := []string{a.mbox + "@" + a.domain}
	m2, d2 := a.mbox, a.domain
	switch r.Intn(3) {
	case 0:
		m2 = norm.NFD.String(m2)
	case 1:
		m2 = caseVariant(r, m2)
	}
	kind := r.Intn(5)
	switch kind {
	case 0:
		d2 = norm.NFD.String(d2)
	case 1:
		d2 = caseVariant(r, d2)
	case 2:
		if ad, err := idna.ToASCII(d2); err == nil {
			d2 = ad
		}
	case 3:
		if ad, err := idna.ToASCII(d2); err == nil {
			d2 = asciiUpper(ad)
		}
	case 4:
		d2 = d2 + "."
	}
	if r.Chance(30) {
		// one name, labels spelled independently: some as A-labels (any letter case), some as U-labels
		ls := strings.Split(a.domain, ".")
		for i, l := range ls {
			if r.Bool() {
				if al, err := idna.ToASCII(l); err == nil {
					if r.Bool() {
						al = asciiUpper(al)
					}
					ls[i] = al
				}
			} else if r.Chance(30) {
				ls[i] = norm.NFD.String(l)
			}
		}
		d2 = strings.Join(ls, ".")
	}
	vs = append(vs, m2+"@"+d2)
	return vs
}

func c17Monitor(out *vh.Out, r *vh.Rng, a c17Addr) {
	canon := a.mbox + "@" + a.domain
	op := "C17 laws " + vh.HexRunes(canon)
	// idempotence
	k1, err := ForLookup(canon)
	if err != nil {
		out.Note("valid address rejected by ForLookup: " + canon)
		return
	}
	k2, _ := ForLookup(k1)
	if k1 != k2 {
		out.Violation("C17/forlookup-not-idempotent", op, fmt.Sprintf("%q -> %q -> %q", canon, k1, k2))
	}
	c1, err := CleanDomain(canon)
	if err == nil {
		c2, _ := CleanDomain(c1)
		if c1 != c2 {
			out.Violation("C17/cleandomain-not-idempotent", op, fmt.Sprintf("%q -> %q -> %q", canon, c1, c2))
		}
	}
	// variants
	vs := c17Variants(r, a)
	for _, v := range vs[1:] {
		kv, _ := ForLookup(v)
		vop := "C17 variants " + vh.HexRunes(canon) + " " + vh.HexRunes(v)
		if kv != k1 {
			sig := "C17/variant-different-key"
			if strings.Contains(v, "XN--") {
				sig = "C17/uppercase-ace-prefix-different-key"
			}
			out.Violation(sig, vop, fmt.Sprintf("ForLookup(%q)=%q but ForLookup(%q)=%q", canon, k1, v, kv))
		}
		if !Equal(canon, v) || !Equal(v, canon) {
			sig := "C17/variant-not-equal"
			if strings.Contains(v, "XN--") {
				sig = "C17/uppercase-ace-prefix-not-equal"
			}
			out.Violation(sig, vop, fmt.Sprintf("Equal(%q,%q)=false", canon, v))
		}
		out.Stat("variants.checked")
	}
	// split / join
	m, d, err := Split(canon)
	if err != nil || m+"@"+d != canon {
		out.Violation("C17/split-join", op, fmt.Sprintf("Split(%q) = %q %q %v", canon, m, d, err))
	}
	// ASCII <-> Unicode
	if IsASCII(a.mbox) {
		as, err := ToASCII(canon)
		if err == nil {
			us, err2 := ToUnicode(as)
			if err2 != nil || us != canon {
				out.Violation("C17/idna-roundtrip", op, fmt.Sprintf("ToUnicode(ToASCII(%q)=%q)=%q %v", canon, as, us, err2))
			}
			if !IsASCII(as) {
				out.Violation("C17/toascii-not-ascii", op, fmt.Sprintf("ToASCII(%q)=%q", canon, as))
			}
		}
	}
}

func c17Strings(out *vh.Out, s, t string) {
	// Equal <=> same key; symmetry
	ks, _ := ForLookup(s)
	kt, _ := ForLookup(t)
	op := "C17 equal " + vh.HexRunes(s) + " " + vh.HexRunes(t)
	if Equal(s, t) != (ks == kt) {
		out.Violation("C17/equal-vs-key", op, fmt.Sprintf("Equal=%v keys %q %q", Equal(s, t), ks, kt))
	}
	if Equal(s, t) != Equal(t, s) {
		out.Violation("C17/equal-not-symmetric", op, "")
	}
	// IsASCII
	if utf8.ValidString(s) {
		all := true
		for _, ch := range s {
			if ch >= 0x80 {
				all = false
			}
		}
		if IsASCII(s) != all {
			out.Violation("C17/isascii", "C17 isascii "+vh.HexRunes(s), fmt.Sprintf("IsASCII(%q)=%v", s, IsASCII(s)))
		}
		// ToASCII must not accept a non-ASCII local part
		if as, err := ToASCII(s); err == nil {
			for _, ch := range as {
				if ch >= 0x80 {
					out.Violation("C17/toascii-not-ascii", "C17 toascii "+vh.HexRunes(s), fmt.Sprintf("ToASCII(%q)=%q", s, as))
					break
				}
			}
		}
	}
	// quote / unquote
	if s != "" && utf8.ValidString(s) {
		q := QuoteMbox(s)
		u, err := UnquoteMbox(q)
		if err != nil || u != s {
			out.Violation("C17/unquote-quote", "C17 quote "+vh.HexRunes(s), fmt.Sprintf("Unquote(Quote(%q)=%q)=%q %v", s, q, u, err))
		}
	}
}

func c17NoCrash(out *vh.Out, s, t string) {
	defer func() {
		if p := recover(); p != nil {
			out.Violation("C17/panic", "C17 crash "+vh.HexBytes([]byte(s))+" "+vh.HexBytes([]byte(t)), fmt.Sprint(p))
		}
	}()
	ForLookup(s)
	CleanDomain(s)
	Equal(s, t)
	IsASCII(s)
	ToASCII(s)
	ToUnicode(s)
	Split(s)
	QuoteMbox(s)
	UnquoteMbox(s)
	Valid(s)
	ValidMailboxName(s)
	ValidDomain(s)
	PRECISFold(s)
	dns.ForLookup(s)
	dns.Equal(s, t)
	out.Stat("nocrash")
}

func c17Replay(out *vh.Out, op string) {
	toks := strings.Fields(op)
	if i := strings.Index(op, " | "); i >= 0 {
		toks = strings.Fields(op[:i])
	}
	switch toks[1] {
	case "laws":
		canon := vh.UnhexRunes(toks[2])
		i := strings.LastIndex(canon, "@")
		for seed := uint64(0); seed < 64; seed++ {
			c17Monitor(out, vh.NewRng(seed), c17Addr{canon[:i], canon[i+1:]})
		}
	case "variants":
		canon, v := vh.UnhexRunes(toks[2]), vh.UnhexRunes(toks[3])
		k1, _ := ForLookup(canon)
		kv, _ := ForLookup(v)
		if k1 != kv {
			sig := "C17/variant-different-key"
			if strings.Contains(v, "XN--") {
				sig = "C17/uppercase-ace-prefix-different-key"
			}
			out.Violation(sig, op, fmt.Sprintf("ForLookup(%q)=%q but ForLookup(%q)=%q", canon, k1, v, kv))
		}
	case "crash":
		c17NoCrash(out, string(vh.UnhexBytes(toks[2])), string(vh.UnhexBytes(toks[3])))
	default:
		args := []string{}
		for _, t := range toks[2:] {
			args = append(args, vh.UnhexRunes(t))
		}
		c17Op(out, toks[1], args...)
		if len(args) >= 1 {
			t := args[0]
			if len(args) >= 2 {
				t = args[1]
			}
			c17Strings(out, args[0], t)
		}
	}
}

func TestVerifC17(t *testing.T) {
	out := vh.Open("c17")
	defer out.Close()
	if ops := vh.Replay(); ops != nil {
		for _, op := range ops {
			if strings.HasPrefix(op, "C17 ") {
				c17Replay(out, op)
			}
		}
		return
	}
	r := vh.NewRng(vh.Seed() + 17)
	n := vh.N(3000)
	fns1 := []string{"split", "unquote", "quote", "isascii", "toascii", "tounicode", "forlookup", "cleandomain", "dnsforlookup"}
	for i := 0; i < n; i++ {
		var s, t string
		switch r.Intn(3) {
		case 0: // arbitrary strings over the alphabet
			s, t = c17Random(r, 8), c17Random(r, 8)
		case 1: // valid address and one of its variants
			a := c17Valid(r)
			vs := c17Variants(r, a)
			s, t = vs[0], vs[len(vs)-1]
			c17Monitor(out, r, a)
		default: // mutated valid address
			a := c17Valid(r)
			s = a.mbox + "@" + a.domain
			pos := r.Intn(len(s) + 1)
			for !utf8.RuneStart(append([]byte(s), 0)[pos]) {
				pos--
			}
			s = s[:pos] + c17Alphabet[r.Intn(len(c17Alphabet))] + s[pos:]
			t = c17Random(r, 6)
		}
		c17Op(out, fns1[r.Intn(len(fns1))], s)
		if r.Chance(40) {
			c17Op(out, "forlookup", s)
		}
		if r.Chance(30) {
			c17Op(out, r.Pick("equal", "dnsequal"), s, t)
		}
		if r.Chance(50) {
			fv := foldVariant(r, s)
			c17Op(out, r.Pick("equal", "dnsequal"), s, fv)
			c17Strings(out, s, fv)
			c17Strings(out, fv, s)
		}
		c17Strings(out, s, t)
		// crash-freedom over arbitrary bytes
		bs := make([]byte, r.Intn(12))
		for j := range bs {
			bs[j] = byte(r.Intn(256))
		}
		c17NoCrash(out, string(bs), s)
		c17NoCrash(out, s, t)
	}
}
