package address

import (
	"fmt"
	"sort"
	"strings"
	"testing"
	"unicode"
	"unicode/utf8"

	"github.com/foxcpp/maddy/framework/dns"
	"github.com/foxcpp/maddy/internal/verifshim/vh"
	"golang.org/x/net/idna"
	"golang.org/x/text/unicode/norm"
)

// ---- primitive oracle table shipped to the Lean model ----

type c17Tab struct {
	seen map[string]bool
	rows []string
}

func b01(b bool) string {
	if b {
		return "1"
	}
	return "0"
}

// closure of the primitives over the candidate inputs, depth 3
func c17Table(inputs ...string) string {
	t := &c17Tab{seen: map[string]bool{}}
	frontier := map[string]bool{"": true}
	for _, in := range inputs {
		frontier[in] = true
		for i := 0; i < len(in); i++ {
			if in[i] == '@' {
				frontier[in[:i]] = true
				frontier[in[i+1:]] = true
			}
		}
	}
	done := map[string]bool{}
	for depth := 0; depth < 4; depth++ {
		next := map[string]bool{}
		keys := make([]string, 0, len(frontier))
		for k := range frontier {
			keys = append(keys, k)
		}
		sort.Strings(keys)
		for _, s := range keys {
			if done[s] {
				continue
			}
			done[s] = true
			n := norm.NFC.String(s)
			l := strings.ToLower(s)
			u, uerr := idna.ToUnicode(s)
			a, aerr := idna.ToASCII(s)
			t.rows = append(t.rows,
				"n "+vh.HexRunes(s)+" "+vh.HexRunes(n),
				"l "+vh.HexRunes(s)+" "+vh.HexRunes(l),
				"u "+vh.HexRunes(s)+" "+b01(uerr == nil)+" "+vh.HexRunes(u),
				"a "+vh.HexRunes(s)+" "+b01(aerr == nil)+" "+vh.HexRunes(a))
			for _, o := range []string{n, l, u, a, strings.TrimSuffix(s, "."), aceCandidate(s)} {
				if !done[o] {
					next[o] = true
				}
			}
		}
		frontier = next
	}
	return " | " + strings.Join(t.rows, " | ")
}

// candidate input for the model's query toUnicode(lowerACE d): labels carrying the ACE prefix in
// any case, ASCII-lower-cased. Only a candidate generator for the table: a wrong candidate makes
// the model answer MISSING (a divergence), never a silent pass.
func aceCandidate(s string) string {
	labels := strings.Split(s, ".")
	for i, l := range labels {
		if len(l) >= 4 && strings.EqualFold(l[:4], "xn--") {
			labels[i] = asciiLowerStr(l)
		}
	}
	return strings.Join(labels, ".")
}

func asciiLowerStr(s string) string {
	b := []byte(s)
	for i, c := range b {
		if c >= 'A' && c <= 'Z' {
			b[i] = c + 32
		}
	}
	return string(b)
}

func res(s string, err error) string {
	if err != nil {
		return "err " + vh.HexRunes(s)
	}
	return "ok " + vh.HexRunes(s)
}

// ---- one op against the real code ----

func c17Op(out *vh.Out, fn string, args ...string) {
	hex := make([]string, len(args))
	for i, a := range args {
		hex[i] = vh.HexRunes(a)
	}
	call := "C17 " + fn + " " + strings.Join(hex, " ")
	var obs string
	needTab := true
	switch fn {
	case "split":
		m, d, err := Split(args[0])
		if err != nil {
			obs = "err"
		} else {
			obs = "ok " + vh.HexRunes(m) + " " + vh.HexRunes(d)
		}
		needTab = false
	case "unquote":
		r, err := UnquoteMbox(args[0])
		if err != nil {
			obs = "err"
		} else {
			obs = "ok " + vh.HexRunes(r)
		}
		needTab = false
	case "quote":
		obs = vh.HexRunes(QuoteMbox(args[0]))
		needTab = false
	case "isascii":
		obs = b01(IsASCII(args[0]))
		needTab = false
	case "toascii":
		obs = res(ToASCII(args[0]))
	case "tounicode":
		obs = res(ToUnicode(args[0]))
	case "forlookup":
		obs = res(ForLookup(args[0]))
	case "cleandomain":
		obs = res(CleanDomain(args[0]))
	case "dnsforlookup":
		obs = res(dns.ForLookup(args[0]))
	case "valid":
		obs = b01(Valid(args[0]))
	case "equal":
		obs = b01(Equal(args[0], args[1]))
	case "dnsequal":
		obs = b01(dns.Equal(args[0], args[1]))
	}
	if needTab {
		call += c17Table(args...)
	}
	out.Corr(call, obs)
	out.Stat("op." + fn)
}

// ---- generators ----

var c17Alphabet = []string{
	"a", "b", "z", "A", "B", "Z", "s", "S", "k", "K", "i", "I", "0", "9", "-", "_", "+", ".", ".", "@", "@",
	"\"", "\\", " ", "(", ")", "<", ">", "[", "]", ":", ";", ",", "!", "#",
	"́", "̈", "̇", "é", "É", "ü", "Ü", "ß", "ẞ", "İ", "ı", "ς", "σ", "Σ", "ſ", "K",
	"µ", "μ", "Μ", "ǅ", "ǆ", "Ǆ", "Ａ", "ａ", "＠", "．", "。", "中", "\u007f", "\u0080", "\u0081", "ÿ",
	"xn--", "XN--", "xn--mnchen-3ya", "XN--MNCHEN-3YA", "xn--e1afmkfd", "xn--a", "xn---", "postmaster", "POSTMASTER", "poſtmaster",
	// non-ASCII white space and other code points a careless "trim" drops (valid in RFC 6531 local parts);
	// U+0338 composes with the specials '<' '>' (and '='), U+037E is canonically ';'
	"\u0085", "\u00a0", "\u2003", "\u3000", "\ufeff", "\u200b", "\u0338", "\u226e", "\u037e", "\t", "\n",
}

func c17Random(r *vh.Rng, maxLen int) string {
	n := r.Intn(maxLen + 1)
	var b strings.Builder
	for i := 0; i < n; i++ {
		b.WriteString(c17Alphabet[r.Intn(len(c17Alphabet))])
	}
	return b.String()
}

var c17Labels = []string{"example", "org", "com", "münchen", "пример", "испытание", "bücher", "例え", "test-1", "mx", "straße", "ελληνικά", "a",
	// ASCII 'i' (Turkish/Azeri/Lithuanian tailorings), Greek sigma in word-final / pre-hyphen / pre-digit position
	// (context-sensitive lower-casing), final sigma, dotless i, letters Lithuanian lower-casing treats specially,
	// right-to-left labels, a ZWNJ in a valid (Persian) context
	"mail", "invalid", "info", "ασ", "σ", "κόσμοσ", "οσ-1", "σ1", "ασ-βσ", "λόγος", "ısı", "ìí", "įj́", "שלום", "مثال", "نامه\u200cای"}

// labels maddy accepts (address.Valid) that are no IDNA2008/STD3 host names: underscores, "--" in
// positions 3-4 without being an A-label, leading/trailing hyphens, digits only, a joiner outside its context
var c17OddLabels = []string{"build_host", "_dmarc", "_", "a_b", "ab--c", "r3--x", "-lead", "trail-", "-", "a-", "-a-", "123", "0", "007", "ns1", "a\u200db",
	"xn", "xn-", "x--", "3com", "a" + strings.Repeat("b", 62) + "c"}

// whole domains that are address literals
var c17Literals = []string{"[192.0.2.1]", "[127.0.0.1]", "[IPv6:2001:db8::1]", "[IPv6:::1]"}

var c17Locals = []string{"user", "bob", "postmaster", "rené", "ünïcode", "first.last", "a+tag", "дима", "q", "x_y", "o'neil", "用户",
	// characters for which case mapping and normalisation interact: U+0130 (lower-cases to plain i, its
	// decomposition I + U+0307 does not), U+01F0 (no precomposed upper case), Greek with tonos, Å (U+212B -> U+00C5)
	"İstanbul", "xİ", "ǰan", "άλφα", "Ångström", "ǆemal", "ﬁsh",
	// sigma at the end of the local part, before '-', '.', '_', '+', a digit; Turkish/Lithuanian/Dutch letters
	"ασ", "σ", "κώστασ", "ασ-1", "ασ1", "νίκοσ.π", "οσ_x", "θωμάσ+tag", "aσ", "ΑΣ", "οδυσσέας", "ılık", "iı", "ìo", "íris", "ĩ", "įj́onas", "j́", "ĳs", "ǉubav", "ŉ"}

// letters whose case mapping is context- or language-sensitive somewhere in x/text/cases
var c17CaseLetters = []string{"σ", "σ", "σ", "ς", "ı", "i", "ì", "í", "į", "j́", "ß", "k", "s"}

// code points a "trim"/"clean-up" step is tempted to drop: Unicode White_Space outside ASCII (U+0085, U+00A0,
// U+1680, U+2000..U+200A, U+2028, U+2029, U+202F, U+205F, U+3000), other C1 controls, BOM / zero-width and
// other default-ignorable format characters, soft hyphen, variation selector, private use, U+FFFD.
// All of them are ordinary characters of an RFC 6531 local part (and of a domain as far as maddy is concerned).
var c17Trimmable = []string{"\u0085", "\u00a0", "\u1680", "\u2000", "\u2002", "\u2003", "\u2009", "\u200a", "\u2028", "\u2029",
	"\u202f", "\u205f", "\u3000", "\u3000", "\u00a0", "\u0080", "\u009f", "\ufeff", "\ufeff", "\u200b", "\u200c", "\u200d", "\u200e", "\u200f",
	"\u2060", "\u00ad", "\u180e", "\u034f", "\ufe0f", "\ue000", "\ufffd", "\U000e0001", "\u115f", "\u3164"}

// c17Edge puts one or two such code points at the start and/or the end of s
func c17Edge(r *vh.Rng, s string) string {
	x := c17Trimmable[r.Intn(len(c17Trimmable))]
	switch r.Intn(5) {
	case 0, 1:
		return x + s
	case 2, 3:
		return s + x
	default:
		return x + s + c17Trimmable[r.Intn(len(c17Trimmable))]
	}
}

// RFC 5322 specials (dot excluded): a local part containing one of them has to be written as a quoted string
var c17Specials = []string{" ", " ", "(", ")", "<", ">", "[", "]", ":", ";", ",", "@", "\\", "\"", "\\", "\""}

// sequences for which NFC changes whether quotes are needed: a special followed by a combining mark it
// composes with ('<' '>' + U+0338 -> U+226E U+226F), the composed forms, '=' + U+0338 (no special involved),
// singletons that normalise TO an ASCII character (U+037E -> ';' a special, U+1FEF -> '`', U+212A -> 'K'),
// a special followed by marks that do not compose with it
var c17QuoteSensitive = []string{"<\u0338", ">\u0338", "<\u0338", ">\u0338", "\u226e", "\u226f", "=\u0338", "\u2260", "\u037e", "\u1fef", "\u212a",
	"<\u0301", " \u0308", ">\u0338\u0301", "<\u0323\u0338", ";\u0301", "\"\u0338", "\\\u0338", "@\u0338", "(\u0338"}

// raw (unquoted, unescaped) local parts that are written as quoted strings
var c17QuotedRaws = []string{"john smith", "a@b", " lead", "trail ", "a,b", "(comment)", "[x]", "a:b;c", "back\\slash", "quo\"te", "\\", "\"", "\"\"",
	"user", "rené", "Bob Σ", "ασ σ1", "İ x", "J. Σ", "x y z", "postmaster", ". .", "a..b", ".dot",
	"<\u0338", ">\u0338", "a<\u0338", "x>\u0338y", "\u226e", "\u226f", "a\u226eb", "=\u0338", "\u2260", "a\u037eb", "\u037e", "<e\u0301>", "<\u0338>\u0338", "Σ<\u0338"}

// the harness' own spelling of a raw local part as an RFC 5321 quoted string (independent of QuoteMbox):
// '\\' and '"' are always escaped, any other character is escaped redundantly with probability pct/100
func c17Spell(r *vh.Rng, raw string, pct int) string {
	var b strings.Builder
	b.WriteByte('"')
	for _, ch := range raw {
		// (an escape in front of a combining mark keeps it from composing with the character before it)
		if ch == '\\' || ch == '"' || r.Chance(pct) || unicode.IsMark(ch) && r.Chance(20) {
			b.WriteByte('\\')
		}
		b.WriteRune(ch)
	}
	b.WriteByte('"')
	return b.String()
}

// the harness' own reading of a quoted string (independent of UnquoteMbox): ok only for `"` qcontent `"`
// with complete escape pairs and a non-empty content
func c17OwnUnquote(m string) (string, bool) {
	rs := []rune(m)
	if len(rs) < 3 || rs[0] != '"' || rs[len(rs)-1] != '"' {
		return "", false
	}
	in := rs[1 : len(rs)-1]
	var b []rune
	for i := 0; i < len(in); i++ {
		switch in[i] {
		case '\\':
			i++
			if i >= len(in) {
				return "", false
			}
			b = append(b, in[i])
		case '"':
			return "", false
		default:
			b = append(b, in[i])
		}
	}
	if len(b) == 0 {
		return "", false
	}
	return string(b), true
}

// the raw local part a spelling stands for
func c17Raw(m string) string {
	if strings.HasPrefix(m, "\"") {
		if raw, ok := c17OwnUnquote(m); ok {
			return raw
		}
	}
	return m
}

func c17InsertAt(r *vh.Rng, s, x string) string {
	rs := []rune(s)
	p := r.Intn(len(rs) + 1)
	return string(rs[:p]) + x + string(rs[p:])
}

// a quoted local part: a raw local part with specials and/or quote-sensitive sequences (or none: redundant
// quotes), spelled with random redundant escapes
func c17QuotedLocal(r *vh.Rng) string {
	var raw string
	if r.Chance(50) {
		raw = c17QuotedRaws[r.Intn(len(c17QuotedRaws))]
	} else {
		raw = c17Locals[r.Intn(len(c17Locals))]
		for k := r.Intn(3); k >= 0; k-- {
			if r.Chance(55) {
				raw = c17InsertAt(r, raw, c17QuoteSensitive[r.Intn(len(c17QuoteSensitive))])
			} else {
				raw = c17InsertAt(r, raw, c17Specials[r.Intn(len(c17Specials))])
			}
		}
	}
	if r.Chance(15) {
		raw = c17Edge(r, raw)
	}
	return c17Spell(r, raw, []int{0, 0, 10, 40}[r.Intn(4)])
}

type c17Addr struct{ mbox, domain string }

// decorate puts one case-sensitive letter at a word boundary of s: at the end, at the start, before a
// '-', '.', '_', '+' or before a digit
func c17Decorate(r *vh.Rng, s string) string {
	l := c17CaseLetters[r.Intn(len(c17CaseLetters))]
	var pos []int
	for i, ch := range s {
		if ch == '-' || ch == '.' || ch == '_' || ch == '+' || (ch >= '0' && ch <= '9') {
			pos = append(pos, i)
		}
	}
	pos = append(pos, len(s), len(s))
	if r.Chance(15) {
		pos = []int{0}
	}
	p := pos[r.Intn(len(pos))]
	return norm.NFC.String(s[:p] + l + s[p:])
}

func c17Valid(r *vh.Rng) c17Addr {
	mbox := c17Locals[r.Intn(len(c17Locals))]
	if r.Chance(20) {
		mbox = c17Decorate(r, mbox)
	}
	switch k := r.Intn(100); {
	case k < 14:
		mbox = c17QuotedLocal(r)
	case k < 26:
		mbox = c17Edge(r, mbox)
	case k < 31:
		// unquoted, with a sequence that composes / normalises to a non-special ASCII graphic
		mbox = c17InsertAt(r, mbox, r.Pick("=\u0338", "\u2260", "\u226e", "\u226f", "\u1fef", "\u212a", "\u0338"))
	}
	if r.Chance(6) {
		return c17Addr{mbox, c17Literals[r.Intn(len(c17Literals))]}
	}
	nl := 1 + r.Intn(3)
	var ls []string
	for i := 0; i < nl; i++ {
		var l string
		if r.Chance(22) {
			l = c17OddLabels[r.Intn(len(c17OddLabels))]
			if len(l) > 40 && !r.Chance(25) {
				l = "a-" // the 64-byte label (the longest ValidDomain accepts) makes very long op lines: keep it rare
			}
		} else {
			l = c17Labels[r.Intn(len(c17Labels))]
			if r.Chance(15) {
				l = c17Decorate(r, l)
			}
		}
		if r.Chance(7) {
			// a label that starts / ends with a "trimmable" code point (kept in NFC: the generated address is in U-form)
			if e := c17Edge(r, l); norm.NFC.IsNormalString(e) && len(e) < 60 {
				l = e
			}
		}
		ls = append(ls, l)
	}
	return c17Addr{mbox, strings.Join(ls, ".")}
}

// ---- the harness' own notion of "spelling variant" (independent of the code under test) ----

// c17Fold: NFC, then the simple (one code point to one code point, context-free) lower-case mapping of
// the Unicode character database. Two local parts are letter-case / normalisation variants of one another
// exactly when their folds agree.
func c17Fold(s string) string {
	var b strings.Builder
	for _, ch := range norm.NFC.String(s) {
		b.WriteRune(unicode.ToLower(ch))
	}
	return b.String()
}

func c17HasACE(d string) bool {
	for _, l := range strings.Split(d, ".") {
		if len(l) >= 4 && strings.EqualFold(l[:4], "xn--") {
			return true
		}
	}
	return false
}

func c17UpperACE(d string) bool {
	for _, l := range strings.Split(d, ".") {
		if len(l) >= 4 && strings.EqualFold(l[:4], "xn--") && l[:4] != "xn--" {
			return true
		}
	}
	return false
}

// random letter-case respelling: every rune is replaced by its simple lower-, upper- or title-case form
func caseVariant(r *vh.Rng, s string) string {
	var b strings.Builder
	for _, ch := range s {
		switch r.Intn(4) {
		case 0:
			b.WriteRune(unicode.ToUpper(ch))
		case 1:
			b.WriteRune(unicode.ToLower(ch))
		case 2:
			b.WriteRune(unicode.ToTitle(ch))
		default:
			b.WriteRune(ch)
		}
	}
	return b.String()
}

// upper-case the runes of the last word only / of every word's last letter (word-final positions)
func finalUpper(s string) string {
	rs := []rune(s)
	for i, ch := range rs {
		last := i == len(rs)-1 || !unicode.IsLetter(rs[i+1]) && !unicode.IsMark(rs[i+1])
		if last {
			rs[i] = unicode.ToUpper(ch)
		}
	}
	return string(rs)
}

// one respelling of a U-form string (local part or domain in U-labels); the result is only used when the
// harness' own fold says it is a variant of s
func c17Respell(out *vh.Out, r *vh.Rng, s string) string {
	var c string
	k := r.Intn(10)
	switch k {
	case 9:
		// the canonical spelling need not be in NFC ('<' + U+0338 inside quotes)
		c = norm.NFC.String(s)
		if c == s {
			c = norm.NFD.String(s)
		}
	case 0:
		c = norm.NFD.String(s)
	case 1:
		c = caseVariant(r, s)
	case 2, 3:
		c = strings.ToUpper(s)
	case 4:
		c = strings.ToTitle(s)
	case 5:
		c = finalUpper(s)
	case 6:
		c = norm.NFD.String(strings.ToUpper(s))
	case 7:
		c = strings.ToUpper(norm.NFD.String(s))
	default:
		c = caseVariant(r, norm.NFD.String(s))
	}
	if c17Fold(c) != c17Fold(s) {
		out.Stat(fmt.Sprintf("respell.%d.not-a-variant", k))
		return s
	}
	if c != s {
		out.Stat(fmt.Sprintf("respell.%d", k))
	}
	return c
}

func asciiUpper(s string) string {
	b := []byte(s)
	for i, c := range b {
		if c >= 'a' && c <= 'z' {
			b[i] = c - 32
		}
	}
	return string(b)
}

func asciiRandCase(r *vh.Rng, s string) string {
	b := []byte(s)
	for i, c := range b {
		if c >= 'a' && c <= 'z' && r.Bool() {
			b[i] = c - 32
		}
	}
	return string(b)
}

// foldVariant replaces runes by other members of their simple case-folding orbit
// (what strings.EqualFold identifies): 's'/'S'/'ſ', 'σ'/'ς'/'Σ', 'µ'/'μ', 'k'/'K'/Kelvin ...
func foldVariant(r *vh.Rng, s string) string {
	var b strings.Builder
	for _, ch := range s {
		if r.Chance(50) {
			f := unicode.SimpleFold(ch)
			if r.Bool() {
				f = unicode.SimpleFold(f)
			}
			b.WriteRune(f)
		} else {
			b.WriteRune(ch)
		}
	}
	return b.String()
}

// A-label spelling of a domain given in U-labels; ok=false when the labels would not survive the trip
// (a label that already looks like an A-label, or one with upper-case letters: Punycode keeps their case)
func c17ALabels(d string) (string, bool) {
	if c17HasACE(d) || d != c17Fold(d) {
		return "", false
	}
	ad, err := idna.ToASCII(d)
	if err != nil {
		return "", false
	}
	return ad, true
}

// spelling variants of one valid address: vs[0] is the address itself, the others are respellings of the
// local part (letter case, NFD) combined with respellings of the domain (letter case, NFD, A-labels in any
// letter case, trailing dot, labels spelled independently)
func c17Variants(out *vh.Out, r *vh.Rng, a c17Addr) []string {
	vs := []string{a.mbox + "@" + a.domain}
	nv := 1 + r.Intn(3)
	for j := 0; j < nv; j++ {
		m2, d2 := a.mbox, a.domain
		if r.Chance(70) {
			m2 = c17Respell(out, r, m2)
		}
		literal := strings.HasPrefix(d2, "[")
		switch kind := r.Intn(8); kind {
		case 0, 1, 2:
			d2 = c17Respell(out, r, d2)
		case 3:
			if ad, ok := c17ALabels(d2); ok {
				d2 = ad
			}
		case 4:
			if ad, ok := c17ALabels(d2); ok {
				d2 = asciiUpper(ad)
			}
		case 5:
			if ad, ok := c17ALabels(d2); ok {
				d2 = asciiRandCase(r, ad)
			}
		case 6:
			// one name, labels spelled independently: some as A-labels (any letter case), some respelled
			ls := strings.Split(a.domain, ".")
			for i, l := range ls {
				if r.Bool() {
					if al, ok := c17ALabels(l); ok {
						switch r.Intn(3) {
						case 0:
							al = asciiUpper(al)
						case 1:
							al = asciiRandCase(r, al)
						}
						ls[i] = al
					}
				} else if r.Chance(60) {
					ls[i] = c17Respell(out, r, l)
				}
			}
			d2 = strings.Join(ls, ".")
		}
		if r.Chance(20) && !literal {
			d2 = d2 + "."
		}
		vs = append(vs, m2+"@"+d2)
	}
	return vs
}

func c17SplitAt(a string) (string, string) {
	i := strings.LastIndex(a, "@")
	if i < 0 {
		return a, ""
	}
	return a[:i], a[i+1:]
}

// c17CheckValid: every address maddy accepts (address.Valid) gets a lookup key and a cleaned form.
// Applied to generated addresses, their variants and to every other string the run produces. (That the
// key is a fixed point is checked for the generated addresses in c17Monitor: for arbitrary accepted
// strings such as "u@xn--" -- an empty A-label, key "u" -- the key need not be an address.)
func c17CheckValid(out *vh.Out, x string) {
	if !utf8.ValidString(x) || !Valid(x) {
		out.Stat("validkey.not-valid")
		return
	}
	out.Stat("validkey.checked")
	op := "C17 validkey " + vh.HexRunes(x)
	k, err := ForLookup(x)
	if err != nil {
		out.Violation("C17/valid-address-no-key", op, fmt.Sprintf("Valid(%q) but ForLookup: %v", x, err))
		return
	}
	if _, err := CleanDomain(x); err != nil {
		out.Violation("C17/valid-address-cleandomain-fails", op, fmt.Sprintf("Valid(%q) but CleanDomain: %v", x, err))
	}
	if _, d := c17SplitAt(x); d != "" {
		if _, err := dns.ForLookup(d); err != nil {
			out.Violation("C17/valid-address-no-dns-key", op, fmt.Sprintf("Valid(%q) but dns.ForLookup(%q): %v", x, d, err))
		}
		if _, err := dns.ToUnicode(d); err != nil {
			out.Violation("C17/valid-address-no-dns-key", op, fmt.Sprintf("Valid(%q) but dns.ToUnicode(%q): %v", x, d, err))
		}
	}
	_ = k
}

func c17TrimDot(s string) string { return strings.TrimSuffix(s, ".") }

// c17CheckSplit: whatever Split accepts re-joins to the string it was given (no code point is dropped,
// added or moved), for any string
func c17CheckSplit(out *vh.Out, s string) {
	m, d, err := Split(s)
	if err != nil {
		out.Stat("splitjoin.err")
		return
	}
	j := m
	if d != "" {
		j = m + "@" + d
	}
	if j != s || m == "" || strings.Contains(d, "@") {
		out.Violation("C17/split-join", "C17 split "+vh.HexRunes(s), fmt.Sprintf("Split(%q) = %q %q", s, m, d))
	}
	out.Stat("splitjoin.ok")
}

// c17CheckDistinct: a and b are spellings of DIFFERENT addresses by the harness' own reading (their raw local
// parts resp. their U-label domains differ after NFC + simple lower-casing, and so do the local parts as
// written): they must not share a lookup key, compare Equal or get the same cleaned form.
// The premise is re-evaluated here, so the op is replayable with any pair.
func c17CheckDistinct(out *vh.Out, a, b string) {
	ma, da := c17SplitAt(a)
	mb, db := c17SplitAt(b)
	if !utf8.ValidString(a) || !utf8.ValidString(b) || ma == "" || mb == "" || da == "" || db == "" || c17HasACE(da) || c17HasACE(db) {
		out.Stat("distinct.not-applicable")
		return
	}
	fda, fdb := c17TrimDot(c17Fold(da)), c17TrimDot(c17Fold(db))
	localsDiffer := c17Fold(ma) != c17Fold(mb) && c17Fold(c17Raw(ma)) != c17Fold(c17Raw(mb))
	if !(localsDiffer || fda != fdb) {
		out.Stat("distinct.not-applicable")
		return
	}
	out.Stat("distinct.checked")
	op := "C17 distinct " + vh.HexRunes(a) + " " + vh.HexRunes(b)
	ka, ea := ForLookup(a)
	kb, eb := ForLookup(b)
	if ea == nil && eb == nil && ka == kb {
		out.Violation("C17/distinct-addresses-same-key", op, fmt.Sprintf("ForLookup(%q) = ForLookup(%q) = %q", a, b, ka))
	}
	if Equal(a, b) || Equal(b, a) {
		out.Violation("C17/distinct-addresses-equal", op, fmt.Sprintf("Equal(%q,%q)=true", a, b))
	}
	if fda != fdb {
		xa, e1 := dns.ForLookup(da)
		xb, e2 := dns.ForLookup(db)
		if e1 == nil && e2 == nil && xa == xb {
			out.Violation("C17/distinct-domains-same-dns-key", op, fmt.Sprintf("dns.ForLookup(%q) = dns.ForLookup(%q) = %q", da, db, xa))
		}
		if dns.Equal(da, db) {
			out.Violation("C17/distinct-domains-dns-equal", op, fmt.Sprintf("dns.Equal(%q,%q)=true", da, db))
		}
	}
	ca, e3 := CleanDomain(a)
	cb, e4 := CleanDomain(b)
	if e3 == nil && e4 == nil && ca == cb && (ma != mb || fda != fdb) {
		out.Violation("C17/distinct-addresses-same-cleandomain", op, fmt.Sprintf("CleanDomain(%q) = CleanDomain(%q) = %q", a, b, ca))
	}
}

// tokens of a local part as written: escape pairs of a quoted string stay together
func c17Tokens(m string) []string {
	rs := []rune(m)
	quoted := len(rs) > 0 && rs[0] == '"'
	var ts []string
	for i := 0; i < len(rs); i++ {
		if quoted && rs[i] == '\\' && i+1 < len(rs) {
			ts = append(ts, string(rs[i:i+2]))
			i++
		} else {
			ts = append(ts, string(rs[i]))
		}
	}
	return ts
}

// c17Neighbour: another address, one code point away from a: a code point inserted into / deleted from the
// local part (inside the quotes of a quoted one) or a label of the domain, mostly at the start or the end
func c17Neighbour(r *vh.Rng, a c17Addr) string {
	var x string
	switch r.Intn(10) {
	case 0:
		x = c17CaseLetters[r.Intn(len(c17CaseLetters))]
	case 1:
		x = r.Pick("\u0301", "\u0338", "\u0307", "a", "1", "z", "\u00e9")
	default:
		x = c17Trimmable[r.Intn(len(c17Trimmable))]
	}
	place := func(ts []string, lo, hi int) []string { // insert x at a position in lo..hi, or delete the token there
		p := lo
		switch r.Intn(5) {
		case 0, 1:
		case 2, 3:
			p = hi
		default:
			p = lo + r.Intn(hi-lo+1)
		}
		if r.Chance(15) && hi-lo >= 2 {
			if p == hi {
				p--
			}
			return append(append([]string{}, ts[:p]...), ts[p+1:]...)
		}
		return append(append(append([]string{}, ts[:p]...), x), ts[p:]...)
	}
	// one backslash of a quoted spelling dropped: another local part unless the escape was redundant
	if strings.Contains(a.mbox, "\\") && r.Chance(50) {
		var ps []int
		for i := 0; i < len(a.mbox); i++ {
			if a.mbox[i] == '\\' {
				ps = append(ps, i)
			}
		}
		p := ps[r.Intn(len(ps))]
		return a.mbox[:p] + a.mbox[p+1:] + "@" + a.domain
	}
	// one code point replaced by its compatibility (NFKC) form: U+3000 / U+00A0 -> space, fullwidth -> ASCII ...
	if r.Chance(12) {
		rs := []rune(a.mbox)
		var ps []int
		for i, ch := range rs {
			if k := norm.NFKC.String(string(ch)); k != norm.NFC.String(string(ch)) && !strings.ContainsAny(k, "\"\\@") {
				ps = append(ps, i)
			}
		}
		if len(ps) > 0 {
			p := ps[r.Intn(len(ps))]
			return string(rs[:p]) + norm.NFKC.String(string(rs[p])) + string(rs[p+1:]) + "@" + a.domain
		}
	}
	if r.Chance(25) && !strings.HasPrefix(a.domain, "[") {
		ls := strings.Split(a.domain, ".")
		li := 0 // first or last label most of the time
		if r.Bool() {
			li = len(ls) - 1
		}
		if r.Chance(20) {
			li = r.Intn(len(ls))
		}
		ts := c17Tokens(ls[li])
		ls[li] = strings.Join(place(ts, 0, len(ts)), "")
		return a.mbox + "@" + strings.Join(ls, ".")
	}
	ts := c17Tokens(a.mbox)
	lo, hi := 0, len(ts)
	if _, ok := c17OwnUnquote(a.mbox); ok {
		lo, hi = 1, len(ts)-1
	}
	return strings.Join(place(ts, lo, hi), "") + "@" + a.domain
}

// c17CheckPair: canon and v are spellings of one address (by construction of the generator)
func c17CheckPair(out *vh.Out, canon, v string) {
	vop := "C17 variants " + vh.HexRunes(canon) + " " + vh.HexRunes(v)
	k1, err1 := ForLookup(canon)
	kv, errv := ForLookup(v)
	// the signature names the upper-case ACE prefix only when it is the cause: the same spelling with
	// the prefix in lower case gets the right key
	ace := ""
	if c17UpperACE(v) {
		mv, dv := c17SplitAt(v)
		if kl, _ := ForLookup(mv + "@" + aceCandidate(dv)); kl == k1 {
			ace = "uppercase-ace-prefix-"
		}
	}
	if kv != k1 || (err1 == nil) != (errv == nil) {
		sig := "C17/variant-different-key"
		if ace != "" {
			sig = "C17/uppercase-ace-prefix-different-key"
		}
		out.Violation(sig, vop, fmt.Sprintf("ForLookup(%q)=%q,%v but ForLookup(%q)=%q,%v", canon, k1, err1, v, kv, errv))
	}
	if !Equal(canon, v) || !Equal(v, canon) {
		sig := "C17/variant-not-equal"
		if ace != "" {
			sig = "C17/uppercase-ace-prefix-not-equal"
		}
		out.Violation(sig, vop, fmt.Sprintf("Equal(%q,%q)=false", canon, v))
	}
	// the domains alone
	mc, dc := c17SplitAt(canon)
	mv, dv := c17SplitAt(v)
	if dc != "" && dv != "" {
		kc, e1 := dns.ForLookup(dc)
		kd, e2 := dns.ForLookup(dv)
		if kc != kd || (e1 == nil) != (e2 == nil) {
			out.Violation("C17/variant-different-dns-key", vop, fmt.Sprintf("dns.ForLookup(%q)=%q,%v but dns.ForLookup(%q)=%q,%v", dc, kc, e1, dv, kd, e2))
		}
		if !dns.Equal(dc, dv) || !dns.Equal(dv, dc) {
			out.Violation("C17/variant-dns-not-equal", vop, fmt.Sprintf("dns.Equal(%q,%q)=false", dc, dv))
		}
		// CleanDomain keeps the local part as written and gives every spelling of the domain one form
		// (up to the trailing dot, which CleanDomain keeps)
		cc, e3 := CleanDomain(canon)
		cv, e4 := CleanDomain(v)
		if e3 == nil {
			_, cdc := c17SplitAt(cc)
			mcv, cdv := c17SplitAt(cv)
			if e4 != nil || c17TrimDot(cdc) != c17TrimDot(cdv) || mcv != mv {
				out.Violation("C17/variant-different-cleandomain", vop, fmt.Sprintf("CleanDomain(%q)=%q but CleanDomain(%q)=%q,%v", canon, cc, v, cv, e4))
			}
		}
	}
	_ = mc
	out.Stat("variants.checked")
	if v != canon {
		out.Stat("variants.distinct")
	}
}

func c17Monitor(out *vh.Out, r *vh.Rng, a c17Addr) {
	canon := a.mbox + "@" + a.domain
	op := "C17 laws " + vh.HexRunes(canon)
	c17CheckValid(out, canon)
	if !Valid(canon) {
		out.Note("generated address not accepted by address.Valid: " + canon)
	}
	// idempotence
	k1, err := ForLookup(canon)
	if err != nil {
		out.Violation("C17/valid-address-no-key", op, fmt.Sprintf("generated valid address %q: ForLookup: %v", canon, err))
		return
	}
	k2, err2 := ForLookup(k1)
	if k1 != k2 || err2 != nil {
		out.Violation("C17/forlookup-not-idempotent", op, fmt.Sprintf("%q -> %q -> %q %v", canon, k1, k2, err2))
	}
	c1, err := CleanDomain(canon)
	if err != nil {
		out.Violation("C17/valid-address-cleandomain-fails", op, fmt.Sprintf("generated valid address %q: CleanDomain: %v", canon, err))
	} else {
		c2, _ := CleanDomain(c1)
		if c1 != c2 {
			out.Violation("C17/cleandomain-not-idempotent", op, fmt.Sprintf("%q -> %q -> %q", canon, c1, c2))
		}
	}
	dk1, err := dns.ForLookup(a.domain)
	if err != nil {
		out.Violation("C17/valid-address-no-dns-key", op, fmt.Sprintf("generated valid domain %q: dns.ForLookup: %v", a.domain, err))
	} else if dk2, _ := dns.ForLookup(dk1); dk1 != dk2 {
		out.Violation("C17/dns-forlookup-not-idempotent", op, fmt.Sprintf("%q -> %q -> %q", a.domain, dk1, dk2))
	}
	// variants
	vs := c17Variants(out, r, a)
	for _, v := range vs[1:] {
		c17CheckPair(out, canon, v)
		c17CheckValid(out, v)
	}
	// variants are pairwise equal too (transitivity on concrete triples)
	if len(vs) >= 3 && !Equal(vs[1], vs[2]) {
		out.Violation("C17/variant-not-equal", "C17 variants "+vh.HexRunes(vs[1])+" "+vh.HexRunes(vs[2]), fmt.Sprintf("Equal(%q,%q)=false, both spellings of %q", vs[1], vs[2], canon))
	}
	// split / join
	m, d, err := Split(canon)
	if err != nil || m+"@"+d != canon || m != a.mbox {
		out.Violation("C17/split-join", op, fmt.Sprintf("Split(%q) = %q %q %v", canon, m, d, err))
	}
	c17CheckSpelling(out, a.mbox)
	// a neighbouring, different address is kept apart (also from the variants)
	nb := c17Neighbour(r, a)
	c17CheckDistinct(out, canon, nb)
	c17CheckDistinct(out, nb, vs[len(vs)-1])
	if r.Chance(25) {
		c17Op(out, "equal", canon, nb)
	}
	c17CheckSplit(out, nb)
	c17CheckValid(out, nb)
	// ASCII <-> Unicode: the generated address is in U-label form, so ToUnicode leaves it alone; with an
	// ASCII local part ToASCII succeeds and the two conversions are inverse to one another
	if us, err := ToUnicode(canon); err != nil || us != canon {
		out.Violation("C17/tounicode-changes-u-form", op, fmt.Sprintf("ToUnicode(%q)=%q %v", canon, us, err))
	}
	if IsASCII(a.mbox) {
		as, err := ToASCII(canon)
		if err != nil {
			out.Violation("C17/valid-address-toascii-fails", op, fmt.Sprintf("ToASCII(%q): %v", canon, err))
		} else {
			us, err2 := ToUnicode(as)
			if err2 != nil || us != canon {
				out.Violation("C17/idna-roundtrip", op, fmt.Sprintf("ToUnicode(ToASCII(%q)=%q)=%q %v", canon, as, us, err2))
			}
			if !IsASCII(as) {
				out.Violation("C17/toascii-not-ascii", op, fmt.Sprintf("ToASCII(%q)=%q", canon, as))
			}
			if as2, err3 := ToASCII(us); err2 == nil && (err3 != nil || as2 != as) {
				out.Violation("C17/idna-roundtrip", op, fmt.Sprintf("ToASCII(ToUnicode(%q)=%q)=%q %v", as, us, as2, err3))
			}
		}
	}
}

// a quoted string (by the harness' own reading) unquotes to what it spells, and the raw local part
// survives QuoteMbox / UnquoteMbox
func c17CheckSpelling(out *vh.Out, s string) {
	if !utf8.ValidString(s) {
		return
	}
	raw, ok := c17OwnUnquote(s)
	if !ok {
		return
	}
	out.Stat("ownunquote.checked")
	if u, err := UnquoteMbox(s); err != nil || u != raw {
		out.Violation("C17/unquote-spelling", "C17 unquote "+vh.HexRunes(s), fmt.Sprintf("UnquoteMbox(%q)=%q,%v, spelled %q", s, u, err, raw))
	}
	q := QuoteMbox(raw)
	if u, err := UnquoteMbox(q); err != nil || u != raw {
		out.Violation("C17/unquote-quote", "C17 quote "+vh.HexRunes(raw), fmt.Sprintf("Unquote(Quote(%q)=%q)=%q %v", raw, q, u, err))
	}
}

func c17Strings(out *vh.Out, s, t string) {
	// Equal <=> same key; symmetry
	ks, _ := ForLookup(s)
	kt, _ := ForLookup(t)
	op := "C17 equal " + vh.HexRunes(s) + " " + vh.HexRunes(t)
	if Equal(s, t) != (ks == kt) {
		out.Violation("C17/equal-vs-key", op, fmt.Sprintf("Equal=%v keys %q %q", Equal(s, t), ks, kt))
	}
	if Equal(s, t) != Equal(t, s) {
		out.Violation("C17/equal-not-symmetric", op, "")
	}
	ds, _ := dns.ForLookup(s)
	dt, _ := dns.ForLookup(t)
	dop := "C17 dnsequal " + vh.HexRunes(s) + " " + vh.HexRunes(t)
	if dns.Equal(s, t) != (ds == dt) {
		out.Violation("C17/dns-equal-vs-key", dop, fmt.Sprintf("dns.Equal=%v keys %q %q", dns.Equal(s, t), ds, dt))
	}
	if dns.Equal(s, t) != dns.Equal(t, s) {
		out.Violation("C17/dns-equal-not-symmetric", dop, "")
	}
	c17CheckValid(out, s)
	c17CheckSplit(out, s)
	c17CheckSpelling(out, s)
	if m, d := c17SplitAt(s); d != "" {
		c17CheckSpelling(out, m)
	}
	// IsASCII
	if utf8.ValidString(s) {
		all := true
		for _, ch := range s {
			if ch >= 0x80 {
				all = false
			}
		}
		if IsASCII(s) != all {
			out.Violation("C17/isascii", "C17 isascii "+vh.HexRunes(s), fmt.Sprintf("IsASCII(%q)=%v", s, IsASCII(s)))
		}
		// ToASCII must not accept a non-ASCII local part
		if as, err := ToASCII(s); err == nil {
			for _, ch := range as {
				if ch >= 0x80 {
					out.Violation("C17/toascii-not-ascii", "C17 toascii "+vh.HexRunes(s), fmt.Sprintf("ToASCII(%q)=%q", s, as))
					break
				}
			}
		}
	}
	// quote / unquote
	// (also for raw local parts that themselves look like a quoted string: the quoted form of s, s in
	// bare quotes -- QuoteMbox takes the raw local part, whatever it looks like)
	if s != "" && utf8.ValidString(s) {
		for _, raw := range []string{s, QuoteMbox(s), "\"" + s + "\"", "\"" + strings.ReplaceAll(s, "\"", "") + "\""} {
			q := QuoteMbox(raw)
			u, err := UnquoteMbox(q)
			if err != nil || u != raw {
				out.Violation("C17/unquote-quote", "C17 quote "+vh.HexRunes(raw), fmt.Sprintf("Unquote(Quote(%q)=%q)=%q %v", raw, q, u, err))
			}
		}
	}
}

func c17NoCrash(out *vh.Out, s, t string) {
	defer func() {
		if p := recover(); p != nil {
			out.Violation("C17/panic", "C17 crash "+vh.HexBytes([]byte(s))+" "+vh.HexBytes([]byte(t)), fmt.Sprint(p))
		}
	}()
	ForLookup(s)
	CleanDomain(s)
	Equal(s, t)
	IsASCII(s)
	ToASCII(s)
	ToUnicode(s)
	Split(s)
	QuoteMbox(s)
	UnquoteMbox(s)
	Valid(s)
	ValidMailboxName(s)
	ValidDomain(s)
	PRECISFold(s)
	dns.ForLookup(s)
	dns.Equal(s, t)
	out.Stat("nocrash")
}

func c17Replay(out *vh.Out, op string) {
	toks := strings.Fields(op)
	if i := strings.Index(op, " | "); i >= 0 {
		toks = strings.Fields(op[:i])
	}
	switch toks[1] {
	case "laws":
		canon := vh.UnhexRunes(toks[2])
		i := strings.LastIndex(canon, "@")
		for seed := uint64(0); seed < 64; seed++ {
			c17Monitor(out, vh.NewRng(seed), c17Addr{canon[:i], canon[i+1:]})
		}
	case "variants":
		c17CheckPair(out, vh.UnhexRunes(toks[2]), vh.UnhexRunes(toks[3]))
	case "validkey":
		c17CheckValid(out, vh.UnhexRunes(toks[2]))
	case "distinct":
		c17CheckDistinct(out, vh.UnhexRunes(toks[2]), vh.UnhexRunes(toks[3]))
	case "crash":
		c17NoCrash(out, string(vh.UnhexBytes(toks[2])), string(vh.UnhexBytes(toks[3])))
	default:
		args := []string{}
		for _, t := range toks[2:] {
			args = append(args, vh.UnhexRunes(t))
		}
		c17Op(out, toks[1], args...)
		if len(args) >= 1 {
			t := args[0]
			if len(args) >= 2 {
				t = args[1]
			}
			c17Strings(out, args[0], t)
		}
	}
}

func TestVerifC17(t *testing.T) {
	out := vh.Open("c17")
	defer out.Close()
	if ops := vh.Replay(); ops != nil {
		for _, op := range ops {
			if strings.HasPrefix(op, "C17 ") {
				c17Replay(out, op)
			}
		}
		return
	}
	r := vh.NewRng(vh.Seed() + 17)
	n := vh.N(3000)
	fns1 := []string{"split", "unquote", "quote", "isascii", "toascii", "tounicode", "forlookup", "cleandomain", "dnsforlookup", "valid"}
	for i := 0; i < n; i++ {
		var s, t string
		switch r.Intn(3) {
		case 0: // arbitrary strings over the alphabet
			s, t = c17Random(r, 8), c17Random(r, 8)
		case 1: // valid address and one of its variants
			a := c17Valid(r)
			vs := c17Variants(out, r, a)
			s, t = vs[0], vs[len(vs)-1]
			c17Monitor(out, r, a)
		default: // mutated valid address
			a := c17Valid(r)
			s = a.mbox + "@" + a.domain
			pos := r.Intn(len(s) + 1)
			for !utf8.RuneStart(append([]byte(s), 0)[pos]) {
				pos--
			}
			s = s[:pos] + c17Alphabet[r.Intn(len(c17Alphabet))] + s[pos:]
			t = c17Random(r, 6)
		}
		c17Op(out, fns1[r.Intn(len(fns1))], s)
		if r.Chance(40) {
			c17Op(out, "forlookup", s)
		}
		if r.Chance(30) {
			c17Op(out, r.Pick("equal", "dnsequal"), s, t)
		}
		if r.Chance(50) {
			fv := foldVariant(r, s)
			c17Op(out, r.Pick("equal", "dnsequal"), s, fv)
			c17Strings(out, s, fv)
			c17Strings(out, fv, s)
		}
		c17Strings(out, s, t)
		// crash-freedom over arbitrary bytes
		bs := make([]byte, r.Intn(12))
		for j := range bs {
			bs[j] = byte(r.Intn(256))
		}
		c17NoCrash(out, string(bs), s)
		c17NoCrash(out, s, t)
	}
}
