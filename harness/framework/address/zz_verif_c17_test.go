package address

import (
	"fmt"
	"sort"
	"strings"
	"testing"
	"unicode"
	"unicode/utf8"

	"github.com/foxcpp/maddy/internal/verifshim/vh"
	"golang.org/x/net/idna"
	"golang.org/x/text/unicode/norm"
)

// ---- primitive oracle table shipped to the Lean model ----

type c17Tab struct {
	seen map[string]bool
	rows []string
}

func b01(b bool) string {
	if b {
		return "1"
	}
	return "0"
}

// closure of the primitives over the candidate inputs, depth 3
func c17Table(inputs ...string) string {
	t := &c17Tab{seen: map[string]bool{}}
	frontier := map[string]bool{"": true}
	for _, in := range inputs {
		frontier[in] = true
		for i := 0; i < len(in); i++ {
			if in[i] == '@' {
				frontier[in[:i]] = true
				frontier[in[i+1:]] = true
			}
		}
	}
	done := map[string]bool{}
	for depth := 0; depth < 4; depth++ {
		next := map[string]bool{}
		keys := make([]string, 0, len(frontier))
		for k := range frontier {
			keys = append(keys, k)
		}
		sort.Strings(keys)
		for _, s := range keys {
			if done[s] {
				continue
			}
			done[s] = true
			// rows are keyed by the code points Go's range yields: byte strings that differ only in how an
			// ill-formed sequence is spelled (a raw 0xE9 and a real U+FFFD) share a key -- first one wins
			if hk := vh.HexRunes(s); t.seen[hk] {
				continue
			} else {
				t.seen[hk] = true
			}
			n, l, u, uerr, a, aerr, pok := c17Prims(s)
			if !pok {
				continue // a library primitive panicked (reported): no rows, the model answers MISSING
			}
			t.rows = append(t.rows,
				"n "+vh.HexRunes(s)+" "+vh.HexRunes(n),
				"l "+vh.HexRunes(s)+" "+vh.HexRunes(l),
				"u "+vh.HexRunes(s)+" "+b01(uerr == nil)+" "+vh.HexRunes(u),
				"a "+vh.HexRunes(s)+" "+b01(aerr == nil)+" "+vh.HexRunes(a))
			for _, o := range []string{n, l, u, a, strings.TrimSuffix(s, "."), aceCandidate(s)} {
				if !done[o] {
					next[o] = true
				}
			}
		}
		frontier = next
	}
	return " | " + strings.Join(t.rows, " | ")
}

// candidate input for the model's query toUnicode(lowerACE d): labels carrying the ACE prefix in
// any case, ASCII-lower-cased. Only a candidate generator for the table: a wrong candidate makes
// the model answer MISSING (a divergence), never a silent pass.
func aceCandidate(s string) string {
	labels := strings.Split(s, ".")
	for i, l := range labels {
		if len(l) >= 4 && strings.EqualFold(l[:4], "xn--") {
			labels[i] = asciiLowerStr(l)
		}
	}
	return strings.Join(labels, ".")
}

func asciiLowerStr(s string) string {
	b := []byte(s)
	for i, c := range b {
		if c >= 'A' && c <= 'Z' {
			b[i] = c + 32
		}
	}
	return string(b)
}

func res(s string, err error) string {
	if err != nil {
		return "err " + vh.HexRunes(s)
	}
	return "ok " + vh.HexRunes(s)
}

// ---- one op against the real code ----

// c17Call is the op-line spelling of a call: code points when every argument is well-formed UTF-8,
// otherwise "b" + the arguments as hex BYTES (the model decodes them the way Go's range does)
func c17Call(fn string, args ...string) string {
	valid := true
	for _, a := range args {
		if !utf8.ValidString(a) {
			valid = false
		}
	}
	hex := make([]string, len(args))
	for i, a := range args {
		if valid {
			hex[i] = vh.HexRunes(a)
		} else {
			hex[i] = vh.HexBytes([]byte(a))
		}
	}
	if valid {
		return "C17 " + fn + " " + strings.Join(hex, " ")
	}
	return "C17 b " + fn + " " + strings.Join(hex, " ")
}

func c17Op(out *vh.Out, fn string, args ...string) {
	call := c17Call(fn, args...)
	if strings.HasPrefix(call, "C17 b ") {
		out.Stat("op.bytes." + fn)
	}
	// a call that panics is observed as "panic" (no model function has that outcome: C17_no_panic), the
	// wrapper has reported the violation C17/panic already
	obs, needTab, known := c17Observe(fn, args)
	if !known {
		// a function without a model (crash-freedom only): c17Observe has called it under recover
		out.Stat("op.crash-only." + fn)
		return
	}
	if needTab {
		call += c17Table(args...)
	}
	out.Corr(call, obs)
	out.Stat("op." + fn)
	if obs == "panic" {
		out.Stat("op.panicked." + fn)
	}
}

func c17Observe(fn string, args []string) (obs string, needTab, known bool) {
	defer func() {
		if p := recover(); p != nil {
			if _, ok := p.(c17Abort); !ok {
				panic(p)
			}
			obs = "panic"
		}
	}()
	needTab, known = true, true
	switch fn {
	case "split":
		needTab = false
		m, d, err := c17xSplit(args[0])
		if err != nil {
			obs = "err"
		} else {
			obs = "ok " + vh.HexRunes(m) + " " + vh.HexRunes(d)
		}
	case "unquote":
		needTab = false
		r, err := c17xUnquoteMbox(args[0])
		if err != nil {
			obs = "err"
		} else {
			obs = "ok " + vh.HexRunes(r)
		}
	case "quote":
		needTab = false
		obs = vh.HexRunes(c17xQuoteMbox(args[0]))
	case "isascii":
		needTab = false
		obs = b01(c17xIsASCII(args[0]))
	case "validmbox":
		needTab = false
		obs = b01(c17xValidMailboxName(args[0]))
	case "toascii":
		obs = res(c17xToASCII(args[0]))
	case "tounicode":
		obs = res(c17xToUnicode(args[0]))
	case "forlookup":
		obs = res(c17xForLookup(args[0]))
	case "cleandomain":
		obs = res(c17xCleanDomain(args[0]))
	case "dnsforlookup":
		obs = res(c17xDNSForLookup(args[0]))
	case "dnstounicode":
		obs = res(c17xDNSToUnicode(args[0]))
	case "valid":
		obs = b01(c17xValid(args[0]))
	case "validdomain":
		obs = b01(c17xValidDomain(args[0]))
	case "equal":
		obs = b01(c17xEqual(args[0], args[1]))
	case "dnsequal":
		obs = b01(c17xDNSEqual(args[0], args[1]))
	default:
		known = false
		c17CrashOnly(fn, args)
	}
	return
}

// ---- generators ----

var c17Alphabet = []string{
	"a", "b", "z", "A", "B", "Z", "s", "S", "k", "K", "i", "I", "0", "9", "-", "_", "+", ".", ".", "@", "@",
	"\"", "\\", " ", "(", ")", "<", ">", "[", "]", ":", ";", ",", "!", "#",
	"́", "̈", "̇", "é", "É", "ü", "Ü", "ß", "ẞ", "İ", "ı", "ς", "σ", "Σ", "ſ", "K",
	"µ", "μ", "Μ", "ǅ", "ǆ", "Ǆ", "Ａ", "ａ", "＠", "．", "。", "中", "\u007f", "\u0080", "\u0081", "ÿ",
	"xn--", "XN--", "xn--mnchen-3ya", "XN--MNCHEN-3YA", "xn--e1afmkfd", "xn--a", "xn---", "postmaster", "POSTMASTER", "poſtmaster",
	// non-ASCII white space and other code points a careless "trim" drops (valid in RFC 6531 local parts);
	// U+0338 composes with the specials '<' '>' (and '='), U+037E is canonically ';'
	"\u0085", "\u00a0", "\u2003", "\u3000", "\ufeff", "\u200b", "\u0338", "\u226e", "\u037e", "\t", "\n",
}

func c17Random(r *vh.Rng, maxLen int) string {
	n := r.Intn(maxLen + 1)
	var b strings.Builder
	for i := 0; i < n; i++ {
		b.WriteString(c17Alphabet[r.Intn(len(c17Alphabet))])
	}
	return b.String()
}

var c17Labels = []string{"example", "org", "com", "münchen", "пример", "испытание", "bücher", "例え", "test-1", "mx", "straße", "ελληνικά", "a",
	// ASCII 'i' (Turkish/Azeri/Lithuanian tailorings), Greek sigma in word-final / pre-hyphen / pre-digit position
	// (context-sensitive lower-casing), final sigma, dotless i, letters Lithuanian lower-casing treats specially,
	// right-to-left labels, a ZWNJ in a valid (Persian) context
	"mail", "invalid", "info", "ασ", "σ", "κόσμοσ", "οσ-1", "σ1", "ασ-βσ", "λόγος", "ısı", "ìí", "įj́", "שלום", "مثال", "نامه\u200cای"}

// labels maddy accepts (address.Valid) that are no IDNA2008/STD3 host names: underscores, "--" in
// positions 3-4 without being an A-label, leading/trailing hyphens, digits only, a joiner outside its context
var c17OddLabels = []string{"build_host", "_dmarc", "_", "a_b", "ab--c", "r3--x", "-lead", "trail-", "-", "a-", "-a-", "123", "0", "007", "ns1", "a\u200db",
	"xn", "xn-", "x--", "3com", "a" + strings.Repeat("b", 62) + "c"}

// whole domains that are address literals
var c17Literals = []string{"[192.0.2.1]", "[127.0.0.1]", "[IPv6:2001:db8::1]", "[IPv6:::1]"}

var c17Locals = []string{"user", "bob", "postmaster", "rené", "ünïcode", "first.last", "a+tag", "дима", "q", "x_y", "o'neil", "用户",
	// characters for which case mapping and normalisation interact: U+0130 (lower-cases to plain i, its
	// decomposition I + U+0307 does not), U+01F0 (no precomposed upper case), Greek with tonos, Å (U+212B -> U+00C5)
	"İstanbul", "xİ", "ǰan", "άλφα", "Ångström", "ǆemal", "ﬁsh",
	// sigma at the end of the local part, before '-', '.', '_', '+', a digit; Turkish/Lithuanian/Dutch letters
	"ασ", "σ", "κώστασ", "ασ-1", "ασ1", "νίκοσ.π", "οσ_x", "θωμάσ+tag", "aσ", "ΑΣ", "οδυσσέας", "ılık", "iı", "ìo", "íris", "ĩ", "įj́onas", "j́", "ĳs", "ǉubav", "ŉ"}

// letters whose case mapping is context- or language-sensitive somewhere in x/text/cases
var c17CaseLetters = []string{"σ", "σ", "σ", "ς", "ı", "i", "ì", "í", "į", "j́", "ß", "k", "s"}

// code points a "trim"/"clean-up" step is tempted to drop: Unicode White_Space outside ASCII (U+0085, U+00A0,
// U+1680, U+2000..U+200A, U+2028, U+2029, U+202F, U+205F, U+3000), other C1 controls, BOM / zero-width and
// other default-ignorable format characters, soft hyphen, variation selector, private use, U+FFFD.
// All of them are ordinary characters of an RFC 6531 local part (and of a domain as far as maddy is concerned).
var c17Trimmable = []string{"\u0085", "\u00a0", "\u1680", "\u2000", "\u2002", "\u2003", "\u2009", "\u200a", "\u2028", "\u2029",
	"\u202f", "\u205f", "\u3000", "\u3000", "\u00a0", "\u0080", "\u009f", "\ufeff", "\ufeff", "\u200b", "\u200c", "\u200d", "\u200e", "\u200f",
	"\u2060", "\u00ad", "\u180e", "\u034f", "\ufe0f", "\ue000", "\ufffd", "\U000e0001", "\u115f", "\u3164"}

// c17Edge puts one or two such code points at the start and/or the end of s
func c17Edge(r *vh.Rng, s string) string {
	x := c17Trimmable[r.Intn(len(c17Trimmable))]
	switch r.Intn(5) {
	case 0, 1:
		return x + s
	case 2, 3:
		return s + x
	default:
		return x + s + c17Trimmable[r.Intn(len(c17Trimmable))]
	}
}

// RFC 5322 specials (dot excluded): a local part containing one of them has to be written as a quoted string
var c17Specials = []string{" ", " ", "(", ")", "<", ">", "[", "]", ":", ";", ",", "@", "\\", "\"", "\\", "\""}

// sequences for which NFC changes whether quotes are needed: a special followed by a combining mark it
// composes with ('<' '>' + U+0338 -> U+226E U+226F), the composed forms, '=' + U+0338 (no special involved),
// singletons that normalise TO an ASCII character (U+037E -> ';' a special, U+1FEF -> '`', U+212A -> 'K'),
// a special followed by marks that do not compose with it
var c17QuoteSensitive = []string{"<\u0338", ">\u0338", "<\u0338", ">\u0338", "\u226e", "\u226f", "=\u0338", "\u2260", "\u037e", "\u1fef", "\u212a",
	"<\u0301", " \u0308", ">\u0338\u0301", "<\u0323\u0338", ";\u0301", "\"\u0338", "\\\u0338", "@\u0338", "(\u0338"}

// raw (unquoted, unescaped) local parts that are written as quoted strings
var c17QuotedRaws = []string{"john smith", "a@b", " lead", "trail ", "a,b", "(comment)", "[x]", "a:b;c", "back\\slash", "quo\"te", "\\", "\"", "\"\"",
	"user", "rené", "Bob Σ", "ασ σ1", "İ x", "J. Σ", "x y z", "postmaster", ". .", "a..b", ".dot",
	"<\u0338", ">\u0338", "a<\u0338", "x>\u0338y", "\u226e", "\u226f", "a\u226eb", "=\u0338", "\u2260", "a\u037eb", "\u037e", "<e\u0301>", "<\u0338>\u0338", "Σ<\u0338"}

// the harness' own spelling of a raw local part as an RFC 5321 quoted string (independent of QuoteMbox):
// '\\' and '"' are always escaped, any other character is escaped redundantly with probability pct/100
func c17Spell(r *vh.Rng, raw string, pct int) string {
	var b strings.Builder
	b.WriteByte('"')
	for _, ch := range raw {
		// (an escape in front of a combining mark keeps it from composing with the character before it)
		if ch == '\\' || ch == '"' || r.Chance(pct) || unicode.IsMark(ch) && r.Chance(20) {
			b.WriteByte('\\')
		}
		b.WriteRune(ch)
	}
	b.WriteByte('"')
	return b.String()
}

// the harness' own reading of a quoted string (independent of UnquoteMbox): ok only for `"` qcontent `"`
// with complete escape pairs and a non-empty content
func c17OwnUnquote(m string) (string, bool) {
	rs := []rune(m)
	if len(rs) < 3 || rs[0] != '"' || rs[len(rs)-1] != '"' {
		return "", false
	}
	in := rs[1 : len(rs)-1]
	var b []rune
	for i := 0; i < len(in); i++ {
		switch in[i] {
		case '\\':
			i++
			if i >= len(in) {
				return "", false
			}
			b = append(b, in[i])
		case '"':
			return "", false
		default:
			b = append(b, in[i])
		}
	}
	if len(b) == 0 {
		return "", false
	}
	return string(b), true
}

// the raw local part a spelling stands for
func c17Raw(m string) string {
	if strings.HasPrefix(m, "\"") {
		if raw, ok := c17OwnUnquote(m); ok {
			return raw
		}
	}
	return m
}

func c17InsertAt(r *vh.Rng, s, x string) string {
	rs := []rune(s)
	p := r.Intn(len(rs) + 1)
	return string(rs[:p]) + x + string(rs[p:])
}

// a quoted local part: a raw local part with specials and/or quote-sensitive sequences (or none: redundant
// quotes), spelled with random redundant escapes
func c17QuotedLocal(r *vh.Rng) string {
	var raw string
	if r.Chance(50) {
		raw = c17QuotedRaws[r.Intn(len(c17QuotedRaws))]
	} else {
		raw = c17Locals[r.Intn(len(c17Locals))]
		for k := r.Intn(3); k >= 0; k-- {
			if r.Chance(55) {
				raw = c17InsertAt(r, raw, c17QuoteSensitive[r.Intn(len(c17QuoteSensitive))])
			} else {
				raw = c17InsertAt(r, raw, c17Specials[r.Intn(len(c17Specials))])
			}
		}
	}
	if r.Chance(15) {
		raw = c17Edge(r, raw)
	}
	return c17Spell(r, raw, []int{0, 0, 10, 40}[r.Intn(4)])
}

type c17Addr struct{ mbox, domain string }

// decorate puts one case-sensitive letter at a word boundary of s: at the end, at the start, before a
// '-', '.', '_', '+' or before a digit
func c17Decorate(r *vh.Rng, s string) string {
	l := c17CaseLetters[r.Intn(len(c17CaseLetters))]
	var pos []int
	for i, ch := range s {
		if ch == '-' || ch == '.' || ch == '_' || ch == '+' || (ch >= '0' && ch <= '9') {
			pos = append(pos, i)
		}
	}
	pos = append(pos, len(s), len(s))
	if r.Chance(15) {
		pos = []int{0}
	}
	p := pos[r.Intn(len(pos))]
	return norm.NFC.String(s[:p] + l + s[p:])
}

func c17Valid(r *vh.Rng) c17Addr {
	mbox := c17Locals[r.Intn(len(c17Locals))]
	if r.Chance(20) {
		mbox = c17Decorate(r, mbox)
	}
	switch k := r.Intn(100); {
	case k < 14:
		mbox = c17QuotedLocal(r)
	case k < 26:
		mbox = c17Edge(r, mbox)
	case k < 31:
		// unquoted, with a sequence that composes / normalises to a non-special ASCII graphic
		mbox = c17InsertAt(r, mbox, r.Pick("=\u0338", "\u2260", "\u226e", "\u226f", "\u1fef", "\u212a", "\u0338"))
	}
	if r.Chance(6) {
		return c17Addr{mbox, c17Literals[r.Intn(len(c17Literals))]}
	}
	nl := 1 + r.Intn(3)
	var ls []string
	for i := 0; i < nl; i++ {
		var l string
		if r.Chance(22) {
			l = c17OddLabels[r.Intn(len(c17OddLabels))]
			if len(l) > 40 && !r.Chance(25) {
				l = "a-" // the 64-byte label (the longest ValidDomain accepts) makes very long op lines: keep it rare
			}
		} else {
			l = c17Labels[r.Intn(len(c17Labels))]
			if r.Chance(15) {
				l = c17Decorate(r, l)
			}
		}
		if r.Chance(7) {
			// a label that starts / ends with a "trimmable" code point (kept in NFC: the generated address is in U-form)
			if e := c17Edge(r, l); norm.NFC.IsNormalString(e) && len(e) < 60 {
				l = e
			}
		}
		ls = append(ls, l)
	}
	return c17Addr{mbox, strings.Join(ls, ".")}
}

// ---- the harness' own notion of "spelling variant" (independent of the code under test) ----

// c17Fold: NFC, then the simple (one code point to one code point, context-free) lower-case mapping of
// the Unicode character database. Two local parts are letter-case / normalisation variants of one another
// exactly when their folds agree.
func c17Fold(s string) string {
	var b strings.Builder
	for _, ch := range norm.NFC.String(s) {
		b.WriteRune(unicode.ToLower(ch))
	}
	return b.String()
}

func c17HasACE(d string) bool {
	for _, l := range strings.Split(d, ".") {
		if len(l) >= 4 && strings.EqualFold(l[:4], "xn--") {
			return true
		}
	}
	return false
}

func c17UpperACE(d string) bool {
	for _, l := range strings.Split(d, ".") {
		if len(l) >= 4 && strings.EqualFold(l[:4], "xn--") && l[:4] != "xn--" {
			return true
		}
	}
	return false
}

// random letter-case respelling: every rune is replaced by its simple lower-, upper- or title-case form
func caseVariant(r *vh.Rng, s string) string {
	var b strings.Builder
	for _, ch := range s {
		switch r.Intn(4) {
		case 0:
			b.WriteRune(unicode.ToUpper(ch))
		case 1:
			b.WriteRune(unicode.ToLower(ch))
		case 2:
			b.WriteRune(unicode.ToTitle(ch))
		default:
			b.WriteRune(ch)
		}
	}
	return b.String()
}

// upper-case the runes of the last word only / of every word's last letter (word-final positions)
func finalUpper(s string) string {
	rs := []rune(s)
	for i, ch := range rs {
		last := i == len(rs)-1 || !unicode.IsLetter(rs[i+1]) && !unicode.IsMark(rs[i+1])
		if last {
			rs[i] = unicode.ToUpper(ch)
		}
	}
	return string(rs)
}

// one respelling of a U-form string (local part or domain in U-labels); the result is only used when the
// harness' own fold says it is a variant of s
func c17Respell(out *vh.Out, r *vh.Rng, s string) string {
	var c string
	k := r.Intn(10)
	switch k {
	case 9:
		// the canonical spelling need not be in NFC ('<' + U+0338 inside quotes)
		c = norm.NFC.String(s)
		if c == s {
			c = norm.NFD.String(s)
		}
	case 0:
		c = norm.NFD.String(s)
	case 1:
		c = caseVariant(r, s)
	case 2, 3:
		c = strings.ToUpper(s)
	case 4:
		c = strings.ToTitle(s)
	case 5:
		c = finalUpper(s)
	case 6:
		c = norm.NFD.String(strings.ToUpper(s))
	case 7:
		c = strings.ToUpper(norm.NFD.String(s))
	default:
		c = caseVariant(r, norm.NFD.String(s))
	}
	if c17Fold(c) != c17Fold(s) {
		out.Stat(fmt.Sprintf("respell.%d.not-a-variant", k))
		return s
	}
	if c != s {
		out.Stat(fmt.Sprintf("respell.%d", k))
	}
	return c
}

func asciiUpper(s string) string {
	b := []byte(s)
	for i, c := range b {
		if c >= 'a' && c <= 'z' {
			b[i] = c - 32
		}
	}
	return string(b)
}

func asciiRandCase(r *vh.Rng, s string) string {
	b := []byte(s)
	for i, c := range b {
		if c >= 'a' && c <= 'z' && r.Bool() {
			b[i] = c - 32
		}
	}
	return string(b)
}

// foldVariant replaces runes by other members of their simple case-folding orbit
// (what strings.EqualFold identifies): 's'/'S'/'ſ', 'σ'/'ς'/'Σ', 'µ'/'μ', 'k'/'K'/Kelvin ...
func foldVariant(r *vh.Rng, s string) string {
	var b strings.Builder
	for _, ch := range s {
		if r.Chance(50) {
			f := unicode.SimpleFold(ch)
			if r.Bool() {
				f = unicode.SimpleFold(f)
			}
			b.WriteRune(f)
		} else {
			b.WriteRune(ch)
		}
	}
	return b.String()
}

// A-label spelling of a domain given in U-labels; ok=false when the labels would not survive the trip
// (a label that already looks like an A-label, or one with upper-case letters: Punycode keeps their case)
func c17ALabels(d string) (string, bool) {
	if c17HasACE(d) || d != c17Fold(d) {
		return "", false
	}
	ad, err := idna.ToASCII(d)
	if err != nil {
		return "", false
	}
	return ad, true
}

// spelling variants of one valid address: vs[0] is the address itself, the others are respellings of the
// local part (letter case, NFD) combined with respellings of the domain (letter case, NFD, A-labels in any
// letter case, trailing dot, labels spelled independently)
func c17Variants(out *vh.Out, r *vh.Rng, a c17Addr) []string {
	vs := []string{a.mbox + "@" + a.domain}
	nv := 1 + r.Intn(3)
	for j := 0; j < nv; j++ {
		m2, d2 := a.mbox, a.domain
		if r.Chance(70) {
			m2 = c17Respell(out, r, m2)
		}
		literal := strings.HasPrefix(d2, "[")
		switch kind := r.Intn(8); kind {
		case 0, 1, 2:
			d2 = c17Respell(out, r, d2)
		case 3:
			if ad, ok := c17ALabels(d2); ok {
				d2 = ad
			}
		case 4:
			if ad, ok := c17ALabels(d2); ok {
				d2 = asciiUpper(ad)
			}
		case 5:
			if ad, ok := c17ALabels(d2); ok {
				d2 = asciiRandCase(r, ad)
			}
		case 6:
			// one name, labels spelled independently: some as A-labels (any letter case), some respelled
			ls := strings.Split(a.domain, ".")
			for i, l := range ls {
				if r.Bool() {
					if al, ok := c17ALabels(l); ok {
						switch r.Intn(3) {
						case 0:
							al = asciiUpper(al)
						case 1:
							al = asciiRandCase(r, al)
						}
						ls[i] = al
					}
				} else if r.Chance(60) {
					ls[i] = c17Respell(out, r, l)
				}
			}
			d2 = strings.Join(ls, ".")
		}
		if r.Chance(20) && !literal {
			d2 = d2 + "."
		}
		vs = append(vs, m2+"@"+d2)
	}
	return vs
}

func c17SplitAt(a string) (string, string) {
	i := strings.LastIndex(a, "@")
	if i < 0 {
		return a, ""
	}
	return a[:i], a[i+1:]
}

// c17CheckValid: every address maddy accepts (address.Valid) gets a lookup key and a cleaned form.
// Applied to generated addresses, their variants and to every other string the run produces. (That the
// key is a fixed point is checked for the generated addresses in c17Monitor: for arbitrary accepted
// strings such as "u@xn--" -- an empty A-label, key "u" -- the key need not be an address.)
func c17CheckValid(out *vh.Out, x string) {
	defer c17Recover()
	if !utf8.ValidString(x) || !c17xValid(x) {
		out.Stat("validkey.not-valid")
		return
	}
	out.Stat("validkey.checked")
	op := "C17 validkey " + vh.HexRunes(x)
	k, err := c17xForLookup(x)
	if err != nil {
		out.Violation("C17/valid-address-no-key", op, fmt.Sprintf("Valid(%q) but ForLookup: %v", x, err))
		return
	}
	if _, err := c17xCleanDomain(x); err != nil {
		out.Violation("C17/valid-address-cleandomain-fails", op, fmt.Sprintf("Valid(%q) but CleanDomain: %v", x, err))
	}
	if _, d := c17SplitAt(x); d != "" {
		if _, err := c17xDNSForLookup(d); err != nil {
			out.Violation("C17/valid-address-no-dns-key", op, fmt.Sprintf("Valid(%q) but dns.ForLookup(%q): %v", x, d, err))
		}
		if _, err := c17xDNSToUnicode(d); err != nil {
			out.Violation("C17/valid-address-no-dns-key", op, fmt.Sprintf("Valid(%q) but dns.ToUnicode(%q): %v", x, d, err))
		}
	}
	_ = k
}

func c17TrimDot(s string) string { return strings.TrimSuffix(s, ".") }

// c17CheckSplit: whatever Split accepts re-joins to the string it was given (no code point is dropped,
// added or moved), for any string
func c17CheckSplit(out *vh.Out, s string) {
	defer c17Recover()
	m, d, err := c17xSplit(s)
	if err != nil {
		out.Stat("splitjoin.err")
		return
	}
	j := m
	if d != "" {
		j = m + "@" + d
	}
	if j != s || m == "" || strings.Contains(d, "@") {
		out.Violation("C17/split-join", "C17 split "+vh.HexRunes(s), fmt.Sprintf("Split(%q) = %q %q", s, m, d))
	}
	out.Stat("splitjoin.ok")
}

// c17CheckDistinct: a and b are spellings of DIFFERENT addresses by the harness' own reading (their raw local
// parts resp. their U-label domains differ after NFC + simple lower-casing, and so do the local parts as
// written): they must not share a lookup key, compare Equal or get the same cleaned form.
// The premise is re-evaluated here, so the op is replayable with any pair.
func c17CheckDistinct(out *vh.Out, a, b string) {
	defer c17Recover()
	ma, da := c17SplitAt(a)
	mb, db := c17SplitAt(b)
	if !utf8.ValidString(a) || !utf8.ValidString(b) || ma == "" || mb == "" || da == "" || db == "" || c17HasACE(da) || c17HasACE(db) {
		out.Stat("distinct.not-applicable")
		return
	}
	fda, fdb := c17TrimDot(c17Fold(da)), c17TrimDot(c17Fold(db))
	localsDiffer := c17Fold(ma) != c17Fold(mb) && c17Fold(c17Raw(ma)) != c17Fold(c17Raw(mb))
	if !(localsDiffer || fda != fdb) {
		out.Stat("distinct.not-applicable")
		return
	}
	out.Stat("distinct.checked")
	op := "C17 distinct " + vh.HexRunes(a) + " " + vh.HexRunes(b)
	ka, ea := c17xForLookup(a)
	kb, eb := c17xForLookup(b)
	if ea == nil && eb == nil && ka == kb {
		out.Violation("C17/distinct-addresses-same-key", op, fmt.Sprintf("ForLookup(%q) = ForLookup(%q) = %q", a, b, ka))
	}
	if c17xEqual(a, b) || c17xEqual(b, a) {
		out.Violation("C17/distinct-addresses-equal", op, fmt.Sprintf("Equal(%q,%q)=true", a, b))
	}
	if fda != fdb {
		xa, e1 := c17xDNSForLookup(da)
		xb, e2 := c17xDNSForLookup(db)
		if e1 == nil && e2 == nil && xa == xb {
			out.Violation("C17/distinct-domains-same-dns-key", op, fmt.Sprintf("dns.ForLookup(%q) = dns.ForLookup(%q) = %q", da, db, xa))
		}
		if c17xDNSEqual(da, db) {
			out.Violation("C17/distinct-domains-dns-equal", op, fmt.Sprintf("dns.Equal(%q,%q)=true", da, db))
		}
	}
	ca, e3 := c17xCleanDomain(a)
	cb, e4 := c17xCleanDomain(b)
	if e3 == nil && e4 == nil && ca == cb && (ma != mb || fda != fdb) {
		out.Violation("C17/distinct-addresses-same-cleandomain", op, fmt.Sprintf("CleanDomain(%q) = CleanDomain(%q) = %q", a, b, ca))
	}
}

// tokens of a local part as written: escape pairs of a quoted string stay together
func c17Tokens(m string) []string {
	rs := []rune(m)
	quoted := len(rs) > 0 && rs[0] == '"'
	var ts []string
	for i := 0; i < len(rs); i++ {
		if quoted && rs[i] == '\\' && i+1 < len(rs) {
			ts = append(ts, string(rs[i:i+2]))
			i++
		} else {
			ts = append(ts, string(rs[i]))
		}
	}
	return ts
}

// c17Neighbour: another address, one code point away from a: a code point inserted into / deleted from the
// local part (inside the quotes of a quoted one) or a label of the domain, mostly at the start or the end
func c17Neighbour(r *vh.Rng, a c17Addr) string {
	var x string
	switch r.Intn(10) {
	case 0:
		x = c17CaseLetters[r.Intn(len(c17CaseLetters))]
	case 1:
		x = r.Pick("\u0301", "\u0338", "\u0307", "a", "1", "z", "\u00e9")
	default:
		x = c17Trimmable[r.Intn(len(c17Trimmable))]
	}
	place := func(ts []string, lo, hi int) []string { // insert x at a position in lo..hi, or delete the token there
		p := lo
		switch r.Intn(5) {
		case 0, 1:
		case 2, 3:
			p = hi
		default:
			p = lo + r.Intn(hi-lo+1)
		}
		if r.Chance(15) && hi-lo >= 2 {
			if p == hi {
				p--
			}
			return append(append([]string{}, ts[:p]...), ts[p+1:]...)
		}
		return append(append(append([]string{}, ts[:p]...), x), ts[p:]...)
	}
	// one backslash of a quoted spelling dropped: another local part unless the escape was redundant
	if strings.Contains(a.mbox, "\\") && r.Chance(50) {
		var ps []int
		for i := 0; i < len(a.mbox); i++ {
			if a.mbox[i] == '\\' {
				ps = append(ps, i)
			}
		}
		p := ps[r.Intn(len(ps))]
		return a.mbox[:p] + a.mbox[p+1:] + "@" + a.domain
	}
	// one code point replaced by its compatibility (NFKC) form: U+3000 / U+00A0 -> space, fullwidth -> ASCII ...
	if r.Chance(12) {
		rs := []rune(a.mbox)
		var ps []int
		for i, ch := range rs {
			if k := norm.NFKC.String(string(ch)); k != norm.NFC.String(string(ch)) && !strings.ContainsAny(k, "\"\\@") {
				ps = append(ps, i)
			}
		}
		if len(ps) > 0 {
			p := ps[r.Intn(len(ps))]
			return string(rs[:p]) + norm.NFKC.String(string(rs[p])) + string(rs[p+1:]) + "@" + a.domain
		}
	}
	if r.Chance(25) && !strings.HasPrefix(a.domain, "[") {
		ls := strings.Split(a.domain, ".")
		li := 0 // first or last label most of the time
		if r.Bool() {
			li = len(ls) - 1
		}
		if r.Chance(20) {
			li = r.Intn(len(ls))
		}
		ts := c17Tokens(ls[li])
		ls[li] = strings.Join(place(ts, 0, len(ts)), "")
		return a.mbox + "@" + strings.Join(ls, ".")
	}
	ts := c17Tokens(a.mbox)
	lo, hi := 0, len(ts)
	if _, ok := c17OwnUnquote(a.mbox); ok {
		lo, hi = 1, len(ts)-1
	}
	return strings.Join(place(ts, lo, hi), "") + "@" + a.domain
}

// c17CheckPair: canon and v are spellings of one address (by construction of the generator)
func c17CheckPair(out *vh.Out, canon, v string) {
	defer c17Recover()
	vop := "C17 variants " + vh.HexRunes(canon) + " " + vh.HexRunes(v)
	k1, err1 := c17xForLookup(canon)
	kv, errv := c17xForLookup(v)
	// the signature names the upper-case ACE prefix only when it is the cause: the same spelling with
	// the prefix in lower case gets the right key
	ace := ""
	if c17UpperACE(v) {
		mv, dv := c17SplitAt(v)
		if kl, _ := c17xForLookup(mv + "@" + aceCandidate(dv)); kl == k1 {
			ace = "uppercase-ace-prefix-"
		}
	}
	if kv != k1 || (err1 == nil) != (errv == nil) {
		sig := "C17/variant-different-key"
		if ace != "" {
			sig = "C17/uppercase-ace-prefix-different-key"
		}
		out.Violation(sig, vop, fmt.Sprintf("ForLookup(%q)=%q,%v but ForLookup(%q)=%q,%v", canon, k1, err1, v, kv, errv))
	}
	if !c17xEqual(canon, v) || !c17xEqual(v, canon) {
		sig := "C17/variant-not-equal"
		if ace != "" {
			sig = "C17/uppercase-ace-prefix-not-equal"
		}
		out.Violation(sig, vop, fmt.Sprintf("Equal(%q,%q)=false", canon, v))
	}
	// the domains alone
	mc, dc := c17SplitAt(canon)
	mv, dv := c17SplitAt(v)
	if dc != "" && dv != "" {
		kc, e1 := c17xDNSForLookup(dc)
		kd, e2 := c17xDNSForLookup(dv)
		if kc != kd || (e1 == nil) != (e2 == nil) {
			out.Violation("C17/variant-different-dns-key", vop, fmt.Sprintf("dns.ForLookup(%q)=%q,%v but dns.ForLookup(%q)=%q,%v", dc, kc, e1, dv, kd, e2))
		}
		if !c17xDNSEqual(dc, dv) || !c17xDNSEqual(dv, dc) {
			out.Violation("C17/variant-dns-not-equal", vop, fmt.Sprintf("dns.Equal(%q,%q)=false", dc, dv))
		}
		// CleanDomain keeps the local part as written and gives every spelling of the domain one form
		// (up to the trailing dot, which CleanDomain keeps)
		cc, e3 := c17xCleanDomain(canon)
		cv, e4 := c17xCleanDomain(v)
		if e3 == nil {
			_, cdc := c17SplitAt(cc)
			mcv, cdv := c17SplitAt(cv)
			if e4 != nil || c17TrimDot(cdc) != c17TrimDot(cdv) || mcv != mv {
				out.Violation("C17/variant-different-cleandomain", vop, fmt.Sprintf("CleanDomain(%q)=%q but CleanDomain(%q)=%q,%v", canon, cc, v, cv, e4))
			}
		}
	}
	_ = mc
	out.Stat("variants.checked")
	if v != canon {
		out.Stat("variants.distinct")
	}
}

func c17Monitor(out *vh.Out, r *vh.Rng, a c17Addr) {
	defer c17Recover()
	canon := a.mbox + "@" + a.domain
	op := "C17 laws " + vh.HexRunes(canon)
	c17CheckValid(out, canon)
	if !c17xValid(canon) {
		out.Note("generated address not accepted by address.Valid: " + canon)
	}
	// idempotence
	k1, err := c17xForLookup(canon)
	if err != nil {
		out.Violation("C17/valid-address-no-key", op, fmt.Sprintf("generated valid address %q: ForLookup: %v", canon, err))
		return
	}
	k2, err2 := c17xForLookup(k1)
	if k1 != k2 || err2 != nil {
		out.Violation("C17/forlookup-not-idempotent", op, fmt.Sprintf("%q -> %q -> %q %v", canon, k1, k2, err2))
	}
	c1, err := c17xCleanDomain(canon)
	if err != nil {
		out.Violation("C17/valid-address-cleandomain-fails", op, fmt.Sprintf("generated valid address %q: CleanDomain: %v", canon, err))
	} else {
		c2, _ := c17xCleanDomain(c1)
		if c1 != c2 {
			out.Violation("C17/cleandomain-not-idempotent", op, fmt.Sprintf("%q -> %q -> %q", canon, c1, c2))
		}
	}
	dk1, err := c17xDNSForLookup(a.domain)
	if err != nil {
		out.Violation("C17/valid-address-no-dns-key", op, fmt.Sprintf("generated valid domain %q: dns.ForLookup: %v", a.domain, err))
	} else if dk2, _ := c17xDNSForLookup(dk1); dk1 != dk2 {
		out.Violation("C17/dns-forlookup-not-idempotent", op, fmt.Sprintf("%q -> %q -> %q", a.domain, dk1, dk2))
	}
	// variants
	vs := c17Variants(out, r, a)
	for _, v := range vs[1:] {
		c17CheckPair(out, canon, v)
		c17CheckValid(out, v)
	}
	// variants are pairwise equal too (transitivity on concrete triples)
	if len(vs) >= 3 && !c17xEqual(vs[1], vs[2]) {
		out.Violation("C17/variant-not-equal", "C17 variants "+vh.HexRunes(vs[1])+" "+vh.HexRunes(vs[2]), fmt.Sprintf("Equal(%q,%q)=false, both spellings of %q", vs[1], vs[2], canon))
	}
	// split / join
	m, d, err := c17xSplit(canon)
	if err != nil || m+"@"+d != canon || m != a.mbox {
		out.Violation("C17/split-join", op, fmt.Sprintf("Split(%q) = %q %q %v", canon, m, d, err))
	}
	c17CheckSpelling(out, a.mbox)
	// a neighbouring, different address is kept apart (also from the variants)
	nb := c17Neighbour(r, a)
	c17CheckDistinct(out, canon, nb)
	c17CheckDistinct(out, nb, vs[len(vs)-1])
	if r.Chance(25) {
		c17Op(out, "equal", canon, nb)
	}
	c17CheckSplit(out, nb)
	c17CheckValid(out, nb)
	// ASCII <-> Unicode: the generated address is in U-label form, so ToUnicode leaves it alone; with an
	// ASCII local part ToASCII succeeds and the two conversions are inverse to one another
	if us, err := c17xToUnicode(canon); err != nil || us != canon {
		out.Violation("C17/tounicode-changes-u-form", op, fmt.Sprintf("ToUnicode(%q)=%q %v", canon, us, err))
	}
	if c17xIsASCII(a.mbox) {
		as, err := c17xToASCII(canon)
		if err != nil {
			out.Violation("C17/valid-address-toascii-fails", op, fmt.Sprintf("ToASCII(%q): %v", canon, err))
		} else {
			us, err2 := c17xToUnicode(as)
			if err2 != nil || us != canon {
				out.Violation("C17/idna-roundtrip", op, fmt.Sprintf("ToUnicode(ToASCII(%q)=%q)=%q %v", canon, as, us, err2))
			}
			if !c17xIsASCII(as) {
				out.Violation("C17/toascii-not-ascii", op, fmt.Sprintf("ToASCII(%q)=%q", canon, as))
			}
			if as2, err3 := c17xToASCII(us); err2 == nil && (err3 != nil || as2 != as) {
				out.Violation("C17/idna-roundtrip", op, fmt.Sprintf("ToASCII(ToUnicode(%q)=%q)=%q %v", as, us, as2, err3))
			}
		}
	}
}

// a quoted string (by the harness' own reading) unquotes to what it spells, and the raw local part
// survives QuoteMbox / UnquoteMbox
func c17CheckSpelling(out *vh.Out, s string) {
	defer c17Recover()
	if !utf8.ValidString(s) {
		return
	}
	raw, ok := c17OwnUnquote(s)
	if !ok {
		return
	}
	out.Stat("ownunquote.checked")
	if u, err := c17xUnquoteMbox(s); err != nil || u != raw {
		out.Violation("C17/unquote-spelling", "C17 unquote "+vh.HexRunes(s), fmt.Sprintf("UnquoteMbox(%q)=%q,%v, spelled %q", s, u, err, raw))
	}
	q := c17xQuoteMbox(raw)
	if u, err := c17xUnquoteMbox(q); err != nil || u != raw {
		out.Violation("C17/unquote-quote", "C17 quote "+vh.HexRunes(raw), fmt.Sprintf("Unquote(Quote(%q)=%q)=%q %v", raw, q, u, err))
	}
}

func c17Strings(out *vh.Out, s, t string) {
	defer c17Recover()
	// Equal <=> same key; symmetry
	ks, es := c17xForLookup(s)
	kt, et := c17xForLookup(t)
	op := c17Call("equal", s, t)
	if c17xEqual(s, t) != (ks == kt) {
		// the signature says on which branch of ForLookup the two disagree: both keys computed, a domain that
		// cannot be normalised (the key is the lower-cased whole string), an address that does not split
		sig := "C17/equal-vs-key"
		if es != nil || et != nil {
			sig = "C17/equal-vs-key-undecodable-domain"
			_, _, e1 := c17xSplit(s)
			_, _, e2 := c17xSplit(t)
			if (es != nil && e1 != nil) || (et != nil && e2 != nil) {
				sig = "C17/equal-vs-key-malformed"
			}
		}
		out.Violation(sig, op, fmt.Sprintf("Equal=%v keys %q,%v %q,%v", c17xEqual(s, t), ks, es, kt, et))
	}
	if c17xEqual(s, t) != c17xEqual(t, s) {
		out.Violation("C17/equal-not-symmetric", op, "")
	}
	ds, _ := c17xDNSForLookup(s)
	dt, _ := c17xDNSForLookup(t)
	dop := c17Call("dnsequal", s, t)
	if c17xDNSEqual(s, t) != (ds == dt) {
		out.Violation("C17/dns-equal-vs-key", dop, fmt.Sprintf("dns.Equal=%v keys %q %q", c17xDNSEqual(s, t), ds, dt))
	}
	if c17xDNSEqual(s, t) != c17xDNSEqual(t, s) {
		out.Violation("C17/dns-equal-not-symmetric", dop, "")
	}
	c17CheckValid(out, s)
	c17CheckSplit(out, s)
	c17CheckSpelling(out, s)
	if m, d := c17SplitAt(s); d != "" {
		c17CheckSpelling(out, m)
	}
	// IsASCII: true exactly when every character is below U+0080 -- on Go's reading of a string (range
	// yields U+FFFD for every byte that is not part of a well-formed sequence) that is: every BYTE is below
	// 0x80. Evaluated on the bytes, for every string of the run, well-formed or not.
	all := true
	for i := 0; i < len(s); i++ {
		if s[i] >= 0x80 {
			all = false
		}
	}
	if utf8.ValidString(s) {
		out.Stat(fmt.Sprintf("isascii.wellformed.%v", all))
	} else {
		out.Stat("isascii.illformed")
	}
	if c17xIsASCII(s) != all {
		out.Violation("C17/isascii", c17Call("isascii", s), fmt.Sprintf("IsASCII(%q)=%v", s, c17xIsASCII(s)))
	}
	// ToASCII: whatever it returns without an error is ASCII (a non-ASCII local part -- ill-formed bytes
	// included -- is refused, the domain comes back in A-labels)
	if as, err := c17xToASCII(s); err == nil {
		out.Stat("toascii.ok")
		for i := 0; i < len(as); i++ {
			if as[i] >= 0x80 {
				out.Violation("C17/toascii-not-ascii", c17Call("toascii", s), fmt.Sprintf("ToASCII(%q)=%q", s, as))
				break
			}
		}
	} else if m, _ := c17SplitAt(s); !all && strings.IndexFunc(m, func(ch rune) bool { return ch >= 0x80 }) >= 0 {
		out.Stat("toascii.refused-non-ascii-local")
	}
	// ToUnicode keeps the local part (bytes as written) and never turns an ASCII-only address into a non-ASCII
	// one without an A-label in it
	if us, err := c17xToUnicode(s); err == nil {
		m, d := c17SplitAt(s)
		if d != "" && !strings.HasPrefix(us, m+"@") {
			out.Violation("C17/tounicode-changes-local-part", c17Call("tounicode", s), fmt.Sprintf("ToUnicode(%q)=%q", s, us))
		}
	}
	// quote / unquote
	// (also for raw local parts that themselves look like a quoted string: the quoted form of s, s in
	// bare quotes -- QuoteMbox takes the raw local part, whatever it looks like)
	if s != "" && utf8.ValidString(s) {
		for _, raw := range []string{s, c17xQuoteMbox(s), "\"" + s + "\"", "\"" + strings.ReplaceAll(s, "\"", "") + "\""} {
			q := c17xQuoteMbox(raw)
			u, err := c17xUnquoteMbox(q)
			if err != nil || u != raw {
				out.Violation("C17/unquote-quote", "C17 quote "+vh.HexRunes(raw), fmt.Sprintf("Unquote(Quote(%q)=%q)=%q %v", raw, q, u, err))
			}
		}
	}
}

// ---- pairs for the oracle "Equal <=> the two ForLookup keys are equal": every domain class x every
// local-part equivalence row (round 8) ----

// rows of local parts that are "the same" under some notion of equivalence (canonical, letter case, width,
// case folding, quoting); whether two members share a key is for the code to decide -- the oracle only says
// that Equal and key equality agree on it
var c17LocalRows = [][]string{
	{"É", "É", "é", "é"},
	{"rené", "RENÉ", "rené", "RENÉ", "René"},
	{"öl", "öl", "ÖL", "ÖL"},
	{"ａ", "a", "Ａ", "A"},
	{"İ", "i̇", "İ", "i", "ı", "I"},
	{"xİy", "xi̇y", "XİY", "xiy"},
	{"σ", "ς", "Σ"},
	{"ας", "ΑΣ", "ασ"},
	{"Å", "Å", "Å", "å", "å"},
	{"K", "k", "K"},
	{"ǰ", "J̌", "ǰ"},
	{"ﬁsh", "fish", "FISH"},
	{"ß", "ss", "ẞ", "SS"},
	{"user", "USER", "User", "\"user\"", "\"us\\er\"", "\"USER\""},
	{"ſ", "s", "S"},
	{"µ", "μ", "Μ"},
	{"ǆ", "ǅ", "Ǆ"},
	{"q̣̇", "q̣̇", "Q̣̇"},
	{"ṩ", "ṩ", "ṩ", "Ṩ"},
	{"가", "가"},
	{"a b", "\"a b\"", "\"A b\"", "\"a\\ b\""},
	{"postmaster", "POSTMASTER", "poſtmaster"},
}

type c17DomClass struct {
	name string
	doms []string
}

// domains by what the normalisation makes of them
var c17DomClasses = []c17DomClass{
	{"valid-u", []string{"example.org", "münchen.de", "ασ.gr", "a", "straße.example", "münchen.de"}},
	{"valid-a", []string{"xn--mnchen-3ya.de", "xn--e1afmkfd.xn--p1ai", "xn--strae-oqa.example", "mail.xn--mnchen-3ya.de"}},
	// A-labels that do not decode: overflow, bad digits, empty / dangling delimiter, non-ASCII inside
	{"bad-punycode", []string{"xn--99999999999.example.org", "xn--a", "xn---", "xn--zz--.example", "xn--mnchen-3yaü.de", "xn--é", "xn--ı",
		"ok.xn--9999999", "xn--a.xn--b", "xn--99999999999", "mail.xn--99999999999.example.org", "xn--mnchen-3yA9.de", "xn--!", "xn--a-.b"}},
	// code points no host name may contain
	{"disallowed", []string{"exa mple.org", "a\u0000b", "ex ample.org", "a\\b.org", "a,b", "-.-", "☃.net", "́a.org", "a‍b.org",
		"bad!.org", "<>.org", "é́.org", "�.org", "a­b.org", "\U000e0001.org", "A̸.ORG"}},
	{"over-long", []string{"a" + strings.Repeat("b", 63) + ".org", "xn--" + strings.Repeat("a", 70), strings.Repeat("é", 40) + ".de",
		strings.Repeat(strings.Repeat("a", 30)+".", 9) + "org", "xn--" + strings.Repeat("9", 30) + ".org"}},
	{"empty-label", []string{"a..b", ".a", "a.", ".", "..", "a...", "xn--", "xn--.", "xn--.org", ".xn--a", "a..xn--99999999999"}},
	{"literal", []string{"[127.0.0.1]", "[IPv6:::1]", "[bad", "[xn--9999]", "[XN--99999999999.1]"}},
}

// another spelling of a domain (same name, another name, or another class altogether)
func c17DomRespell(r *vh.Rng, cl c17DomClass, d string) string {
	switch r.Intn(12) {
	case 0, 1, 2, 3:
		return d
	case 4:
		return asciiUpper(d)
	case 5:
		return asciiRandCase(r, d)
	case 6:
		return strings.ToUpper(d)
	case 7:
		return norm.NFD.String(d)
	case 8:
		if strings.HasSuffix(d, ".") {
			return strings.TrimSuffix(d, ".")
		}
		return d + "."
	case 9:
		if u, err := idna.ToUnicode(asciiLowerStr(d)); err == nil && r.Bool() {
			return u
		}
		if a, err := idna.ToASCII(d); err == nil {
			return a
		}
		return caseVariant(r, d)
	case 10:
		return cl.doms[r.Intn(len(cl.doms))]
	default:
		o := c17DomClasses[r.Intn(len(c17DomClasses))]
		return o.doms[r.Intn(len(o.doms))]
	}
}

// c17KeyPair: two addresses built from one local-part row and one domain class
func c17KeyPair(out *vh.Out, r *vh.Rng) (string, string) {
	row := c17LocalRows[r.Intn(len(c17LocalRows))]
	m1, m2 := row[r.Intn(len(row))], row[r.Intn(len(row))]
	switch r.Intn(8) {
	case 0:
		m2 = m1
	case 1: // a respelling of the whole local part
		m2 = r.Pick(norm.NFD.String(m1), norm.NFC.String(m1), strings.ToUpper(m1), strings.ToLower(m1), strings.ToTitle(m1), caseVariant(r, m1))
	case 2: // the row inside a longer local part
		pre, suf := r.Pick("", "x", "a.", "σ"), r.Pick("", "y", "+tag", ".z", "σ")
		m1, m2 = pre+m1+suf, pre+m2+suf
	}
	cl := c17DomClasses[r.Intn(len(c17DomClasses))]
	if r.Chance(45) {
		cl = c17DomClasses[2+r.Intn(2)] // bad punycode / disallowed: where the domain normalisation can fail
	}
	d1 := cl.doms[r.Intn(len(cl.doms))]
	if len(d1) > 80 && !r.Chance(20) {
		d1 = cl.doms[0] // the very long ones make very long op lines: keep them rare
	}
	d2 := c17DomRespell(r, cl, d1)
	if len(d2) > 80 && len(d1) <= 80 {
		d2 = d1
	}
	out.Stat("keypair.class." + cl.name)
	a, b := m1+"@"+d1, m2+"@"+d2
	// malformed on one side: the bare local part against "local@<a domain that normalises to nothing>", a
	// missing local part, a missing domain
	switch r.Intn(14) {
	case 0:
		a = m1
		b = m2 + "@" + r.Pick(".", "xn--", "xn--.", "..", "XN--")
		out.Stat("keypair.shape.bare-vs-empty-domain")
	case 1:
		a = m1
		out.Stat("keypair.shape.bare")
	case 2:
		a, b = "@"+d1, "@"+d2
		out.Stat("keypair.shape.no-local")
	case 3:
		a, b = m1+"@", m2+"@"
		out.Stat("keypair.shape.no-domain")
	case 4:
		a, b = m1+"@"+d1+"@"+d1, m2+"@"+d1+"@"+d2
		out.Stat("keypair.shape.two-at")
	default:
		out.Stat("keypair.shape.plain")
	}
	return a, b
}

func c17ErrTag(err error) string {
	if err != nil {
		return "err"
	}
	return "ok"
}

// c17KeyPairCase: the pair through the Equal-vs-key oracle (c17Strings), the Equal / ForLookup models, and the
// error-branch reading of the property: when the domain cannot be normalised the key is one total function of
// the whole string on both sides, so Equal is decided by the keys there too
func c17KeyPairCase(out *vh.Out, r *vh.Rng) {
	defer c17Recover()
	a, b := c17KeyPair(out, r)
	_, ea := c17xForLookup(a)
	_, eb := c17xForLookup(b)
	out.Stat("keypair.keys." + c17ErrTag(ea) + "-" + c17ErrTag(eb))
	if a != b {
		out.Stat(fmt.Sprintf("keypair.equal.%v", c17xEqual(a, b)))
	}
	c17Strings(out, a, b)
	c17Strings(out, b, a)
	// the two domains alone: dns.Equal <=> same dns.ForLookup key
	_, da := c17SplitAt(a)
	_, db := c17SplitAt(b)
	c17Strings(out, da, db)
	c17Op(out, "equal", a, b)
	if r.Chance(30) {
		if r.Chance(15) {
			c17Op(out, "dnsequal", da, db)
		} else {
			c17Op(out, r.Pick("forlookup", "forlookup", "cleandomain", "tounicode", "toascii", "valid"), r.Pick(a, b))
		}
	}
	c17NoCrash(out, a, b)
}

// ---- byte-level inputs: Go strings are byte strings (round 8) ----

// pieces that are not well-formed UTF-8: lone continuation bytes, Latin-1 / Windows-1252 letters, bytes that
// never occur (C0 C1 F5..FF), overlong forms, surrogates, beyond U+10FFFF, truncated sequences
var c17BadBytes = []string{"\x80", "\xbf", "\xe9", "\xfc", "\xff", "\xfe", "\xa0", "\x9f", "\x85", "\xd1", "\xc0", "\xc1", "\xf5",
	"\xc0\x80", "\xc1\xbf", "\xc0\xaf", "\xe0\x80\x80", "\xe0\x9f\xbf", "\xf0\x80\x80\x80", "\xf0\x8f\xbf\xbf", "\xed\xa0\x80", "\xed\xbf\xbf",
	"\xed\xa0\xbd\xed\xb8\x80", "\xc3", "\xe2\x82", "\xe2", "\xf0\x9f\x98", "\xf0\x9f", "\xf0", "\xf4\x90\x80\x80", "\xf8\x88\x80\x80\x80",
	"\xc3\x28", "\xe2\x28\xa1", "\x80\x80", "\xe9\xe8"}

var c17ASCIIPieces = []string{"a", "Z", "caf", "test", "user", "@", "@", ".", "xn--", "example.org", "\"", "\\", " ", "-", "0", "\x7f", "\x00", "postmaster"}

var c17GoodPieces = []string{"é", "\u0080", "߿", "ࠀ", "￿", "\U00010000", "\U0010ffff", "�", "ÿ", "́", "σ"}

// an arbitrary byte string; most of them have no well-formed non-ASCII character at all
func c17ByteString(r *vh.Rng) string {
	var b strings.Builder
	good := r.Chance(30)
	for k := r.Intn(6); k >= 0; k-- {
		switch x := r.Intn(100); {
		case x < 45:
			b.WriteString(c17BadBytes[r.Intn(len(c17BadBytes))])
		case x < 85 || !good:
			b.WriteString(c17ASCIIPieces[r.Intn(len(c17ASCIIPieces))])
		default:
			b.WriteString(c17GoodPieces[r.Intn(len(c17GoodPieces))])
		}
	}
	return b.String()
}

// Latin-1 spelling of a string (one byte per code point below U+0100, others kept)
func c17Latin1(s string) string {
	var b []byte
	for _, ch := range s {
		if ch < 0x100 {
			b = append(b, byte(ch))
		} else {
			b = append(b, string(ch)...)
		}
	}
	return string(b)
}

// an address-shaped byte string: ill-formed bytes in the local part and / or the domain of an otherwise
// ordinary address
func c17ByteAddr(r *vh.Rng) string {
	m := r.Pick("caf", "user", "test", "a", "rené", "ünïcode", "x_y", "first.last", "\"a b\"", "")
	d := r.Pick("example.org", "a", "münchen.de", "xn--mnchen-3ya.de", "XN--MNCHEN-3YA.de", "xn--99999999999.org", "[127.0.0.1]", "bücher.example")
	ins := func(s string) string {
		p := r.Intn(len(s) + 1)
		for !utf8.RuneStart(append([]byte(s), 0)[p]) {
			p--
		}
		return s[:p] + c17BadBytes[r.Intn(len(c17BadBytes))] + s[p:]
	}
	switch r.Intn(6) {
	case 0, 1, 2:
		if r.Chance(30) {
			m = c17Latin1(m)
		}
		if utf8.ValidString(m) {
			m = ins(m)
		}
		if r.Chance(50) {
			m = asciiOnly(m) // nothing but ASCII and ill-formed bytes
		}
	case 3:
		d = ins(d)
	case 4:
		m, d = ins(m), ins(d)
	default:
		d = c17Latin1(d)
		if utf8.ValidString(d) {
			d = ins(d)
		}
	}
	return m + "@" + d
}

// drops the well-formed non-ASCII characters of s, keeps ASCII and ill-formed bytes
func asciiOnly(s string) string {
	var b []byte
	for i := 0; i < len(s); {
		ch, w := utf8.DecodeRuneInString(s[i:])
		if ch < 0x80 || (ch == utf8.RuneError && w == 1) {
			b = append(b, s[i:i+w]...)
		}
		i += w
	}
	return string(b)
}

var c17ByteFns = []string{"isascii", "isascii", "toascii", "toascii", "tounicode", "forlookup", "split", "quote", "unquote", "cleandomain", "dnsforlookup", "valid"}

// c17ByteCase: one byte string through the byte-level oracles of c17Strings (IsASCII <=> every byte < 0x80,
// ToASCII's result is ASCII, Equal <=> same key ...) and through the models (ops carry hex bytes)
func c17ByteCase(out *vh.Out, r *vh.Rng) {
	defer c17Recover()
	var s string
	if r.Bool() {
		s = c17ByteString(r)
	} else {
		s = c17ByteAddr(r)
	}
	t := s
	switch r.Intn(4) {
	case 0:
		t = c17ByteString(r)
	case 1:
		t = strings.ToValidUTF8(s, "�") // same code points for Go's range, other bytes
	case 2:
		t = asciiUpper(s)
	}
	if utf8.ValidString(s) {
		out.Stat("bytes.wellformed")
	} else if asciiOnly(s) == s {
		out.Stat("bytes.illformed.no-other-non-ascii")
	} else {
		out.Stat("bytes.illformed.mixed")
	}
	c17Op(out, c17ByteFns[r.Intn(len(c17ByteFns))], s)
	if m, d := c17SplitAt(s); d != "" {
		c17Op(out, "isascii", r.Pick(m, d))
		c17Strings(out, m, d)
	}
	if r.Chance(40) {
		c17Op(out, r.Pick("equal", "dnsequal"), s, t)
	}
	c17Strings(out, s, t)
	c17Strings(out, t, s)
	c17NoCrash(out, s, t)
}

func c17Replay(out *vh.Out, op string) {
	toks := strings.Fields(op)
	if i := strings.Index(op, " | "); i >= 0 {
		toks = strings.Fields(op[:i])
	}
	switch toks[1] {
	case "laws":
		canon := vh.UnhexRunes(toks[2])
		i := strings.LastIndex(canon, "@")
		for seed := uint64(0); seed < 64; seed++ {
			c17Monitor(out, vh.NewRng(seed), c17Addr{canon[:i], canon[i+1:]})
		}
	case "variants":
		c17CheckPair(out, vh.UnhexRunes(toks[2]), vh.UnhexRunes(toks[3]))
	case "validkey":
		c17CheckValid(out, vh.UnhexRunes(toks[2]))
	case "distinct":
		c17CheckDistinct(out, vh.UnhexRunes(toks[2]), vh.UnhexRunes(toks[3]))
	case "crash":
		c17NoCrash(out, string(vh.UnhexBytes(toks[2])), string(vh.UnhexBytes(toks[3])))
	case "prim":
		c17Table(vh.UnhexRunes(toks[3]))
	case "long":
		c17LongReplay(out, toks[2:])
	case "hist", "par":
		c17Replay10(out, toks)
	case "idem", "normalform", "roundtrip":
		c17Replay11(out, toks)
	case "b":
		args := []string{}
		for _, t := range toks[3:] {
			args = append(args, string(vh.UnhexBytes(t)))
		}
		if len(args) == 0 {
			return
		}
		c17Op(out, toks[2], args...)
		c17Strings(out, args[0], args[len(args)-1])
		c17Strings(out, args[len(args)-1], args[0])
	default:
		args := []string{}
		for _, t := range toks[2:] {
			args = append(args, vh.UnhexRunes(t))
		}
		c17Op(out, toks[1], args...)
		if len(args) >= 1 {
			t := args[0]
			if len(args) >= 2 {
				t = args[1]
			}
			c17Strings(out, args[0], t)
		}
	}
}

func TestVerifC17(t *testing.T) {
	out := vh.Open("c17")
	defer out.Close()
	c17Out = out
	if ops := vh.Replay(); ops != nil {
		for _, op := range ops {
			if strings.HasPrefix(op, "C17 ") {
				c17Replay(out, op)
			}
		}
		return
	}
	r := vh.NewRng(vh.Seed() + 17)
	r8 := vh.NewRng(vh.Seed() + 1708)
	r9 := vh.NewRng(vh.Seed() + 1709)
	r10 := vh.NewRng(vh.Seed() + 1710)
	r10p := vh.NewRng(vh.Seed() + 1711)
	r11 := vh.NewRng(vh.Seed() + 1712)
	n := vh.N(3000)
	fns1 := []string{"split", "unquote", "quote", "isascii", "toascii", "tounicode", "forlookup", "cleandomain", "dnsforlookup", "valid"}
	for i := 0; i < n; i++ {
		var s, t string
		switch r.Intn(3) {
		case 0: // arbitrary strings over the alphabet
			s, t = c17Random(r, 8), c17Random(r, 8)
		case 1: // valid address and one of its variants
			a := c17Valid(r)
			vs := c17Variants(out, r, a)
			s, t = vs[0], vs[len(vs)-1]
			c17Monitor(out, r, a)
		default: // mutated valid address
			a := c17Valid(r)
			s = a.mbox + "@" + a.domain
			pos := r.Intn(len(s) + 1)
			for !utf8.RuneStart(append([]byte(s), 0)[pos]) {
				pos--
			}
			s = s[:pos] + c17Alphabet[r.Intn(len(c17Alphabet))] + s[pos:]
			t = c17Random(r, 6)
		}
		c17Op(out, fns1[r.Intn(len(fns1))], s)
		if r.Chance(40) {
			c17Op(out, "forlookup", s)
		}
		if r.Chance(30) {
			c17Op(out, r.Pick("equal", "dnsequal"), s, t)
		}
		if r.Chance(50) {
			fv := foldVariant(r, s)
			c17Op(out, r.Pick("equal", "dnsequal"), s, fv)
			c17Strings(out, s, fv)
			c17Strings(out, fv, s)
		}
		c17Strings(out, s, t)
		// crash-freedom over arbitrary bytes
		bs := make([]byte, r.Intn(12))
		for j := range bs {
			bs[j] = byte(r.Intn(256))
		}
		c17NoCrash(out, string(bs), s)
		c17NoCrash(out, s, t)
		// round 8: every domain class x every local-part row through the Equal-vs-key oracle; byte strings
		// (ill-formed UTF-8 included) through the byte-level oracles. Own generators (forked): the cases above
		// stay what they were for a given seed.
		if i%6 == 0 {
			c17KeyPairCase(out, r8)
		}
		if i%6 == 3 {
			c17ByteCase(out, r8)
		}
		// the uniformly random bytes too
		c17Strings(out, string(bs), string(bs))
		// round 9: over-long labels / names / local parts (with and without ACE prefix, every letter case) and other
		// size extremes through every function, each call under recover (own forked generator)
		if i%12 == 7 {
			c17LongCase(out, r9, i/12)
		}
		// round 10: histories about names the process has not seen before (first vs later answers), and the same
		// calls made by several goroutines at once (own forked generators)
		if i%6 == 4 {
			c17HistCase(out, r10)
		}
		if i%60 == 11 {
			c17ParCase(out, r10p)
		}
		// round 11: valid names made of long non-Latin labels (A-label form within the DNS limits, U-label form far
		// bigger) in all their spellings (own forked generator)
		if i%12 == 2 {
			c17BigIDNCase(out, r11, i/12)
		}
		// the three functions that got a correspondence op in round 9, on the strings of this iteration
		if i%6 == 1 {
			m, d := c17SplitAt(s)
			switch r9.Intn(3) {
			case 0:
				c17Op(out, "validmbox", r9.Pick(m, m, s, t))
			case 1:
				c17Op(out, "validdomain", r9.Pick(d, d, s, t))
			default:
				c17Op(out, "dnstounicode", r9.Pick(d, d, s, t))
			}
		}
	}
}
