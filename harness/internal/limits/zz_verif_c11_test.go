package limits_test

import (
	"context"
	"fmt"
	"net"
	"strconv"
	"strings"
	"sync"
	"sync/atomic"
	"testing"
	"time"

	"github.com/foxcpp/maddy/internal/limits"
	"github.com/foxcpp/maddy/internal/verifshim/vh"
	"github.com/foxcpp/maddy/internal/verifshim/vlim"
)

// ---- key spelling shared with the other C11 harnesses ----

// Source addresses are ids of the table in vlim (IPv4, IPv6 incl. several hosts of one /64, IPv4-mapped, odd
// ones); the key the code derives from each is observed (c11Keys), not assumed.
func c11V4(id int) net.IP  { return net.IPv4(10, 0, byte(id/256), byte(id%256)) }
func c11IP(id int) net.IP  { return vlim.Addr(id, c11V4) }
func c11Dom(id int) string { return "d" + strconv.Itoa(id) + ".example" }

var c11Keys = vlim.NewIPKeys(c11V4)

func c11KeyID(scope int, k string) int {
	if scope == 1 {
		return c11Keys.KeyID(k)
	}
	if strings.HasPrefix(k, "d") && strings.HasSuffix(k, ".example") {
		n, _ := strconv.Atoi(k[1 : len(k)-len(".example")])
		return n
	}
	return -1
}

// c11Line builds a grp op line: cfg, the observed key tokens of the addresses the ops mention, the ops.
func c11Line(cfg vlim.Cfg, ops []string) string {
	var addrs []int
	for _, o := range ops {
		if f := strings.Split(o, "."); (f[0] == "T" || f[0] == "R") && len(f) > 1 {
			a, _ := strconv.Atoi(f[1])
			addrs = append(addrs, a)
		}
	}
	return "C11 grp " + cfg.String() + " " + strings.Join(append(c11Keys.Tokens(addrs), ops...), " ")
}

// c11KeyLaw reports the addresses of the ops for which TakeMsg, its roll-back and ReleaseMsg were observed to
// use different buckets (the hypothesis IpKeys.Lawful of the theorems, checked on the real code).
func c11KeyLaw(out *vh.Out, opl string, ops []string) {
	seen := map[int]bool{}
	for _, o := range ops {
		f := strings.Split(o, ".")
		if (f[0] != "T" && f[0] != "R") || len(f) < 2 {
			continue
		}
		a, _ := strconv.Atoi(f[1])
		if seen[a] {
			continue
		}
		seen[a] = true
		if d := c11Keys.Unlawful(a); d != "" {
			out.Violation("C11/key-law", opl, fmt.Sprintf("address %d (%v): %s", a, c11IP(a), d))
		}
	}
}

func c11RandCfg(r *vh.Rng) vlim.Cfg {
	var c vlim.Cfg
	for sc := 0; sc < 4; sc++ {
		n := 0
		switch x := r.Intn(10); {
		case x < 3:
			n = 0
		case x < 8:
			n = 1
		default:
			n = 2
		}
		if sc == 0 && n == 0 && r.Chance(50) {
			n = 1
		}
		for i := 0; i < n; i++ {
			var l vlim.Lim
			l.Sem = r.Chance(80)
			switch x := r.Intn(20); {
			case x == 0:
				l.N = 0
			case x == 1:
				l.N = -1 - r.Intn(3)
			default:
				l.N = 1 + r.Intn(3)
				if !l.Sem {
					l.N = 1 + r.Intn(12)
				}
			}
			c.Scopes[sc] = append(c.Scopes[sc], l)
		}
	}
	if r.Chance(50) {
		c.Reap = -1
	} else {
		c.Reap = 3600
	}
	switch r.Intn(4) {
	case 0:
		c.MaxB = 20010
	default:
		c.MaxB = 1 + r.Intn(3)
	}
	return c
}

type c11Held struct {
	msg  [][2]int // (ip, dom) of successful TakeMsg not yet released
	dest []int
}

// monitor bookkeeping, independent of the model: who holds what according to the results of the real calls.
type c11Mon struct {
	cfg  vlim.Cfg
	hold [4]map[int]int
}

func newC11Mon(c vlim.Cfg) *c11Mon {
	m := &c11Mon{cfg: c}
	for i := range m.hold {
		m.hold[i] = map[int]int{}
	}
	return m
}

func (m *c11Mon) on(sc int) bool { return sc == 0 || len(m.cfg.Scopes[sc]) != 0 }

func (m *c11Mon) msg(ip, d, delta int) {
	m.hold[0][0] += delta
	m.hold[1][ip] += delta
	m.hold[2][d] += delta
}

// check returns a description of a bound violation, if any.
func (m *c11Mon) check() string {
	for sc := 0; sc < 4; sc++ {
		b := m.cfg.Bound(sc)
		if b == 0 {
			continue
		}
		for k, n := range m.hold[sc] {
			if n > b {
				return fmt.Sprintf("scope %s key %d: %d holders, concurrency %d configured", vlim.ScopeNames[sc], k, n, b)
			}
		}
	}
	return ""
}

func c11ErrStr(err error, cancelled bool) string {
	if err == nil {
		return "ok"
	}
	if strings.Contains(err.Error(), "bucket set is full") {
		return "full"
	}
	if cancelled || err == context.Canceled || err == context.DeadlineExceeded {
		return "timeout"
	}
	return "err"
}

// c11Do performs one op token on the real group. Returns result token ("ok","timeout","full","panic").
func c11Do(g *limits.Group, op string) (res string, detail string) {
	f := strings.Split(op, ".")
	atoi := func(i int) int { n, _ := strconv.Atoi(f[i]); return n }
	var err error
	var cancelled bool
	var p interface{}
	switch f[0] {
	case "T":
		err, cancelled, p = vlim.RunCtx(context.Background(), func(ctx context.Context) error { return g.TakeMsg(ctx, c11IP(atoi(1)), c11Dom(atoi(2))) })
	case "D":
		err, cancelled, p = vlim.RunCtx(context.Background(), func(ctx context.Context) error { return g.TakeDest(ctx, c11Dom(atoi(1))) })
	case "R":
		err, cancelled, p = vlim.RunCtx(context.Background(), func(ctx context.Context) error { g.ReleaseMsg(c11IP(atoi(1)), c11Dom(atoi(2))); return nil })
	case "E":
		err, cancelled, p = vlim.RunCtx(context.Background(), func(ctx context.Context) error { g.ReleaseDest(c11Dom(atoi(1))); return nil })
	default:
		panic("bad op " + op)
	}
	if p != nil {
		return "panic", fmt.Sprint(p)
	}
	return c11ErrStr(err, cancelled), ""
}

// one Group case: ops either replayed (fixed) or generated on the fly from the real results.
func c11GrpCase(out *vh.Out, cfg vlim.Cfg, r *vh.Rng, fixed []string, lawCheck bool) {
	opLine := func(ops []string) string { return c11Line(cfg, ops) }
	if fixed != nil {
		fixed = vlim.StripKeyTokens(fixed)
		if lawCheck {
			c11KeyLaw(out, opLine(fixed), fixed)
		}
	}
	g, p, err := vlim.NewGroup(cfg)
	if p != nil {
		out.Violation("C11/panic-init", opLine(fixed), fmt.Sprintf("Group.Init panicked: %v", p))
		out.Stat("grp:init-panic")
		return
	}
	if err != nil {
		out.Note("init error: " + err.Error())
		return
	}
	defer vlim.CloseGroup(g)
	mon := newC11Mon(cfg)
	var held c11Held
	var ops, obs []string
	nOps := 0
	if fixed == nil {
		nOps = 6 + r.Intn(30)
	} else {
		nOps = len(fixed)
	}
	nKeys := 2 + r.Intn(5)
	pool := vlim.AddrPool(r.Intn, nKeys)
	if fixed == nil {
		for _, a := range pool {
			out.Stat("grp:addr:" + vlim.AddrClass(a))
		}
	}
	ipOf := func() int { return pool[r.Intn(nKeys)] }
	panicked := false
	misuse := false
	for i := 0; i < nOps && !panicked; i++ {
		var op string
		valid := true
		if fixed != nil {
			op = fixed[i]
		} else {
			x := r.Intn(100)
			switch {
			case x < 38:
				op = fmt.Sprintf("T.%d.%d", ipOf(), 1+r.Intn(nKeys))
			case x < 55:
				op = fmt.Sprintf("D.%d", 1+r.Intn(nKeys))
			case x < 78 && len(held.msg) > 0:
				h := held.msg[r.Intn(len(held.msg))]
				op = fmt.Sprintf("R.%d.%d", h[0], h[1])
			case x < 96 && len(held.dest) > 0:
				op = fmt.Sprintf("E.%d", held.dest[r.Intn(len(held.dest))])
			case x >= 98:
				// client misuse: release of something never taken (correspondence only)
				if r.Bool() {
					op = fmt.Sprintf("R.%d.%d", ipOf(), 1+r.Intn(nKeys))
				} else {
					op = fmt.Sprintf("E.%d", 1+r.Intn(nKeys))
				}
			default:
				op = fmt.Sprintf("T.%d.%d", ipOf(), 1+r.Intn(nKeys))
			}
		}
		f := strings.Split(op, ".")
		a1, _ := strconv.Atoi(f[1])
		a2 := 0
		if len(f) > 2 {
			a2, _ = strconv.Atoi(f[2])
		}
		// is a release backed by a take?
		switch f[0] {
		case "R":
			valid = false
			for j, h := range held.msg {
				if h == [2]int{a1, a2} {
					held.msg = append(held.msg[:j:j], held.msg[j+1:]...)
					valid = true
					break
				}
			}
		case "E":
			valid = false
			for j, h := range held.dest {
				if h == a1 {
					held.dest = append(held.dest[:j:j], held.dest[j+1:]...)
					valid = true
					break
				}
			}
		}
		if !valid {
			misuse = true
		}
		res, detail := c11Do(g, op)
		ops = append(ops, op)
		out.Stat("grp:" + f[0] + ":" + res)
		if res == "panic" {
			obs = append(obs, "panic")
			panicked = true
			if !misuse {
				out.Violation("C11/panic", opLine(ops), "limit operation panicked: "+detail)
			}
			break
		}
		obs = append(obs, res+"@"+vlim.Snapshot(g, c11KeyID))
		if res == "ok" {
			switch f[0] {
			case "T":
				held.msg = append(held.msg, [2]int{a1, a2})
				mon.msg(vlim.MonID(a1), a2, +1)
			case "D":
				held.dest = append(held.dest, a1)
				mon.hold[3][a1]++
			case "R":
				if valid {
					mon.msg(vlim.MonID(a1), a2, -1)
				}
			case "E":
				if valid {
					mon.hold[3][a1]--
				}
			}
		}
		if !misuse {
			if v := mon.check(); v != "" {
				out.Violation("C11/bound", opLine(ops), v)
			}
		}
	}
	// delivery ends: everything still held is released (part of the compared run)
	if fixed == nil && !panicked {
		for _, h := range held.msg {
			op := fmt.Sprintf("R.%d.%d", h[0], h[1])
			res, detail := c11Do(g, op)
			ops = append(ops, op)
			if res == "panic" {
				obs = append(obs, "panic")
				panicked = true
				if !misuse {
					out.Violation("C11/panic", opLine(ops), "limit operation panicked: "+detail)
				}
				break
			}
			obs = append(obs, res+"@"+vlim.Snapshot(g, c11KeyID))
		}
		for _, h := range held.dest {
			if panicked {
				break
			}
			op := fmt.Sprintf("E.%d", h)
			res, detail := c11Do(g, op)
			ops = append(ops, op)
			if res == "panic" {
				obs = append(obs, "panic")
				panicked = true
				if !misuse {
					out.Violation("C11/panic", opLine(ops), "limit operation panicked: "+detail)
				}
				break
			}
			obs = append(obs, res+"@"+vlim.Snapshot(g, c11KeyID))
		}
		held = c11Held{}
	}
	out.Corr(opLine(ops), strings.Join(obs, " "))
	out.Stat(fmt.Sprintf("grp:ops:%d", len(ops)/10*10))
	if cfg.MaxB < 20 {
		out.Stat("grp:maxB-small")
	}
	if panicked || misuse || len(held.msg)+len(held.dest) > 0 {
		return
	}
	// quiescence: nothing is held any more -> every semaphore is empty, and after the reap interval
	// the full N of every scope can be acquired again, for a key seen before and for a fresh key.
	snap := vlim.Snapshot(g, c11KeyID)
	if !vlim.Idle(cfg, snap) {
		out.Violation("C11/leak", opLine(ops), "after every delivery ended permits are still in use: "+snap)
		return
	}
	vlim.Tune(g, -1, cfg.MaxB) // the reap interval has passed
	// keys of the probe are a function of the op line (replayable): the first address it mentions and a fresh one
	oldKey := 1
	for _, o := range ops {
		if f := strings.Split(o, "."); f[0] == "T" {
			oldKey, _ = strconv.Atoi(f[1])
			break
		}
	}
	c11Capacity(out, g, cfg, opLine(ops), []int{oldKey, []int{900, 139, 159, 206}[len(ops)%4]})
	out.Stat("grp:quiescent-checked")
}

// c11Capacity acquires the full configured N in every scope for each key id, and releases it again.
func c11Capacity(out *vh.Out, g *limits.Group, cfg vlim.Cfg, opl string, keys []int) {
	for _, k := range keys {
		if !(cfg.HasRate(0) || cfg.HasRate(1) || cfg.HasRate(2)) {
			n := 0
			for sc := 0; sc < 3; sc++ {
				if b := cfg.Bound(sc); b > 0 && (n == 0 || b < n) {
					n = b
				}
			}
			if n == 0 {
				n = 2
			}
			got := 0
			for i := 0; i < n; i++ {
				res, detail := c11Do(g, fmt.Sprintf("T.%d.%d", k, k))
				if res != "ok" {
					out.Violation("C11/quiescent-capacity", opl, fmt.Sprintf("after quiescence TakeMsg #%d of %d for key %d: %s %s", i+1, n, k, res, detail))
					break
				}
				got++
			}
			for i := 0; i < got; i++ {
				if res, detail := c11Do(g, fmt.Sprintf("R.%d.%d", k, k)); res != "ok" {
					out.Violation("C11/quiescent-capacity", opl, "release after quiescence: "+res+" "+detail)
					break
				}
			}
		}
		if !cfg.HasRate(3) {
			n := cfg.Bound(3)
			if n == 0 {
				n = 2
			}
			got := 0
			for i := 0; i < n; i++ {
				res, detail := c11Do(g, fmt.Sprintf("D.%d", k))
				if res != "ok" {
					out.Violation("C11/quiescent-capacity", opl, fmt.Sprintf("after quiescence TakeDest #%d of %d for key %d: %s %s", i+1, n, k, res, detail))
					break
				}
				got++
			}
			for i := 0; i < got; i++ {
				if res, detail := c11Do(g, fmt.Sprintf("E.%d", k)); res != "ok" {
					out.Violation("C11/quiescent-capacity", opl, "release after quiescence: "+res+" "+detail)
					break
				}
			}
		}
	}
}

func TestVerifC11Group(t *testing.T) {
	out := vh.Open("c11_group")
	defer out.Close()
	if rp := vh.Replay(); rp != nil {
		for _, l := range rp {
			f := strings.Fields(l)
			if len(f) < 3 || f[0] != "C11" || f[1] != "grp" {
				continue
			}
			cfg, err := vlim.ParseCfg(f[2])
			if err != nil {
				t.Fatal(err)
			}
			c11GrpCase(out, cfg, vh.NewRng(1), append([]string{}, f[3:]...), true)
		}
		return
	}
	for _, nt := range c11Keys.ProbeNotes() {
		out.Note("ip key probe: " + nt)
	}
	// the key law, address by address: a minimal case for every address whose three keys differ
	lawCfg, _ := vlim.ParseCfg("-/s1/s1/-/-1/20010")
	for _, a := range vlim.AllAddrIDs() {
		if c11Keys.Unlawful(a) == "" {
			out.Stat("grp:key-law:ok:" + vlim.AddrClass(a))
			continue
		}
		out.Stat("grp:key-law:broken:" + vlim.AddrClass(a))
		b := 1
		if tb, _, _ := c11Keys.Entry(b); func() bool { ta, _, _ := c11Keys.Entry(a); return ta == tb }() {
			b = 2
		}
		undoBroken, relBroken := c11Keys.Broken(a)
		if undoBroken { // a message from b holds the sender domain, the one from a is refused there and rolled back
			c11GrpCase(out, lawCfg, vh.NewRng(1), []string{fmt.Sprintf("T.%d.1", b), fmt.Sprintf("T.%d.1", a), fmt.Sprintf("R.%d.1", b)}, true)
		}
		if relBroken {
			c11GrpCase(out, lawCfg, vh.NewRng(1), []string{fmt.Sprintf("T.%d.1", a), fmt.Sprintf("R.%d.1", a)}, true)
		}
	}
	n := vh.N(400)
	for i := 0; i < n; i++ {
		r := vh.NewRng(vh.Seed()*1000003 + uint64(i))
		c11GrpCase(out, c11RandCfg(r), r, nil, false)
	}
}

// ---- concurrent histories: 1-64 goroutines, lifecycles ending at every stage ----

type c11Occ struct {
	mu   sync.Mutex
	n    [4]map[int]int
	peak [4]int
}

func (o *c11Occ) add(sc, k, d int) int {
	o.mu.Lock()
	defer o.mu.Unlock()
	if o.n[sc] == nil {
		o.n[sc] = map[int]int{}
	}
	o.n[sc][k] += d
	if o.n[sc][k] > o.peak[sc] {
		o.peak[sc] = o.n[sc][k]
	}
	return o.n[sc][k]
}

func c11ConcCase(out *vh.Out, cfg vlim.Cfg, seed uint64, workers, rounds, nKeys int) {
	opl := fmt.Sprintf("C11 conc %s seed=%d workers=%d rounds=%d keys=%d", cfg.String(), seed, workers, rounds, nKeys)
	g, p, err := vlim.NewGroup(cfg)
	if p != nil {
		out.Violation("C11/panic-init", opl, fmt.Sprintf("Group.Init panicked: %v", p))
		return
	}
	if err != nil {
		out.Note("init error: " + err.Error())
		return
	}
	defer vlim.CloseGroup(g)
	pool := vlim.AddrPool(vh.NewRng(seed*31+5).Intn, nKeys)
	for _, a := range pool {
		out.Stat("conc:addr:" + vlim.AddrClass(a))
	}
	var occ c11Occ
	var viol atomic.Value
	var wg sync.WaitGroup
	var nOK, nTimeout, nFull int64
	on := func(sc int) bool { return sc == 0 || len(cfg.Scopes[sc]) != 0 }
	enter := func(sc, k int) {
		if !on(sc) {
			return
		}
		n := occ.add(sc, k, 1)
		if b := cfg.Bound(sc); b > 0 && n > b {
			viol.Store(fmt.Sprintf("C11/bound\x00scope %s key %d: %d deliveries hold a permit, concurrency %d configured", vlim.ScopeNames[sc], k, n, b))
		}
	}
	leave := func(sc, k int) {
		if on(sc) {
			occ.add(sc, k, -1)
		}
	}
	count := func(err error) {
		switch c11ErrStr(err, false) {
		case "ok":
			atomic.AddInt64(&nOK, 1)
		case "full":
			atomic.AddInt64(&nFull, 1)
		default:
			atomic.AddInt64(&nTimeout, 1)
		}
	}
	for w := 0; w < workers; w++ {
		wg.Add(1)
		go func(w int) {
			defer wg.Done()
			defer func() {
				if p := recover(); p != nil {
					viol.Store(fmt.Sprintf("C11/panic\x00limit operation panicked: %v", p))
				}
			}()
			r := vh.NewRng(seed*7919 + uint64(w))
			for i := 0; i < rounds; i++ {
				ip, d := pool[r.Intn(nKeys)], 1+r.Intn(nKeys)
				to := time.Duration(1+r.Intn(4000)) * time.Microsecond
				if r.Chance(10) {
					to = 0 // already expired context
				}
				ctx, cancel := context.WithTimeout(context.Background(), to)
				err := g.TakeMsg(ctx, c11IP(ip), c11Dom(d))
				count(err)
				if err != nil {
					cancel()
					continue
				}
				enter(0, 0)
				enter(1, vlim.MonID(ip))
				enter(2, d)
				var dests []int
				nd := r.Intn(3)
				for j := 0; j < nd; j++ {
					dd := 1 + r.Intn(nKeys)
					dup := false
					for _, x := range dests {
						dup = dup || x == dd
					}
					if dup {
						continue
					}
					err := g.TakeDest(ctx, c11Dom(dd))
					count(err)
					if err != nil {
						continue
					}
					enter(3, dd)
					dests = append(dests, dd)
				}
				if r.Chance(50) {
					time.Sleep(time.Duration(r.Intn(300)) * time.Microsecond)
				}
				for _, dd := range dests {
					leave(3, dd)
					g.ReleaseDest(c11Dom(dd))
				}
				leave(0, 0)
				leave(1, vlim.MonID(ip))
				leave(2, d)
				g.ReleaseMsg(c11IP(ip), c11Dom(d))
				cancel()
			}
		}(w)
	}
	wg.Wait()
	out.StatN("conc:take-ok", int(nOK))
	out.StatN("conc:take-timeout", int(nTimeout))
	out.StatN("conc:take-full", int(nFull))
	out.Stat(fmt.Sprintf("conc:workers:%d", workers))
	for sc := 0; sc < 4; sc++ {
		if b := cfg.Bound(sc); b > 0 && occ.peak[sc] == b {
			out.Stat("conc:limit-reached:" + vlim.ScopeNames[sc])
		}
	}
	if v, ok := viol.Load().(string); ok {
		f := strings.SplitN(v, "\x00", 2)
		out.Violation(f[0], opl, f[1])
		return
	}
	snap := vlim.Snapshot(g, c11KeyID)
	if !vlim.Idle(cfg, snap) {
		out.Violation("C11/leak", opl, "after every delivery ended permits are still in use: "+snap)
		return
	}
	vlim.Tune(g, -1, cfg.MaxB)
	c11Capacity(out, g, cfg, opl, []int{pool[0], 900})
}

func c11ParseKV(f []string) map[string]int {
	m := map[string]int{}
	for _, x := range f {
		if kv := strings.SplitN(x, "=", 2); len(kv) == 2 {
			m[kv[0]], _ = strconv.Atoi(kv[1])
		}
	}
	return m
}

func TestVerifC11Conc(t *testing.T) {
	out := vh.Open("c11_conc")
	defer out.Close()
	if rp := vh.Replay(); rp != nil {
		for _, l := range rp {
			f := strings.Fields(l)
			if len(f) < 4 || f[0] != "C11" || f[1] != "conc" {
				continue
			}
			cfg, err := vlim.ParseCfg(f[2])
			if err != nil {
				t.Fatal(err)
			}
			kv := c11ParseKV(f[3:])
			for rep := 0; rep < 5; rep++ {
				c11ConcCase(out, cfg, uint64(kv["seed"]), kv["workers"], kv["rounds"], kv["keys"])
			}
		}
		return
	}
	n := vh.N(400) / 10
	if n < 4 {
		n = 4
	}
	for i := 0; i < n; i++ {
		seed := vh.Seed()*1000003 + uint64(i)
		r := vh.NewRng(seed + 77)
		cfg := c11RandCfg(r)
		workers := []int{1, 2, 4, 8, 16, 32, 64}[r.Intn(7)]
		nKeys := 1 + r.Intn(6)
		c11ConcCase(out, cfg, seed, workers, 8+r.Intn(20), nKeys)
	}
}
