package limiters_test

import (
	"context"
	"fmt"
	"reflect"
	"strconv"
	"strings"
	"testing"
	"time"

	"github.com/foxcpp/maddy/internal/limits/limiters"
	"github.com/foxcpp/maddy/internal/verifshim/vh"
	"github.com/foxcpp/maddy/internal/verifshim/vlim"
)

func c11bsKey(id int) string { return "k" + strconv.Itoa(id) }
func c11bsID(k string) int   { n, _ := strconv.Atoi(strings.TrimPrefix(k, "k")); return n }

// BucketSet with a simulated clock: op lines `C11 bs -/<ctors>/-/-/<reap>/<maxB> t.k r.k a.n …`,
// reap in hours (ReapInterval = reap h + 30 min; -1 = everything idle is stale), a.n = n hours pass.
func c11BsCase(out *vh.Out, cfg vlim.Cfg, r *vh.Rng, fixed []string) {
	opLine := func(ops []string) string { return "C11 bs " + cfg.String() + " " + strings.Join(ops, " ") }
	ctors := cfg.Scopes[1]
	var rates []limiters.L
	defer func() {
		for _, l := range rates {
			func() { defer func() { recover() }(); l.Close() }()
		}
	}()
	mk := func() limiters.L {
		var w []limiters.L
		for _, c := range ctors {
			if c.Sem {
				w = append(w, limiters.NewSemaphore(c.N))
			} else {
				l := limiters.NewRate(c.N, time.Hour)
				rates = append(rates, l)
				w = append(w, l)
			}
		}
		return &limiters.MultiLimit{Wrapped: w}
	}
	reap := time.Duration(cfg.Reap)*time.Hour + 30*time.Minute
	if cfg.Reap < 0 {
		reap = -1
	}
	var bs *limiters.BucketSet
	func() {
		defer func() {
			if p := recover(); p != nil {
				out.Violation("C11/panic-init", opLine(fixed), fmt.Sprint(p))
			}
		}()
		bs = limiters.NewBucketSet(mk, reap, cfg.MaxB)
	}()
	if bs == nil {
		return
	}
	snap := func() string { return vlim.BucketSetString(reflect.ValueOf(bs), c11bsID) }
	hold := map[int]int{}
	bound := cfg.Bound(1)
	var ops, obs []string
	n := len(fixed)
	if fixed == nil {
		n = 8 + r.Intn(40)
	}
	nKeys := 2 + r.Intn(6)
	misuse, panicked := false, false
	do := func(op string) {
		f := strings.Split(op, ".")
		a, _ := strconv.Atoi(f[1])
		ops = append(ops, op)
		switch f[0] {
		case "a":
			vlim.AdvanceClock(bs, time.Duration(a)*time.Hour)
			obs = append(obs, "adv@"+snap())
			out.Stat("bs:adv")
			return
		case "t":
			err, cancelled, p := vlim.RunCtx(context.Background(), func(ctx context.Context) error { return bs.TakeContext(ctx, c11bsKey(a)) })
			if p != nil {
				obs = append(obs, "panic")
				panicked = true
				out.Stat("bs:t:panic")
				if !misuse {
					out.Violation("C11/panic", opLine(ops), fmt.Sprintf("BucketSet.TakeContext panicked: %v", p))
				}
				return
			}
			res := "ok"
			if err != nil {
				res = "timeout"
				if strings.Contains(err.Error(), "bucket set is full") {
					res = "full"
				} else if !cancelled {
					res = "err"
				}
			}
			out.Stat("bs:t:" + res)
			obs = append(obs, res+"@"+snap())
			if res == "ok" {
				hold[a]++
				if bound > 0 && hold[a] > bound && !misuse {
					out.Violation("C11/bound", opLine(ops), fmt.Sprintf("key %d: %d holders, concurrency %d", a, hold[a], bound))
				}
			}
		case "r":
			_, _, p := vlim.RunCtx(context.Background(), func(ctx context.Context) error { bs.Release(c11bsKey(a)); return nil })
			if p != nil {
				obs = append(obs, "panic")
				panicked = true
				out.Stat("bs:r:panic")
				if !misuse {
					out.Violation("C11/panic", opLine(ops), fmt.Sprintf("BucketSet.Release panicked: %v", p))
				}
				return
			}
			out.Stat("bs:r:ok")
			obs = append(obs, "ok@"+snap())
		}
	}
	for i := 0; i < n && !panicked; i++ {
		if fixed != nil {
			f := strings.Split(fixed[i], ".")
			a, _ := strconv.Atoi(f[1])
			if f[0] == "r" {
				if hold[a] > 0 {
					hold[a]--
				} else {
					misuse = true
				}
			}
			do(fixed[i])
			continue
		}
		x := r.Intn(100)
		var heldKeys []int
		for k, v := range hold {
			if v > 0 {
				heldKeys = append(heldKeys, k)
			}
		}
		// deterministic choice among held keys
		min := -1
		for _, k := range heldKeys {
			if min < 0 || k < min {
				min = k
			}
		}
		switch {
		case x < 50:
			do(fmt.Sprintf("t.%d", 1+r.Intn(nKeys)))
		case x < 80 && len(heldKeys) > 0:
			k := heldKeys[0]
			// pick pseudo-randomly but independent of map order
			pick := r.Intn(len(heldKeys))
			ks := append([]int{}, heldKeys...)
			for i := range ks {
				for j := i + 1; j < len(ks); j++ {
					if ks[j] < ks[i] {
						ks[i], ks[j] = ks[j], ks[i]
					}
				}
			}
			k = ks[pick]
			hold[k]--
			do(fmt.Sprintf("r.%d", k))
		case x < 95:
			do(fmt.Sprintf("a.%d", r.Intn(4)))
		case x < 97:
			k := 1 + r.Intn(nKeys)
			if hold[k] > 0 {
				hold[k]--
			} else {
				misuse = true
			}
			do(fmt.Sprintf("r.%d", k))
		default:
			do(fmt.Sprintf("t.%d", 1+r.Intn(nKeys)))
		}
	}
	if fixed == nil && !panicked {
		for k := 1; k <= nKeys; k++ {
			for hold[k] > 0 && !panicked {
				hold[k]--
				do(fmt.Sprintf("r.%d", k))
			}
		}
	}
	out.Corr(opLine(ops), strings.Join(obs, " "))
	if panicked || misuse {
		return
	}
	for _, v := range hold {
		if v > 0 {
			return
		}
	}
	// quiescence + the reap interval passes: full N for an old and for a fresh key
	if s := snap(); !vlim.Idle(vlim.Cfg{Scopes: [4][]vlim.Lim{nil, ctors}}, "A=|I="+s+"|S=off|D=off") {
		out.Violation("C11/leak", opLine(ops), "after every release permits are still in use: "+s)
		return
	}
	if cfg.HasRate(1) {
		return
	}
	nb := bound
	if nb == 0 {
		nb = 2
	}
	for _, k := range []int{1, 900} {
		// the reap interval passes (also after the probe of the previous key)
		vlim.AdvanceClock(bs, time.Duration(cfg.Reap+1)*time.Hour)
		got := 0
		for i := 0; i < nb; i++ {
			err, _, p := vlim.RunCtx(context.Background(), func(ctx context.Context) error { return bs.TakeContext(ctx, c11bsKey(k)) })
			if p != nil || err != nil {
				out.Violation("C11/quiescent-capacity", opLine(ops), fmt.Sprintf("after quiescence and the reap interval, TakeContext #%d of %d for key %d: err=%v panic=%v", i+1, nb, k, err, p))
				break
			}
			got++
		}
		for i := 0; i < got; i++ {
			bs.Release(c11bsKey(k))
		}
	}
	out.Stat("bs:quiescent-checked")
}

func TestVerifC11BucketSet(t *testing.T) {
	out := vh.Open("c11_bucketset")
	defer out.Close()
	if rp := vh.Replay(); rp != nil {
		for _, l := range rp {
			f := strings.Fields(l)
			if len(f) < 3 || f[0] != "C11" || f[1] != "bs" {
				continue
			}
			cfg, err := vlim.ParseCfg(f[2])
			if err != nil {
				t.Fatal(err)
			}
			c11BsCase(out, cfg, vh.NewRng(1), append([]string{}, f[3:]...))
		}
		return
	}
	n := vh.N(400)
	for i := 0; i < n; i++ {
		r := vh.NewRng(vh.Seed()*1000003 + uint64(i) + 500000)
		var cfg vlim.Cfg
		nl := 1 + r.Intn(2)
		for j := 0; j < nl; j++ {
			l := vlim.Lim{Sem: r.Chance(85), N: 1 + r.Intn(3)}
			if !l.Sem {
				l.N = 2 + r.Intn(10)
			}
			if r.Chance(5) {
				l.N = -r.Intn(2)
			}
			cfg.Scopes[1] = append(cfg.Scopes[1], l)
		}
		cfg.Reap = []int{-1, 0, 1, 2, 5}[r.Intn(5)]
		cfg.MaxB = 1 + r.Intn(4)
		c11BsCase(out, cfg, r, nil)
	}
}
