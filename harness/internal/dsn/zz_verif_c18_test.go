package dsn

// C18 — direct harness on dsn.GenerateDSN: generated envelopes, reporting-MTA data and recipient
// records (valid and invalid), both report flavours; the output is parsed with Go's stdlib MIME
// packages (vdsn.Parse) and compared with the Lean model; well-formedness is evaluated on every
// report that is generated.
//
// op:  C18 gen <utf8> <msgId> <from> <to> <rm> <rcvd> <xs> <xid> <arr> <hdr> <nr>
//              {<final> <remote> <action> <a.b.c> <diag>}*nr <idna table>
// diag = S:<code>:<a.b.c>:<hex msg> | O:<hex text> | N ; strings are hex runes ("-" = empty).

import (
	"bytes"
	"errors"
	"fmt"
	"strconv"
	"strings"
	"testing"
	"time"

	"github.com/emersion/go-message/textproto"
	"github.com/emersion/go-smtp"
	"github.com/foxcpp/maddy/internal/verifshim/vdsn"
	"github.com/foxcpp/maddy/internal/verifshim/vh"
)

type c18Rcpt struct {
	final, remote, action string
	st                    [3]int
	dkind                 byte
	dcode                 int
	dench                 [3]int
	dtext                 string
}

type c18Gen struct {
	utf8                               bool
	msgID, from, to, rm, rcvd, xs, xid string
	arr                                bool
	hdr                                int
	rcpts                              []c18Rcpt
}

func c18b(b bool) string {
	if b {
		return "1"
	}
	return "0"
}

func (g *c18Gen) op() string {
	t := []string{"C18", "gen", c18b(g.utf8), vh.HexRunes(g.msgID), vh.HexRunes(g.from), vh.HexRunes(g.to), vh.HexRunes(g.rm),
		vh.HexRunes(g.rcvd), vh.HexRunes(g.xs), vh.HexRunes(g.xid), c18b(g.arr), strconv.Itoa(g.hdr), strconv.Itoa(len(g.rcpts))}
	addrs := []string{g.xs}
	doms := []string{g.rm, g.rcvd}
	for _, r := range g.rcpts {
		d := "N"
		switch r.dkind {
		case 'S':
			d = fmt.Sprintf("S:%d:%d.%d.%d:%s", r.dcode, r.dench[0], r.dench[1], r.dench[2], vh.HexRunes(r.dtext))
		case 'O':
			d = "O:" + vh.HexRunes(r.dtext)
		}
		t = append(t, vh.HexRunes(r.final), vh.HexRunes(r.remote), vh.HexRunes(r.action), fmt.Sprintf("%d.%d.%d", r.st[0], r.st[1], r.st[2]), d)
		addrs = append(addrs, r.final)
		doms = append(doms, r.remote)
	}
	t = append(t, vdsn.Table(g.utf8, addrs, doms))
	return strings.Join(t, " ")
}

func c18ParseGen(op string) *c18Gen {
	t := strings.Fields(op)
	atoi := func(s string) int { v, _ := strconv.Atoi(s); return v }
	trip := func(s string) [3]int {
		p := strings.Split(s, ".")
		return [3]int{atoi(p[0]), atoi(p[1]), atoi(p[2])}
	}
	g := &c18Gen{utf8: t[2] == "1", msgID: vh.UnhexRunes(t[3]), from: vh.UnhexRunes(t[4]), to: vh.UnhexRunes(t[5]), rm: vh.UnhexRunes(t[6]),
		rcvd: vh.UnhexRunes(t[7]), xs: vh.UnhexRunes(t[8]), xid: vh.UnhexRunes(t[9]), arr: t[10] == "1", hdr: atoi(t[11])}
	n := atoi(t[12])
	for i := 0; i < n; i++ {
		f := t[13+5*i : 18+5*i]
		r := c18Rcpt{final: vh.UnhexRunes(f[0]), remote: vh.UnhexRunes(f[1]), action: vh.UnhexRunes(f[2]), st: trip(f[3])}
		d := strings.Split(f[4], ":")
		r.dkind = d[0][0]
		switch r.dkind {
		case 'S':
			r.dcode, r.dench, r.dtext = atoi(d[1]), trip(d[2]), vh.UnhexRunes(d[3])
		case 'O':
			r.dtext = vh.UnhexRunes(d[1])
		}
		g.rcpts = append(g.rcpts, r)
	}
	return g
}

var c18Texts = []string{
	"Mailbox does not exist", "Try again later", "", "Пользователь не найден", "café closed", "line one\nline two\r\nline three",
	"multi  space   text", "emoji \U0001F4E7 here", "tab\there", strings.Repeat("long diagnostic text ", 12) + "end",
	"ends with newline\n", "\u0080 edge ~", "semi; colon: and <brackets>", "x",
}

func c18Run(out *vh.Out, op string) {
	g := c18ParseGen(op)
	env := Envelope{MsgID: g.msgID, From: g.from, To: g.to}
	mta := ReportingMTAInfo{ReportingMTA: g.rm, ReceivedFromMTA: g.rcvd, XSender: g.xs, XMessageID: g.xid, LastAttemptDate: time.Now()}
	if g.arr {
		mta.ArrivalDate = time.Now().Add(-time.Hour)
	}
	var rcpts []RecipientInfo
	for _, r := range g.rcpts {
		ri := RecipientInfo{FinalRecipient: r.final, RemoteMTA: r.remote, Action: Action(r.action), Status: smtp.EnhancedCode(r.st)}
		switch r.dkind {
		case 'S':
			ri.DiagnosticCode = &smtp.SMTPError{Code: r.dcode, EnhancedCode: smtp.EnhancedCode(r.dench), Message: r.dtext}
		case 'O':
			ri.DiagnosticCode = errors.New(r.dtext)
		}
		rcpts = append(rcpts, ri)
	}
	var body bytes.Buffer
	var hdr textproto.Header
	var err error
	panicked := false
	func() {
		defer func() {
			if recover() != nil {
				panicked = true
			}
		}()
		hdr, err = GenerateDSN(g.utf8, env, mta, rcpts, vdsn.Header(g.hdr), &body)
	}()
	switch {
	case panicked:
		out.Corr(op, "err:panic")
		out.Stat("gen.err.panic")
		return
	case err != nil:
		n := vdsn.GenErrName(err.Error())
		out.Corr(op, "err:"+n)
		if strings.HasPrefix(n, "other(") {
			// not one of the refusals GenerateDSN documents (a required field missing, a name that
			// cannot be converted): every field is there, yet no report - whatever the error texts
			// of the recipients look like, they have to be presentable as a Diagnostic-Code
			out.Violation("C18/report-not-generated", op, "GenerateDSN failed on complete input: "+err.Error())
			n = "other"
		}
		out.Stat("gen.err." + n)
		return
	}
	var msg bytes.Buffer
	if werr := textproto.WriteHeader(&msg, hdr); werr != nil {
		out.Violation("C18/malformed-report", op, "report header cannot be written: "+werr.Error())
		return
	}
	msg.Write(body.Bytes())
	p := vdsn.Parse(msg.Bytes(), g.utf8)
	out.Corr(op, p.Canon(g.utf8, p.Top.Get("Message-Id"), vdsn.RecogniseHeader(p.OrigHdr, g.hdr)))
	out.Stat("gen.ok")
	out.Stat(fmt.Sprintf("gen.utf8.%v", g.utf8))
	out.Stat(fmt.Sprintf("gen.rcpts.%d", len(g.rcpts)))

	// ---- monitor: every report that is generated is a well-formed multipart/report ----
	if len(g.rcpts) > 0 {
		for _, pr := range p.Problems {
			out.Violation("C18/malformed-report", op, pr)
			break
		}
	}
	if vdsn.RecogniseHeader(p.OrigHdr, g.hdr) == "?" {
		out.Violation("C18/original-header-not-carried", op, fmt.Sprintf("third part: %q", p.OrigHdr))
	}
	// one per-recipient group per record handed in, each with the record's own status: records
	// naming the same address (two members of one alias) or two spellings of one mailbox are still
	// separate recipients with their own outcome
	if len(p.Rcpts) != len(g.rcpts) {
		out.Violation("C18/recipient-groups", op, fmt.Sprintf("%d groups for %d recipients", len(p.Rcpts), len(g.rcpts)))
	} else {
		used := make([]bool, len(p.Rcpts))
		for _, rc := range g.rcpts {
			want := fmt.Sprintf("%d.%d.%d", rc.st[0], rc.st[1], rc.st[2])
			found := false
			for gi, grp := range p.Rcpts {
				if used[gi] || len(grp["Final-Recipient"]) == 0 || len(grp["Status"]) == 0 {
					continue
				}
				_, a := vdsn.SplitTyped(grp["Final-Recipient"][0])
				if vdsn.SameMailbox(a, rc.final) && strings.TrimSpace(grp["Status"][0]) == want {
					used[gi], found = true, true
					break
				}
			}
			if !found {
				out.Violation("C18/recipient-groups", op, fmt.Sprintf("no group for the record %q with status %s", rc.final, want))
				break
			}
		}
	}
	// the local part is opaque: whatever the report type does to the domain (A-labels / U-labels),
	// every record is named under exactly the local-part bytes that were handed in - group i is
	// record i (GenerateDSN writes the groups in the order of the records)
	if len(p.Rcpts) == len(g.rcpts) {
		for i, rc := range g.rcpts {
			if len(p.Rcpts[i]["Final-Recipient"]) == 0 {
				continue
			}
			_, a := vdsn.SplitTyped(p.Rcpts[i]["Final-Recipient"][0])
			if !vdsn.LocalPartKept(a, rc.final) {
				out.Violation("C18/failed-recipient-not-listed", op, fmt.Sprintf("record %d names %q, the report shows %q: the local part was altered", i+1, rc.final, a))
				break
			}
		}
	}
	// Diagnostic-Code of group i: ONE well-formed field carrying the text of record i's error with
	// line breaks (CR, LF in any combination) and other control characters flattened to white space
	if len(p.Rcpts) == len(g.rcpts) {
		for i, rc := range g.rcpts {
			dg := p.Rcpts[i]["Diagnostic-Code"]
			text := vdsn.FlatText(rc.dtext)
			if !g.utf8 {
				text = vdsn.ASCIIText(rc.dtext)
			}
			switch {
			case rc.dkind == 'S' && len(dg) != 1, rc.dkind == 'O' && g.utf8 && len(dg) != 1:
				out.Violation("C18/diagnostic-missing", op, fmt.Sprintf("record %d: %d Diagnostic-Code fields", i+1, len(dg)))
			case rc.dkind == 'S':
				want := fmt.Sprintf("smtp; %d %d.%d.%d %s", rc.dcode, rc.dench[0], rc.dench[1], rc.dench[2], text)
				if vdsn.CanonWs(dg[0]) != vdsn.CanonWs(want) {
					out.Violation("C18/diagnostic-not-last-error", op, fmt.Sprintf("record %d: Diagnostic-Code %q, the error says %q", i+1, dg[0], want))
				}
			case rc.dkind == 'O' && g.utf8:
				if want := "X-Maddy; " + text; vdsn.CanonWs(dg[0]) != vdsn.CanonWs(want) {
					out.Violation("C18/diagnostic-not-last-error", op, fmt.Sprintf("record %d: Diagnostic-Code %q, the error says %q", i+1, dg[0], want))
				}
			}
			if rc.dkind != 'N' {
				switch {
				case vdsn.BareCR(rc.dtext):
					out.Stat("gen.text.bare-cr")
				case vdsn.HasCtl(rc.dtext):
					out.Stat("gen.text.other-control")
				case strings.ContainsAny(rc.dtext, "\r\n"):
					out.Stat("gen.text.line-breaks")
				default:
					out.Stat("gen.text.plain")
				}
			}
		}
	}
	if g.xs != "" && p.Mta != nil {
		if v := p.Mta["X-Maddy-Sender"]; len(v) != 1 {
			out.Violation("C18/sender-address-altered", op, fmt.Sprintf("%d X-Maddy-Sender fields for sender %q", len(v), g.xs))
		} else if _, a := vdsn.SplitTyped(v[0]); !vdsn.SameMailbox(a, g.xs) {
			out.Violation("C18/sender-address-altered", op, fmt.Sprintf("sender %q shown as %q", g.xs, a))
		}
	}
	if got := p.Top.Get("To"); vdsn.CanonWs(got) != vdsn.CanonWs(g.to) {
		out.Violation("C18/report-header-to", op, fmt.Sprintf("To: %q, envelope says %q", got, g.to))
	}
	for _, rc := range g.rcpts {
		if vdsn.NonNFCLocal(rc.final) {
			out.Stat("gen.rcpt.local-part-not-nfc")
			break
		}
	}
	if vdsn.NonNFCLocal(g.xs) {
		out.Stat("gen.sender.local-part-not-nfc")
	}
	for _, rc := range g.rcpts {
		if strings.EqualFold(rc.final, "postmaster") {
			out.Stat("gen.rcpt.domainless-postmaster")
			break
		}
	}
	seen := map[string]bool{}
	for _, rc := range g.rcpts {
		if seen[strings.ToLower(rc.final)] {
			out.Stat("gen.same-address-or-case-variant")
			break
		}
		seen[strings.ToLower(rc.final)] = true
	}
}

func c18GenCase(r *vh.Rng) *c18Gen {
	g := &c18Gen{utf8: r.Bool(), msgID: "<" + r.Pick("1a2b3c4d", "ffffffff") + "@example.org>", from: "MAILER-DAEMON@example.org", hdr: r.Intn(vdsn.NumHeaders()), arr: r.Chance(90)}
	nf := vdsn.NumASCIILocalForms
	if g.utf8 {
		nf = vdsn.NumDeliverable
	}
	g.to = vdsn.Addr(r.Intn(nf), 99)
	g.rm = r.Pick("mx.example.org", "mx.example.org", "mx.example.org", "mx.example.org", "почта.example", "xn--80a1acny.example")
	if r.Chance(6) {
		g.rm = r.Pick("", "xn--0.example")
	}
	if r.Chance(50) {
		g.rcvd = r.Pick("client.example", "xn--e1afmkfd.example", "клиент.example", "[192.0.2.1]")
		if r.Chance(8) {
			g.rcvd = "xn--0.example"
		}
	}
	if r.Chance(85) {
		f := r.Intn(nf)
		if r.Chance(10) {
			f = r.Intn(vdsn.NumForms)
		}
		g.xs = vdsn.Addr(f, 98)
	}
	if r.Chance(90) {
		g.xid = "0a1b2c3d"
	}
	n := 1 + r.Intn(4)
	if r.Chance(4) {
		n = 0
	}
	for i := 0; i < n; i++ {
		f := r.Intn(nf)
		if r.Chance(8) {
			f = r.Intn(vdsn.NumForms)
		}
		rc := c18Rcpt{final: vdsn.Addr(f, i+1), action: r.Pick("failed", "failed", "failed", "delayed", "delivered", "relayed", "expanded")}
		if i > 0 && r.Chance(14) {
			// another member of the alias an earlier record stands for, or the same mailbox as the
			// sender spelled it a second time
			prev := g.rcpts[r.Intn(i)].final
			rc.final = prev
			if r.Chance(50) && strings.HasPrefix(prev, "u") {
				rc.final = strings.ToUpper(prev) // u1@example.org / U1@EXAMPLE.ORG
			}
		}
		if r.Chance(3) {
			// the domain-less postmaster (address.Split's special case; EqualFold also takes U+017F for s)
			rc.final = r.Pick("postmaster", "Postmaster", "POSTMASTER", "po\u017ftmaster", "postmaster@", "@example.org")
		}
		if r.Chance(3) {
			rc.final = ""
		}
		if r.Chance(3) {
			rc.action = ""
		}
		codes := [][4]int{{550, 5, 1, 1}, {450, 4, 2, 0}, {451, 4, 0, 0}, {554, 5, 7, 0}, {552, 5, 3, 4}, {421, 4, 4, 2}, {554, 5, 0, 0}, {452, 4, 5, 3}}
		c := codes[r.Intn(len(codes))]
		rc.st = [3]int{c[1], c[2], c[3]}
		if r.Chance(4) {
			rc.st = [3]int{0, r.Intn(2), r.Intn(2)}
		}
		if r.Chance(3) {
			rc.st = [3]int{2 + r.Intn(6), r.Intn(10), r.Intn(300)}
		}
		text := c18Texts[r.Intn(len(c18Texts))]
		if r.Chance(35) {
			text = vdsn.NastyTexts[r.Intn(len(vdsn.NastyTexts))]
		}
		codeLike := r.Chance(8)
		if codeLike {
			// round 11: texts that begin like an address / a version / a status code / a basic code
			text = c18CodeLikeTexts[r.Intn(len(c18CodeLikeTexts))]
		}
		switch k := r.Intn(10); {
		case k < 7:
			rc.dkind, rc.dcode, rc.dench, rc.dtext = 'S', c[0], [3]int{c[1], c[2], c[3]}, text
			if r.Chance(10) || (codeLike && r.Chance(50)) {
				rc.dench = [3]int{0, 0, 0}
			}
		case k < 9:
			rc.dkind, rc.dtext = 'O', "dial tcp: "+text
			if r.Chance(20) {
				rc.dtext = text
			}
		default:
			rc.dkind = 'N'
		}
		if r.Chance(30) {
			rc.remote = r.Pick("mx2.example.net", "почта.example", "xn--80a1acny.example")
			if r.Chance(10) {
				rc.remote = "xn--0.example"
			}
		}
		g.rcpts = append(g.rcpts, rc)
	}
	return g
}

// c18CodeLikeTexts: error texts whose beginning reads like a number group (the same family as in
// the queue harness): the text of a reply is text, whatever it looks like.
var c18CodeLikeTexts = []string{
	"192.0.2.25 is listed in our block list", "198.51.100.7", "10.1.2 is the minimum client version",
	"4.2.2 Mailbox full", "5.1.1 User unknown", "2.0.0 nonsense: this was a failure", "0.0.0 no class", "5.1.1", "7.7.7 class seven",
	"999.1000.70000 out of range", "5.1.1.1 four numbers", "5.1 two numbers", "550 5.1.1 code repeated in the text", "550 no such user", "554",
	" 5.2.2 leading blank", "5.2.2\nsecond line", "+5.1.1 signed", "05.01.01 padded", "\uff15.\uff11.\uff11 full-width digits",
	"smtp; 550 5.1.1 looks like a Diagnostic-Code", "[192.0.2.1] said: 550 5.7.1 rejected", "4.2.2\rbare CR after a code",
}

func TestVerifC18Gen(t *testing.T) {
	out := vh.Open("c18_gen")
	defer out.Close()
	if ops := vh.Replay(); ops != nil {
		for _, op := range ops {
			if strings.HasPrefix(op, "C18 gen ") {
				c18Run(out, op)
			}
		}
		return
	}
	r := vh.NewRng(vh.Seed() + 1801)
	n := vh.N(1500)
	for i := 0; i < n; i++ {
		c18Run(out, c18GenCase(r).op())
	}
}
