package dkim

// Overlay-only exports for the C08 harness (never part of the repository tree).

import (
	"crypto"
	"io"

	"github.com/emersion/go-message/textproto"
	"github.com/foxcpp/maddy/framework/module"
)

// c08Signer wraps the loaded key: it signs with it and reports the digest it was asked to sign.
type c08Signer struct {
	inner crypto.Signer
	rec   func(digest []byte)
}

func (s c08Signer) Public() crypto.PublicKey { return s.inner.Public() }
func (s c08Signer) Sign(rand io.Reader, digest []byte, opts crypto.SignerOpts) ([]byte, error) {
	s.rec(append([]byte{}, digest...))
	return s.inner.Sign(rand, digest, opts)
}

// C08RecordDigests makes every key of the modifier report the digests it signs.
func C08RecordDigests(mod module.Module, rec func(digest []byte)) {
	m := mod.(*Modifier)
	for k, s := range m.signers {
		m.signers[k] = c08Signer{inner: s, rec: rec}
	}
}

// C08FieldsToSign calls the unexported fieldsToSign.
func C08FieldsToSign(mod module.Module, h *textproto.Header) []string {
	return mod.(*Modifier).fieldsToSign(h)
}

// C08SetLists sets the two configured lists directly (the config parser is not under test).
func C08SetLists(mod module.Module, oversign, sign []string) {
	m := mod.(*Modifier)
	m.oversignHeader = oversign
	m.signHeader = sign
}

func C08NewBare() module.Module { return &Modifier{} }

// C08SignerPublics returns, per normalised domain, the public half of the key the modifier signs with
// (looking through a recording wrapper).
func C08SignerPublics(mod module.Module) map[string]crypto.PublicKey {
	out := map[string]crypto.PublicKey{}
	for k, s := range mod.(*Modifier).signers {
		out[k] = s.Public()
	}
	return out
}

// C08Lists returns the configured lists (the signer's input).
func C08Lists(mod module.Module) (oversign, sign []string) {
	m := mod.(*Modifier)
	return append([]string{}, m.oversignHeader...), append([]string{}, m.signHeader...)
}

// c08NamedSigner reports under which entry of the signers map the key that signs was found.
type c08NamedSigner struct {
	inner crypto.Signer
	name  string
	rec   func(entry string)
}

func (s c08NamedSigner) Public() crypto.PublicKey { return s.inner.Public() }
func (s c08NamedSigner) Sign(rand io.Reader, digest []byte, opts crypto.SignerOpts) ([]byte, error) {
	s.rec(s.name)
	return s.inner.Sign(rand, digest, opts)
}

// C08RecordSignerUse makes every key of the modifier report the map entry (normalised domain) it is stored under
// whenever it signs (round 9: which key signs for which sender).
func C08RecordSignerUse(mod module.Module, rec func(entry string)) {
	m := mod.(*Modifier)
	for k, s := range m.signers {
		m.signers[k] = c08NamedSigner{inner: s, name: k, rec: rec}
	}
}
